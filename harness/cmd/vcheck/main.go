// vcheck is the entry point of every registered check:  vcheck <ID> quick|thorough [--replay <dir>]
// It re-executes itself as "vcheck worker <task> ..." for the parts that call the code under test
// in-process, so that a panic of that code is observed as the death of a child process.
package main

import (
	"fmt"
	"os"

	"verif/harness/internal/checks"
	"verif/harness/internal/core"
)

func main() {
	if len(os.Args) >= 3 && os.Args[1] == "worker" {
		fn, ok := checks.Workers[os.Args[2]]
		if !ok {
			fmt.Fprintln(os.Stderr, "unknown worker task", os.Args[2])
			os.Exit(64)
		}

		if err := fn(os.Args[3:]); err != nil {
			fmt.Fprintln(os.Stderr, "WORKER-ERROR:", err)
			os.Exit(65)
		}

		return
	}

	if len(os.Args) < 3 {
		fmt.Fprintln(os.Stderr, "usage: vcheck <ID> quick|thorough [--replay <dir>]")
		os.Exit(64)
	}

	prop, tier := os.Args[1], os.Args[2]
	if tier != "quick" && tier != "thorough" {
		fmt.Fprintln(os.Stderr, "tier must be quick or thorough")
		os.Exit(64)
	}

	fn, ok := checks.Checks[prop]
	if !ok {
		fmt.Fprintln(os.Stderr, "no check for", prop)
		os.Exit(64)
	}

	ctx, err := core.NewCtx(prop, tier)
	if err != nil {
		fmt.Fprintln(os.Stderr, "cannot set up:", err)
		os.Exit(core.ExitInconclusive)
	}

	for i := 3; i+1 < len(os.Args); i++ {
		if os.Args[i] == "--replay" {
			ctx.ReplayDir = os.Args[i+1]
		}
	}

	// what an earlier run of this check, tier and seed kept (replays of its violations) is not this run's: remove it,
	// unless this run re-validates a stored trace (which may be one of them)
	if ctx.ReplayDir == "" {
		_ = os.RemoveAll(ctx.OutDir)
	}

	func() {
		defer func() {
			if r := recover(); r != nil {
				ctx.Inconclusive("harness panic: %v", r)
			}
		}()
		fn(ctx)
	}()
	os.Exit(ctx.Finish())
}

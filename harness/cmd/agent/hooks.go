package main

func installHooks() {}

package main

import (
	"bufio"
	"encoding/json"
	"fmt"
	"net"
	"os"
	"strings"
	"sync"
	"sync/atomic"

	"github.com/omec-project/upf-epc/pfcpiface"
	"github.com/prometheus/client_golang/prometheus"
)

// hooks is the agent-side end of the control channel: it reports scheduling points, parks
// goroutines at gated points until the harness releases them, and answers snapshot requests.
type hooks struct {
	conn   net.Conn
	wmu    sync.Mutex
	seq    int64
	mu     sync.Mutex
	gates  map[string]bool
	parked map[int64]chan struct{}
	report bool
	iface  atomic.Value // *pfcpiface.PFCPIface
}

func installHooks() *hooks {
	path := os.Getenv("VERIF_CTL")
	if path == "" {
		return nil
	}

	c, err := net.Dial("unix", path)
	if err != nil {
		fmt.Fprintln(os.Stderr, "VERIF-AGENT: cannot connect control socket:", err)
		return nil
	}

	h := &hooks{conn: c, gates: map[string]bool{}, parked: map[int64]chan struct{}{}}
	pfcpiface.VerifPoint = h.point
	initTuning()

	go h.serve()

	return h
}

func (h *hooks) setIface(p *pfcpiface.PFCPIface) { h.iface.Store(p) }

func (h *hooks) send(s string) {
	h.wmu.Lock()
	defer h.wmu.Unlock()
	_, _ = h.conn.Write([]byte(s + "\n"))
}

func (h *hooks) point(name string, args ...interface{}) {
	h.mu.Lock()
	gated := h.gates[name] || h.gates["*"]
	report := h.report || gated

	if !report {
		h.mu.Unlock()
		return
	}

	seq := atomic.AddInt64(&h.seq, 1)

	var ch chan struct{}
	if gated {
		ch = make(chan struct{})
		h.parked[seq] = ch
	}
	h.mu.Unlock()

	g := 0
	if gated {
		g = 1
	}

	h.send(fmt.Sprintf("EV %d %d %s %s", seq, g, name, strings.TrimSpace(fmt.Sprintln(args...))))

	if gated {
		<-ch
	}
}

func (h *hooks) serve() {
	r := bufio.NewReader(h.conn)

	for {
		line, err := r.ReadString('\n')
		if err != nil {
			// harness gone: release everything so that the process can be torn down
			h.mu.Lock()
			h.gates = map[string]bool{}
			for k, ch := range h.parked {
				close(ch)
				delete(h.parked, k)
			}
			h.mu.Unlock()

			return
		}

		f := strings.Fields(line)
		if len(f) == 0 {
			continue
		}

		switch f[0] {
		case "REPORT":
			h.mu.Lock()
			h.report = len(f) > 1 && f[1] == "1"
			h.mu.Unlock()
		case "GATE":
			if len(f) > 1 {
				h.mu.Lock()
				h.gates[f[1]] = true
				h.mu.Unlock()
			}
		case "UNGATE":
			if len(f) > 1 {
				h.mu.Lock()
				delete(h.gates, f[1])
				h.mu.Unlock()
			}
		case "GO":
			var seq int64
			if len(f) > 1 {
				fmt.Sscanf(f[1], "%d", &seq)
			}

			h.mu.Lock()
			if ch, ok := h.parked[seq]; ok {
				close(ch)
				delete(h.parked, seq)
			}
			h.mu.Unlock()
		case "SNAP":
			out := map[string]interface{}{}
			if p, ok := h.iface.Load().(*pfcpiface.PFCPIface); ok && p != nil {
				out = p.VerifSnapshot()
			}

			out["gauge"] = sessionsGauge()
			out["seidDraws"] = seidDraws()

			b, _ := json.Marshal(out)
			h.send("SNAP " + string(b))
		default:
			h.tune(f)
		}
	}
}

// sessionsGauge sums the pfcp_sessions gauge over its labels (-1 if it is not registered).
func sessionsGauge() int {
	mfs, err := prometheus.DefaultGatherer.Gather()
	if err != nil {
		return -1
	}

	for _, mf := range mfs {
		if mf.GetName() != "pfcp_sessions" {
			continue
		}

		total := 0.0
		for _, m := range mf.GetMetric() {
			total += m.GetGauge().GetValue()
		}

		return int(total)
	}

	return 0
}

func seidDraws() int {
	seids.mu.Lock()
	defer seids.mu.Unlock()

	return seids.draws
}

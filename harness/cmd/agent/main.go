// verif-agent: the agent under test. It runs the real start-up path of /repo (LoadConfigFile ->
// NewPFCPIface -> Run) built with the tag "verif", after connecting the guarded hooks to the
// harness' control socket (path in VERIF_CTL; without it the hooks stay disabled).
package main

import (
	"flag"
	"fmt"
	"os"

	"github.com/omec-project/upf-epc/logger"
	"github.com/omec-project/upf-epc/pfcpiface"
	"go.uber.org/zap/zapcore"
)

func main() {
	configPath := flag.String("config", "upf.jsonc", "path to upf config")
	flag.Parse()

	conf, err := pfcpiface.LoadConfigFile(*configPath)
	if err != nil {
		fmt.Fprintln(os.Stderr, "VERIF-AGENT config error:", err)
		os.Exit(3)
	}

	lvl, _ := zapcore.ParseLevel(conf.LogLevel.String())
	logger.SetLogLevel(lvl)

	h := installHooks()
	pfcpi := pfcpiface.NewPFCPIface(conf)

	if h != nil {
		h.setIface(pfcpi)
	}

	pfcpi.Run()
	fmt.Fprintln(os.Stderr, "VERIF-AGENT run returned")
}

package main

import (
	"math/rand"
	"os"
	"strconv"
	"sync"
	"time"

	"github.com/omec-project/upf-epc/pfcpiface"
)

// Inputs that cannot be supplied from outside (DESIGN 3.3): the values the per-association random
// source returns for UP SEID draws, the TEID cursor, the DDN interval.

type seidSource struct {
	mu    sync.Mutex
	queue []uint64
	fall  *rand.Rand
	draws int
}

var seids = &seidSource{fall: rand.New(rand.NewSource(time.Now().UnixNano()))} // #nosec G404

func (s *seidSource) Uint64() uint64 {
	s.mu.Lock()
	defer s.mu.Unlock()
	s.draws++

	if len(s.queue) > 0 {
		v := s.queue[0]
		s.queue = s.queue[1:]

		return v
	}

	return s.fall.Uint64()
}

func (s *seidSource) Int63() int64 { return int64(s.Uint64() >> 1) }
func (s *seidSource) Seed(int64)   {}

func initTuning() {
	pfcpiface.VerifSeidSource = func() rand.Source { return seids }

	if ms, err := strconv.Atoi(os.Getenv("VERIF_DDN_MS")); err == nil && ms > 0 {
		pfcpiface.VerifDdnInterval = time.Duration(ms) * time.Millisecond
	}
}

// tune handles SEIDS <v>... and TEIDCURSOR <n>.
func (h *hooks) tune(f []string) {
	switch f[0] {
	case "PING": // commands are handled in order: the answer says that everything sent before has taken effect
		h.send("OK PING")
	case "SEIDS":
		seids.mu.Lock()
		seids.queue = seids.queue[:0]

		for _, x := range f[1:] {
			if v, err := strconv.ParseUint(x, 10, 64); err == nil {
				seids.queue = append(seids.queue, v)
			}
		}
		seids.mu.Unlock()
		h.send("OK SEIDS")
	case "TEIDCURSOR":
		if len(f) > 1 {
			if v, err := strconv.ParseUint(f[1], 10, 32); err == nil {
				if p, ok := h.iface.Load().(*pfcpiface.PFCPIface); ok && p != nil {
					p.VerifSetTeidCursor(uint32(v))
				}
			}
		}

		h.send("OK TEIDCURSOR")
	}
}

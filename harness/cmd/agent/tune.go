package main

// tune handles the harness commands that supply inputs which cannot be given from outside
// (SEID source, TEID cursor, DDN interval). Filled in as the corresponding hooks are added.
func tune(f []string) {}

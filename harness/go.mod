module verif/harness

go 1.24.0

require (
	github.com/golang/protobuf v1.5.4
	github.com/google/gopacket v1.1.19
	github.com/omec-project/upf-epc v0.0.0
	github.com/p4lang/p4runtime v1.3.0
	github.com/prometheus/client_golang v1.11.1
	github.com/wmnsk/go-pfcp v0.0.24
	go.uber.org/zap v1.27.0
	google.golang.org/genproto v0.0.0-20230410155749-daa745c078e1
	google.golang.org/grpc v1.71.0
	google.golang.org/protobuf v1.36.5
)

require (
	github.com/Showmax/go-fqdn v1.0.0 // indirect
	github.com/beorn7/perks v1.0.1 // indirect
	github.com/cespare/xxhash/v2 v2.3.0 // indirect
	github.com/deckarep/golang-set v1.8.0 // indirect
	github.com/grpc-ecosystem/go-grpc-middleware v1.3.0 // indirect
	github.com/libp2p/go-reuseport v0.1.0 // indirect
	github.com/matttproud/golang_protobuf_extensions v1.0.4 // indirect
	github.com/prometheus/client_model v0.2.0 // indirect
	github.com/prometheus/common v0.26.0 // indirect
	github.com/prometheus/procfs v0.6.0 // indirect
	go.uber.org/multierr v1.10.0 // indirect
	golang.org/x/net v0.38.0 // indirect
	golang.org/x/sys v0.31.0 // indirect
	golang.org/x/text v0.23.0 // indirect
)

replace github.com/omec-project/upf-epc => /repo

// Package pfcpx contains the PFCP side of the harness: abstract requests (what a script step
// says), their concretisation into go-pfcp messages, the decoding of what the agent sends back,
// the scripted peer, and the projection of concrete values into the encodings the TLA+
// specifications read (tokens, 16-bit limb pairs, base-10^4 limb sequences).
package pfcpx

import (
	"fmt"
	"net"
	"sync"

	"github.com/wmnsk/go-pfcp/ie"
)

// ---------------------------------------------------------------------------------------------
// value encodings (DESIGN 3.4)

// V32 encodes a value that nominally fits 32 bits as a limb pair [hi16, lo16]; a value that does
// not fit becomes a triple (which equals no pair in the specification).
func V32(x uint64) []int {
	if x > 0xFFFFFFFF {
		return []int{int((x >> 32) & 0xFFFF), int((x >> 16) & 0xFFFF), int(x & 0xFFFF)}
	}

	return []int{int(x >> 16), int(x & 0xFFFF)}
}

// V16 encodes a value that nominally fits 16 bits as an int; otherwise as a triple.
func V16(x uint64) interface{} {
	if x > 0xFFFF {
		return V32(x | 1<<40)
	}

	return int(x)
}

// Big encodes a natural number as little-endian base-10^4 limbs (BigNat.tla); zero is [].
func Big(x uint64) []int {
	out := []int{}
	for x > 0 {
		out = append(out, int(x%10000))
		x /= 10000
	}

	return out
}

func IP4(ip net.IP) uint32 {
	v4 := ip.To4()
	if v4 == nil {
		return 0
	}

	return uint32(v4[0])<<24 | uint32(v4[1])<<16 | uint32(v4[2])<<8 | uint32(v4[3])
}

func ToIP(x uint32) net.IP { return net.IPv4(byte(x>>24), byte(x>>16), byte(x>>8), byte(x)).To4() }

// Toks is a first-appearance dictionary from concrete 64-bit values to opaque tokens.
type Toks struct {
	mu     sync.Mutex
	prefix string
	m      map[uint64]string
	n      int
}

func NewToks(prefix string) *Toks { return &Toks{prefix: prefix, m: map[uint64]string{}} }

// Reg registers a value (idempotent) and returns its token. Zero is always "zero".
func (t *Toks) Reg(v uint64) string {
	if v == 0 {
		return "zero"
	}

	t.mu.Lock()
	defer t.mu.Unlock()

	if s, ok := t.m[v]; ok {
		return s
	}

	t.n++
	s := fmt.Sprintf("%s%d", t.prefix, t.n)
	t.m[v] = s

	return s
}

// Get returns the token of a registered value; an unregistered value projects to alien:<hex>.
func (t *Toks) Get(v uint64) string {
	if v == 0 {
		return "zero"
	}

	t.mu.Lock()
	defer t.mu.Unlock()

	if s, ok := t.m[v]; ok {
		return s
	}

	return fmt.Sprintf("alien:%x", v)
}

// ---------------------------------------------------------------------------------------------
// abstract rules

// FlowEP is one endpoint of a flow description.
type FlowEP struct {
	Kind   string // any | assigned | net
	IP     uint32
	Len    int // prefix length (32 = host written without /len when Bare)
	Bare   bool
	Ports  string // none | one | range
	Lo, Hi int
}

// Flow is the AST of an IPFilterRule (C08, C03).
type Flow struct {
	Action string // permit | deny
	Dir    string // in | out
	Proto  string // ip | tcp | udp | number
	ProtoN int
	Src    FlowEP
	Dst    FlowEP
}

func (e FlowEP) text() string {
	s := ""

	switch e.Kind {
	case "any":
		s = "any"
	case "assigned":
		s = "assigned"
	default:
		s = ToIP(e.IP).String()
		if !e.Bare {
			s += fmt.Sprintf("/%d", e.Len)
		}
	}

	switch e.Ports {
	case "one":
		s += fmt.Sprintf(" %d", e.Lo)
	case "range":
		s += fmt.Sprintf(" %d-%d", e.Lo, e.Hi)
	}

	return s
}

// Text renders the flow description.
func (f Flow) Text() string {
	p := f.Proto
	if p == "number" {
		p = fmt.Sprint(f.ProtoN)
	}

	return fmt.Sprintf("%s %s %s from %s to %s", f.Action, f.Dir, p, f.Src.text(), f.Dst.text())
}

func (e FlowEP) json() map[string]interface{} {
	ln := e.Len
	if e.Kind == "net" && e.Bare {
		ln = 32
	}

	return map[string]interface{}{"kind": e.Kind, "ip": V32(uint64(e.IP)), "len": ln, "ports": e.Ports, "lo": e.Lo, "hi": e.Hi}
}

func (f Flow) JSON() map[string]interface{} {
	pn := f.ProtoN

	switch f.Proto {
	case "tcp":
		pn = 6
	case "udp":
		pn = 17
	case "ip":
		pn = 255 // reserved: no protocol match
	}

	return map[string]interface{}{"action": f.Action, "dir": f.Dir, "proto": pn, "src": f.Src.json(), "dst": f.Dst.json()}
}

// PDR is an abstract Create/Update PDR.
type PDR struct {
	ID       uint16
	Prec     uint32
	Src      string // access | core
	FTEID    string // none | choose | explicit
	TunIP    uint32
	TEID     uint32
	UE       string // none | explicit | alloc
	UEIP     uint32
	SDF      *Flow  // nil = no SDF filter
	SDFText  string // when set, sent instead of SDF.Text() (corrupted descriptions, C08)
	AppID    string // "" = none
	OHR      bool
	FAR      uint32
	QERs     []uint32
	NoFARID  bool // omit FAR ID (rejection scenarios)
	NoPrec   bool
	SrcOther uint8 // when Src == "other": raw source interface value
}

// FAR is an abstract Create/Update FAR.
type FAR struct {
	ID     uint32
	Action uint8  // apply-action octet
	HasFP  bool   // (Update) Forwarding Parameters present
	Dst    string // access | core | sgi | cp | none(absent)
	OHC    bool
	PeerIP uint32
	TEID   uint32
	SNDEM  bool
	SMReq  bool // PFCPSMReq-Flags IE present
	// SMReqOther: other bits of the PFCPSMReq-Flags octet (DROBU 0x01, QAURR 0x04, spare bits) sent along; they do
	// not change what the rule asks for with respect to end markers
	SMReqOther uint8
}

// QER is an abstract Create/Update QER.
type QER struct {
	ID             uint32
	QFI            uint8
	ULGate, DLGate uint8
	ULMBR, DLMBR   uint64 // kbit/s
	ULGBR, DLGBR   uint64
	NoGBR          bool // omit the GBR IE
	NoMBR          bool
}

func (p PDR) JSON() map[string]interface{} {
	m := map[string]interface{}{
		"id": int(p.ID), "prec": V32(uint64(p.Prec)), "src": p.Src,
		"fteid": p.FTEID, "tunip": V32(uint64(p.TunIP)), "teid": V32(uint64(p.TEID)),
		"ue": p.UE, "ueip": V32(uint64(p.UEIP)),
		"app": p.AppID, "ohr": p.OHR, "far": V32(uint64(p.FAR)),
		"nofar": p.NoFARID, "noprec": p.NoPrec,
	}
	if m["app"] == "" {
		m["app"] = "-"
	}

	qs := [][]int{}
	for _, q := range p.QERs {
		qs = append(qs, V32(uint64(q)))
	}

	m["qers"] = qs

	switch {
	case p.SDFText != "":
		m["sdf"] = "text"
		m["flow"] = map[string]interface{}{"text": p.SDFText}
	case p.SDF != nil:
		m["sdf"] = "flow"
		m["flow"] = p.SDF.JSON()
	default:
		m["sdf"] = "none"
		m["flow"] = map[string]interface{}{"text": "-"}
	}

	return m
}

func (f FAR) JSON() map[string]interface{} {
	return map[string]interface{}{
		"id": V32(uint64(f.ID)), "action": int(f.Action), "fp": f.HasFP, "dst": f.Dst, "ohc": f.OHC,
		"peer": V32(uint64(f.PeerIP)), "teid": V32(uint64(f.TEID)), "sndem": f.SNDEM,
	}
}

func (q QER) JSON() map[string]interface{} {
	return map[string]interface{}{
		"id": V32(uint64(q.ID)), "qfi": int(q.QFI), "ulGate": int(q.ULGate), "dlGate": int(q.DLGate),
		"ulMbr": Big(mbrVal(q.ULMBR, q.NoMBR)), "dlMbr": Big(mbrVal(q.DLMBR, q.NoMBR)),
		"ulGbr": Big(mbrVal(q.ULGBR, q.NoGBR)), "dlGbr": Big(mbrVal(q.DLGBR, q.NoGBR)),
	}
}

func mbrVal(v uint64, absent bool) uint64 {
	if absent {
		return 0
	}

	return v
}

// ---------------------------------------------------------------------------------------------
// concretisation into go-pfcp IEs

func srcIfaceVal(p PDR) uint8 {
	switch p.Src {
	case "access":
		return ie.SrcInterfaceAccess
	case "core":
		return ie.SrcInterfaceCore
	case "cp":
		return ie.SrcInterfaceCPFunction
	}

	return p.SrcOther
}

func (p PDR) ies() []*ie.IE {
	pdi := []*ie.IE{ie.NewSourceInterface(srcIfaceVal(p))}

	switch p.FTEID {
	case "choose":
		pdi = append(pdi, ie.NewFTEID(0x04, 0, nil, nil, 0))
	case "explicit":
		pdi = append(pdi, ie.NewFTEID(0x01, p.TEID, ToIP(p.TunIP), nil, 0))
	}

	switch p.UE {
	case "explicit":
		flags := uint8(0x02) // V4
		if p.Src == "core" {
			flags |= 0x04 // S/D: destination
		}

		pdi = append(pdi, ie.NewUEIPAddress(flags, ToIP(p.UEIP).String(), "", 0, 0))
	case "alloc":
		pdi = append(pdi, ie.NewUEIPAddress(0x10, "", "", 0, 0)) // CHV4
	}

	if p.AppID != "" {
		pdi = append(pdi, ie.NewApplicationID(p.AppID))
	}

	if p.SDFText != "" {
		pdi = append(pdi, ie.NewSDFFilter(p.SDFText, "", "", "", 0))
	} else if p.SDF != nil {
		pdi = append(pdi, ie.NewSDFFilter(p.SDF.Text(), "", "", "", 0))
	}

	out := []*ie.IE{ie.NewPDRID(p.ID)}
	if !p.NoPrec {
		out = append(out, ie.NewPrecedence(p.Prec))
	}

	out = append(out, ie.NewPDI(pdi...))
	if p.OHR {
		out = append(out, ie.NewOuterHeaderRemoval(0, 0))
	}

	if !p.NoFARID {
		out = append(out, ie.NewFARID(p.FAR))
	}

	for _, q := range p.QERs {
		out = append(out, ie.NewQERID(q))
	}

	return out
}

func (p PDR) CreateIE() *ie.IE { return ie.NewCreatePDR(p.ies()...) }
func (p PDR) UpdateIE() *ie.IE { return ie.NewUpdatePDR(p.ies()...) }

func dstIfaceVal(s string) uint8 {
	switch s {
	case "access":
		return ie.DstInterfaceAccess
	case "core":
		return ie.DstInterfaceCore
	case "sgi":
		return ie.DstInterfaceSGiLANN6LAN
	case "cp":
		return ie.DstInterfaceCPFunction
	}

	return 0
}

func (f FAR) fpIEs() []*ie.IE {
	var out []*ie.IE
	if f.Dst != "none" && f.Dst != "" {
		out = append(out, ie.NewDestinationInterface(dstIfaceVal(f.Dst)))
	}

	if f.OHC {
		out = append(out, ie.NewOuterHeaderCreation(0x0100, f.TEID, ToIP(f.PeerIP).String(), "", 0, 0, 0))
	}

	if f.SMReq || f.SNDEM {
		fl := f.SMReqOther &^ 0x02
		if f.SNDEM {
			fl |= 0x02
		}

		out = append(out, ie.NewPFCPSMReqFlags(fl))
	}

	return out
}

func (f FAR) CreateIE() *ie.IE {
	out := []*ie.IE{ie.NewFARID(f.ID), ie.NewApplyAction(f.Action)}
	if f.HasFP {
		out = append(out, ie.NewForwardingParameters(f.fpIEs()...))
	}

	return ie.NewCreateFAR(out...)
}

func (f FAR) UpdateIE() *ie.IE {
	out := []*ie.IE{ie.NewFARID(f.ID), ie.NewApplyAction(f.Action)}
	if f.HasFP {
		out = append(out, ie.NewUpdateForwardingParameters(f.fpIEs()...))
	}

	return ie.NewUpdateFAR(out...)
}

func (q QER) ies() []*ie.IE {
	out := []*ie.IE{ie.NewQERID(q.ID), ie.NewQFI(q.QFI), ie.NewGateStatus(q.ULGate, q.DLGate)}
	if !q.NoMBR {
		out = append(out, ie.NewMBR(q.ULMBR, q.DLMBR))
	}

	if !q.NoGBR {
		out = append(out, ie.NewGBR(q.ULGBR, q.DLGBR))
	}

	return out
}

func (q QER) CreateIE() *ie.IE { return ie.NewCreateQER(q.ies()...) }
func (q QER) UpdateIE() *ie.IE { return ie.NewUpdateQER(q.ies()...) }

package pfcpx

import (
	"encoding/binary"
	"fmt"
	"net"
	"sync"
	"syscall"
	"time"

	"github.com/wmnsk/go-pfcp/ie"
	"github.com/wmnsk/go-pfcp/message"
)

// Dgram is one datagram received by a peer, decoded as far as the specifications need.
type Dgram struct {
	At       time.Time
	Raw      []byte
	ParseErr string
	Type     string
	TypeNum  int
	Seq      uint32
	HasSEID  bool
	SEID     uint64
	Cause    int // -1 = no Cause IE
	NodeID   string
	HasFSEID bool
	UPSeid   uint64
	UPSeidIP uint32
	Created  []CreatedPDR
	HasTS    bool
	TS       uint32
	Features []byte
	HasUPIP  bool // User Plane IP Resource Information present
	Offend   int  // offending IE type, -1 none
	DLDRPdr  int  // PDR id in a Downlink Data Report, -1 none
	Report   int  // report type octet, -1 none
}

type CreatedPDR struct {
	PDR     uint16
	HasTEID bool
	TEID    uint32
	TunIP   uint32
	HasUE   bool
	UEIP    uint32
}

func typeName(t uint8) string {
	switch t {
	case message.MsgTypeHeartbeatRequest:
		return "HeartbeatRequest"
	case message.MsgTypeHeartbeatResponse:
		return "HeartbeatResponse"
	case message.MsgTypePFDManagementRequest:
		return "PFDManagementRequest"
	case message.MsgTypePFDManagementResponse:
		return "PFDManagementResponse"
	case message.MsgTypeAssociationSetupRequest:
		return "AssociationSetupRequest"
	case message.MsgTypeAssociationSetupResponse:
		return "AssociationSetupResponse"
	case message.MsgTypeAssociationReleaseRequest:
		return "AssociationReleaseRequest"
	case message.MsgTypeAssociationReleaseResponse:
		return "AssociationReleaseResponse"
	case message.MsgTypeSessionEstablishmentRequest:
		return "SessionEstablishmentRequest"
	case message.MsgTypeSessionEstablishmentResponse:
		return "SessionEstablishmentResponse"
	case message.MsgTypeSessionModificationRequest:
		return "SessionModificationRequest"
	case message.MsgTypeSessionModificationResponse:
		return "SessionModificationResponse"
	case message.MsgTypeSessionDeletionRequest:
		return "SessionDeletionRequest"
	case message.MsgTypeSessionDeletionResponse:
		return "SessionDeletionResponse"
	case message.MsgTypeSessionReportRequest:
		return "SessionReportRequest"
	case message.MsgTypeSessionReportResponse:
		return "SessionReportResponse"
	}

	return fmt.Sprintf("Type%d", t)
}

// Decode decodes a datagram sent by the agent.
func Decode(raw []byte, at time.Time) Dgram {
	d := Dgram{At: at, Raw: raw, Cause: -1, Offend: -1, DLDRPdr: -1, Report: -1}

	defer func() {
		if r := recover(); r != nil {
			d.ParseErr = fmt.Sprint("decoder panic: ", r)
		}
	}()

	hdr, err := message.ParseHeader(raw)
	if err != nil {
		d.ParseErr = err.Error()
		return d
	}

	d.TypeNum = int(hdr.Type)
	d.Type = typeName(hdr.Type)
	d.Seq = hdr.SequenceNumber
	d.HasSEID = hdr.HasSEID()
	d.SEID = hdr.SEID

	ies, err := ie.ParseMultiIEs(hdr.Payload)
	if err != nil {
		d.ParseErr = "IEs: " + err.Error()
		return d
	}

	for _, i := range ies {
		switch i.Type {
		case ie.Cause:
			if c, err := i.Cause(); err == nil {
				d.Cause = int(c)
			}
		case ie.NodeID:
			if s, err := i.NodeID(); err == nil {
				d.NodeID = s
			}
		case ie.FSEID:
			if f, err := i.FSEID(); err == nil {
				d.HasFSEID = true
				d.UPSeid = f.SEID
				d.UPSeidIP = IP4(f.IPv4Address)
			}
		case ie.RecoveryTimeStamp:
			if t, err := i.RecoveryTimeStamp(); err == nil {
				d.HasTS = true
				d.TS = uint32(t.Unix())
			}
		case ie.UPFunctionFeatures:
			d.Features = append([]byte(nil), i.Payload...)
		case ie.UserPlaneIPResourceInformation:
			d.HasUPIP = true
		case ie.OffendingIE:
			if len(i.Payload) >= 2 {
				d.Offend = int(i.Payload[0])<<8 | int(i.Payload[1])
			}
		case ie.ReportType:
			if len(i.Payload) >= 1 {
				d.Report = int(i.Payload[0])
			}
		case ie.DownlinkDataReport:
			if sub, err := ie.ParseMultiIEs(i.Payload); err == nil {
				for _, s := range sub {
					if s.Type == ie.PDRID {
						if v, err := s.PDRID(); err == nil {
							d.DLDRPdr = int(v)
						}
					}
				}
			}
		case ie.CreatedPDR:
			c := CreatedPDR{}

			if sub, err := ie.ParseMultiIEs(i.Payload); err == nil {
				for _, s := range sub {
					switch s.Type {
					case ie.PDRID:
						if v, err := s.PDRID(); err == nil {
							c.PDR = v
						}
					case ie.FTEID:
						if f, err := s.FTEID(); err == nil {
							c.HasTEID = true
							c.TEID = f.TEID
							c.TunIP = IP4(f.IPv4Address)
						}
					case ie.UEIPAddress:
						if u, err := s.UEIPAddress(); err == nil {
							c.HasUE = true
							c.UEIP = IP4(u.IPv4Address)
						}
					}
				}
			}

			d.Created = append(d.Created, c)
		}
	}

	return d
}

// Peer is a scripted control-plane peer on its own UDP socket.
type Peer struct {
	Name   string
	NodeID string // IPv4 node id it announces
	conn   *net.UDPConn
	remote *net.UDPAddr
	mu     sync.Mutex
	inbox  []Dgram
	seq    uint32
	closed bool
	TS     time.Time
	autoHB bool    // answer Heartbeat Requests of the agent
	HBSeen []Dgram // Heartbeat Requests received from the agent (answered or not)
	// Policy, when set, decides how an agent-originated request (Heartbeat Request, Association Setup Request) is
	// answered: it gets the datagram and how many transmissions with that sequence number have been seen (1 = first)
	// and returns the answers to send (possibly none).
	Policy  func(d Dgram, nth int) []Answer
	ansLat  map[uint32]time.Duration
	ReqSeen []Dgram        // every agent-originated request seen while Policy is set (with arrival time)
	seqCnt  map[uint32]int // transmissions per sequence number
}

// Answer is one response the scripted peer sends to an agent-originated request.
type Answer struct {
	Delay   time.Duration
	SeqDiff int   // added to the request's sequence number (0 = correct answer)
	Cause   uint8 // Association Setup Response cause (0 = accepted)
	NoCause bool  // omit the Cause IE
}

// NewPeer binds local ("127.0.0.1:0") and addresses the agent at remote ("127.7.0.1:8805").
func NewPeer(name, local, remote, nodeID string) (*Peer, error) {
	la, err := net.ResolveUDPAddr("udp", local)
	if err != nil {
		return nil, err
	}

	ra, err := net.ResolveUDPAddr("udp", remote)
	if err != nil {
		return nil, err
	}

	c, err := net.ListenUDP("udp", la)
	if err == nil {
		_ = c.SetReadBuffer(4 << 20) // bursts of thousands of agent-originated requests must not be lost on the harness' side
	}

	if err != nil {
		return nil, err
	}

	p := &Peer{Name: name, NodeID: nodeID, conn: c, remote: ra, TS: time.Unix(1700000000, 0)}

	// kernel receive time stamps: the time a datagram arrived does not depend on when this process gets to run
	if rc, err := c.SyscallConn(); err == nil {
		_ = rc.Control(func(fd uintptr) {
			_ = syscall.SetsockoptInt(int(fd), syscall.SOL_SOCKET, syscall.SO_TIMESTAMPNS, 1)
		})
	}

	go p.reader()

	return p, nil
}

func (p *Peer) LocalAddr() string { return p.conn.LocalAddr().String() }

// kernelTime extracts the SCM_TIMESTAMPNS control message (falls back to now).
func kernelTime(oob []byte) time.Time {
	if msgs, err := syscall.ParseSocketControlMessage(oob); err == nil {
		for _, m := range msgs {
			if m.Header.Level == syscall.SOL_SOCKET && m.Header.Type == syscall.SO_TIMESTAMPNS && len(m.Data) >= 16 {
				sec := int64(binary.LittleEndian.Uint64(m.Data[0:8]))
				nsec := int64(binary.LittleEndian.Uint64(m.Data[8:16]))

				return time.Unix(sec, nsec)
			}
		}
	}

	return time.Now()
}

func (p *Peer) reader() {
	buf := make([]byte, 65536)
	oob := make([]byte, 256)

	for {
		n, oobn, _, _, err := p.conn.ReadMsgUDP(buf, oob)
		if err != nil {
			p.mu.Lock()
			closed := p.closed
			p.mu.Unlock()

			if closed {
				return
			}

			// ICMP port unreachable surfaces as a read error on some kernels: keep reading
			time.Sleep(time.Millisecond)

			continue
		}

		d := Decode(append([]byte(nil), buf[:n]...), kernelTime(oob[:oobn]))

		p.mu.Lock()
		if pol := p.Policy; pol != nil && (d.TypeNum == int(message.MsgTypeHeartbeatRequest) || d.TypeNum == int(message.MsgTypeAssociationSetupRequest)) {
			if p.seqCnt == nil {
				p.seqCnt = map[uint32]int{}
			}

			p.seqCnt[d.Seq]++
			nth := p.seqCnt[d.Seq]
			p.ReqSeen = append(p.ReqSeen, d)
			p.mu.Unlock()

			for _, a := range pol(d, nth) {
				go func(a Answer, d Dgram) {
					if a.Delay > 0 {
						time.Sleep(a.Delay)
					}

					seq := uint32(int(d.Seq)+a.SeqDiff) & 0xFFFFFF

					// how long an undelayed correct answer took to leave, counted from the arrival of the request at the socket
					if a.Delay == 0 && a.SeqDiff == 0 {
						defer func() {
							lat := time.Since(d.At)

							p.mu.Lock()
							if p.ansLat == nil {
								p.ansLat = map[uint32]time.Duration{}
							}

							if lat > p.ansLat[d.Seq] {
								p.ansLat[d.Seq] = lat
							}
							p.mu.Unlock()
						}()
					}

					if d.TypeNum == int(message.MsgTypeHeartbeatRequest) {
						_ = p.Send(message.NewHeartbeatResponse(seq, ie.NewRecoveryTimeStamp(p.TS)))
						return
					}

					ies := []*ie.IE{ie.NewNodeID(p.NodeID, "", ""), ie.NewRecoveryTimeStamp(p.TS)}
					if !a.NoCause {
						c := a.Cause
						if c == 0 {
							c = ie.CauseRequestAccepted
						}

						ies = append(ies, ie.NewCause(c))
					}

					_ = p.Send(message.NewAssociationSetupResponse(seq, ies...))
				}(a, d)
			}

			continue
		}

		if d.TypeNum == int(message.MsgTypeHeartbeatRequest) {
			// agent-originated heartbeats are kept apart from the answers to the script's own requests
			p.HBSeen = append(p.HBSeen, d)
			auto := p.autoHB
			p.mu.Unlock()

			if auto {
				_ = p.Send(message.NewHeartbeatResponse(d.Seq, ie.NewRecoveryTimeStamp(p.TS)))
			}

			continue
		}

		p.inbox = append(p.inbox, d)
		p.mu.Unlock()
	}
}

func (p *Peer) Close() {
	p.mu.Lock()
	p.closed = true
	p.mu.Unlock()
	p.conn.Close()
}

// AnswerLatency returns the longest time an undelayed answer to the request with this sequence number took to leave
// the scripted peer (from the kernel's receive time stamp of the request to the end of the send call).
func (p *Peer) AnswerLatency(seq uint32) time.Duration {
	p.mu.Lock()
	defer p.mu.Unlock()

	return p.ansLat[seq]
}

// SetPolicy installs (or removes, with nil) the answer policy for agent-originated requests.
func (p *Peer) SetPolicy(f func(d Dgram, nth int) []Answer) {
	p.mu.Lock()
	p.Policy = f
	p.mu.Unlock()
}

// ResetRequests forgets the agent-originated requests seen so far (a new incarnation of the agent starts its
// sequence numbers again).
func (p *Peer) ResetRequests() {
	p.mu.Lock()
	p.ReqSeen, p.seqCnt, p.ansLat = nil, nil, nil
	p.mu.Unlock()
}

// Requests returns a copy of the agent-originated requests seen under a policy.
func (p *Peer) Requests() []Dgram {
	p.mu.Lock()
	defer p.mu.Unlock()

	return append([]Dgram(nil), p.ReqSeen...)
}

// SetAutoHB switches the automatic answering of the agent's Heartbeat Requests on or off.
func (p *Peer) SetAutoHB(on bool) {
	p.mu.Lock()
	p.autoHB = on
	p.mu.Unlock()
}

// HBCount returns the number of Heartbeat Requests received from the agent so far.
func (p *Peer) HBCount() int {
	p.mu.Lock()
	defer p.mu.Unlock()

	return len(p.HBSeen)
}

// NextSeq returns a fresh sequence number.
func (p *Peer) NextSeq() uint32 {
	p.mu.Lock()
	defer p.mu.Unlock()
	p.seq = (p.seq + 1) & 0xFFFFFF // sequence numbers are 24 bits on the wire

	return p.seq
}

// SetSeq sets the counter so that the next NextSeq returns v+1.
func (p *Peer) SetSeq(v uint32) {
	p.mu.Lock()
	p.seq = v
	p.mu.Unlock()
}

// SendRaw transmits bytes to the agent.
func (p *Peer) SendRaw(b []byte) error {
	_, err := p.conn.WriteToUDP(b, p.remote)
	return err
}

// Send marshals and transmits a message.
func (p *Peer) Send(m message.Message) error {
	b := make([]byte, m.MarshalLen())
	if err := m.MarshalTo(b); err != nil {
		return err
	}

	return p.SendRaw(b)
}

// Drain returns and removes everything received so far.
func (p *Peer) Drain() []Dgram {
	p.mu.Lock()
	defer p.mu.Unlock()

	out := p.inbox
	p.inbox = nil

	return out
}

// Peek returns a copy of what is waiting without removing it.
func (p *Peer) Peek() []Dgram {
	p.mu.Lock()
	defer p.mu.Unlock()

	return append([]Dgram(nil), p.inbox...)
}

// Pending returns the number of datagrams waiting.
func (p *Peer) Pending() int {
	p.mu.Lock()
	defer p.mu.Unlock()

	return len(p.inbox)
}

// WaitN waits until at least n datagrams are waiting or the timeout expires.
func (p *Peer) WaitN(n int, timeout time.Duration) bool {
	deadline := time.Now().Add(timeout)

	for {
		if p.Pending() >= n {
			return true
		}

		if time.Now().After(deadline) {
			return false
		}

		time.Sleep(200 * time.Microsecond)
	}
}

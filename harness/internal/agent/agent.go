// Package agent starts and controls the agent under test as a separate OS process
// (verif-agent = the real start-up path of /repo built with -tags verif).
package agent

import (
	"bufio"
	"encoding/json"
	"fmt"
	"net"
	"os"
	"os/exec"
	"path/filepath"
	"strings"
	"sync"
	"syscall"
	"time"
)

type QciQos struct {
	QCI             uint8  `json:"qci"`
	CBS             uint32 `json:"cbs"`
	PBS             uint32 `json:"pbs"`
	EBS             uint32 `json:"ebs"`
	BurstDurationMs uint32 `json:"burst_duration_ms"`
	Priority        uint32 `json:"priority"`
}

// Cfg is the part of the agent's configuration the harness varies.
type Cfg struct {
	N4Addr        string // e.g. 127.7.0.1
	Datapath      string // bess | up4
	BessAddr      string
	UEIPAlloc     bool
	UEPool        string
	EndMarker     bool
	NotifyBess    bool
	HBTimer       bool
	HBInterval    string
	RespTimeout   string
	MaxReqRetries int
	ReadTimeout   int // seconds
	QciQos        []QciQos
	SliceN6Bps    uint64
	SliceN6Burst  uint64
	SliceN3Bps    uint64
	SliceN3Burst  uint64
	Peers         []string
	LogLevel      string
	// UP4
	P4Server     string
	P4Port       string
	P4AccessIP   string // CIDR
	P4SliceID    int
	P4QfiToTC    map[string]int
	P4DefaultTC  *int
	P4ClearState bool
	Race         bool // use the -race build of the agent
	Env          []string
}

type Agent struct {
	Cfg        Cfg
	Dir        string
	HTTPPort   int
	cmd        *exec.Cmd
	StderrPath string
	done       chan struct{}
	waitErr    error
	exitAt     time.Time
	mu         sync.Mutex

	// control channel (hooks)
	ctlLis  net.Listener
	ctl     net.Conn
	ctlR    *bufio.Reader
	ctlMu   sync.Mutex
	Events  chan Event
	gates   map[string]bool
	gateMu  sync.Mutex
	snapCh  chan string
	ackCh   chan string
	CtlPath string
}

// Event is a verifPoint event reported by the agent.
type Event struct {
	Seq   int
	Name  string
	Args  string
	Gated bool
}

var portCtr int

// freePort picks a port for the agent's HTTP server outside the kernel's ephemeral range (so that neither the
// harness' gRPC servers nor outgoing connections of parallel shards can take it between this probe and the agent's
// bind), from a sequence that depends on the process id.
func freePort() int {
	for i := 0; i < 200; i++ {
		portCtr++
		port := 10000 + (os.Getpid()*131+portCtr*17)%20000

		l, err := net.Listen("tcp", fmt.Sprintf(":%d", port))
		if err != nil {
			continue
		}

		l.Close()

		return port
	}

	return 0
}

// Start writes the configuration and launches the agent binary.
func Start(bin string, dir string, cfg Cfg) (*Agent, error) {
	if err := os.MkdirAll(dir, 0o755); err != nil {
		return nil, err
	}

	a := &Agent{Cfg: cfg, Dir: dir, done: make(chan struct{}), Events: make(chan Event, 4096), gates: map[string]bool{}, snapCh: make(chan string, 4), ackCh: make(chan string, 16)}
	a.HTTPPort = freePort()

	conf := map[string]interface{}{
		"mode":      "sim",
		"log_level": "info",
		"access":    map[string]string{"ifname": "lo"},
		"core":      map[string]string{"ifname": "eth0"},
		"n4_addr":   cfg.N4Addr,
		"cpiface": map[string]interface{}{
			"http_port":          fmt.Sprint(a.HTTPPort),
			"enable_ue_ip_alloc": cfg.UEIPAlloc,
			"ue_ip_pool":         cfg.UEPool,
			"peers":              cfg.Peers,
		},
		"enable_end_marker":       cfg.EndMarker,
		"enable_notify_bess":      cfg.NotifyBess,
		"notify_sockaddr":         filepath.Join(dir, "notify.sock"),
		"endmarker_sockaddr":      filepath.Join(dir, "endmarker.sock"),
		"enable_hbTimer":          cfg.HBTimer,
		"measure_flow":            false,
		"enable_p4rt":             cfg.Datapath == "up4",
		"qci_qos_config":          cfg.QciQos,
		"slice_rate_limit_config": map[string]uint64{"n6_bps": cfg.SliceN6Bps, "n6_burst_bytes": cfg.SliceN6Burst, "n3_bps": cfg.SliceN3Bps, "n3_burst_bytes": cfg.SliceN3Burst},
	}
	if cfg.Peers == nil {
		conf["cpiface"].(map[string]interface{})["peers"] = []string{}
	}

	if cfg.QciQos == nil {
		conf["qci_qos_config"] = []QciQos{}
	}

	if lv := os.Getenv("VERIF_AGENT_LOG"); lv != "" { // debugging aid: the agent's log level for a run by hand
		cfg.LogLevel = lv
	}

	if cfg.LogLevel != "" {
		conf["log_level"] = cfg.LogLevel
	}

	if cfg.HBInterval != "" {
		conf["heart_beat_interval"] = cfg.HBInterval
	}

	if cfg.RespTimeout != "" {
		conf["resp_timeout"] = cfg.RespTimeout
	}

	if cfg.MaxReqRetries != 0 {
		conf["max_req_retries"] = cfg.MaxReqRetries
	}

	if cfg.ReadTimeout != 0 {
		conf["read_timeout"] = cfg.ReadTimeout
	}

	if cfg.Datapath == "up4" {
		conf["mode"] = ""
		p4 := map[string]interface{}{
			"access_ip": cfg.P4AccessIP, "p4rtc_server": cfg.P4Server, "p4rtc_port": cfg.P4Port,
			"slice_id": cfg.P4SliceID, "clear_state_on_restart": cfg.P4ClearState,
		}

		if cfg.P4QfiToTC != nil {
			p4["qfi_tc_mapping"] = cfg.P4QfiToTC
		}

		if cfg.P4DefaultTC != nil {
			p4["default_tc"] = *cfg.P4DefaultTC
		}

		conf["p4rtciface"] = p4
	}

	b, _ := json.MarshalIndent(conf, "", " ")
	cfgPath := filepath.Join(dir, "upf.jsonc")

	if err := os.WriteFile(cfgPath, b, 0o644); err != nil {
		return nil, err
	}

	// control socket
	a.CtlPath = filepath.Join(dir, "ctl.sock")
	_ = os.Remove(a.CtlPath)

	lis, err := net.Listen("unix", a.CtlPath)
	if err != nil {
		return nil, err
	}

	a.ctlLis = lis

	go a.acceptCtl()

	args := []string{"-config", cfgPath}
	if cfg.Datapath != "up4" {
		args = append(args, "-bess", cfg.BessAddr)
	}

	a.StderrPath = filepath.Join(dir, fmt.Sprintf("agent-%d.log", time.Now().UnixNano()))

	errf, err := os.Create(a.StderrPath)
	if err != nil {
		return nil, err
	}

	a.cmd = exec.Command(bin, args...)
	a.cmd.Dir = dir
	a.cmd.Stdout = errf
	a.cmd.Stderr = errf
	a.cmd.Env = append(os.Environ(), "GOTRACEBACK=all", "VERIF_CTL="+a.CtlPath)
	a.cmd.Env = append(a.cmd.Env, cfg.Env...)
	a.cmd.SysProcAttr = &syscall.SysProcAttr{Setpgid: true, Pdeathsig: syscall.SIGKILL}

	if err := a.cmd.Start(); err != nil {
		errf.Close()
		return nil, err
	}

	go func() {
		a.waitErr = a.cmd.Wait()
		a.mu.Lock()
		a.exitAt = time.Now()
		a.mu.Unlock()
		errf.Close()
		close(a.done)
	}()

	return a, nil
}

func (a *Agent) acceptCtl() {
	c, err := a.ctlLis.Accept()
	if err != nil {
		return
	}

	a.ctlMu.Lock()
	a.ctl = c
	a.ctlR = bufio.NewReader(c)
	a.ctlMu.Unlock()

	r := a.ctlR

	for {
		line, err := r.ReadString('\n')
		if err != nil {
			return
		}

		line = strings.TrimRight(line, "\n")

		switch {
		case strings.HasPrefix(line, "EV "):
			var ev Event

			parts := strings.SplitN(line, " ", 5)
			if len(parts) >= 4 {
				fmt.Sscanf(parts[1], "%d", &ev.Seq)
				ev.Gated = parts[2] == "1"
				ev.Name = parts[3]

				if len(parts) == 5 {
					ev.Args = parts[4]
				}

				select {
				case a.Events <- ev:
				default:
				}
			}
		case strings.HasPrefix(line, "OK "):
			select {
			case a.ackCh <- line[3:]:
			default:
			}
		case strings.HasPrefix(line, "SNAP "):
			select {
			case a.snapCh <- line[5:]:
			default:
			}
		}
	}
}

// CtlConnected reports whether the agent's hook client has connected.
func (a *Agent) CtlConnected() bool {
	a.ctlMu.Lock()
	defer a.ctlMu.Unlock()

	return a.ctl != nil
}

func (a *Agent) ctlSend(s string) error {
	a.ctlMu.Lock()
	defer a.ctlMu.Unlock()

	if a.ctl == nil {
		return fmt.Errorf("control channel not connected")
	}

	_, err := a.ctl.Write([]byte(s + "\n"))

	return err
}

// Gate arms (on=true) or disarms a blocking gate at the named scheduling point ("*" = all).
func (a *Agent) Gate(name string, on bool) error {
	cmd := "UNGATE " + name
	if on {
		cmd = "GATE " + name
	}

	if err := a.ctlSend(cmd); err != nil {
		return err
	}

	// the gate is in force when this returns (a signal sent next must not overtake it)
	return a.Set("PING")
}

// Report switches the reporting of every scheduling point on or off.
func (a *Agent) Report(on bool) error {
	if on {
		return a.ctlSend("REPORT 1")
	}

	return a.ctlSend("REPORT 0")
}

// Go releases the goroutine parked with event sequence number seq.
func (a *Agent) Go(seq int) error { return a.ctlSend(fmt.Sprintf("GO %d", seq)) }

// Set sends a tuning command (SEIDS ..., TEIDCURSOR n) and waits for its acknowledgement.
func (a *Agent) Set(cmd string) error {
	for len(a.ackCh) > 0 {
		<-a.ackCh
	}

	if err := a.ctlSend(cmd); err != nil {
		return err
	}

	select {
	case <-a.ackCh:
		return nil
	case <-a.done:
		return fmt.Errorf("agent exited")
	case <-time.After(2 * time.Second):
		return fmt.Errorf("no acknowledgement for %q", cmd)
	}
}

// Snapshot asks for the guarded read-only state snapshot (JSON).
func (a *Agent) Snapshot(timeout time.Duration) (string, error) {
	for len(a.snapCh) > 0 {
		<-a.snapCh
	}

	if err := a.ctlSend("SNAP"); err != nil {
		return "", err
	}

	select {
	case s := <-a.snapCh:
		return s, nil
	case <-a.done:
		return "", fmt.Errorf("agent exited")
	case <-time.After(timeout):
		return "", fmt.Errorf("snapshot timeout")
	}
}

// Alive reports whether the process is still running.
func (a *Agent) Alive() bool {
	select {
	case <-a.done:
		return false
	default:
		return true
	}
}

// Done is closed when the process has exited.
func (a *Agent) Done() <-chan struct{} { return a.done }

// ExitCode returns the exit status (-1 if killed by a signal or still running).
func (a *Agent) ExitCode() int {
	if a.Alive() || a.cmd.ProcessState == nil {
		return -1
	}

	return a.cmd.ProcessState.ExitCode()
}

// Kill sends SIGKILL and waits.
func (a *Agent) Kill() {
	if a.cmd != nil && a.cmd.Process != nil {
		_ = syscall.Kill(-a.cmd.Process.Pid, syscall.SIGKILL)
	}

	select {
	case <-a.done:
	case <-time.After(5 * time.Second):
	}

	a.closeCtl()
}

// Term sends SIGTERM (the agent's Stop path).
func (a *Agent) Term() {
	if a.cmd != nil && a.cmd.Process != nil {
		_ = a.cmd.Process.Signal(syscall.SIGTERM)
	}
}

// WaitExit waits for the process to exit.
func (a *Agent) WaitExit(timeout time.Duration) bool {
	select {
	case <-a.done:
		return true
	case <-time.After(timeout):
		return false
	}
}

func (a *Agent) closeCtl() {
	if a.ctlLis != nil {
		a.ctlLis.Close()
	}

	a.ctlMu.Lock()
	if a.ctl != nil {
		a.ctl.Close()
	}
	a.ctlMu.Unlock()
}

// Stderr returns the captured output of the agent.
func (a *Agent) Stderr() string {
	b, _ := os.ReadFile(a.StderrPath)
	return string(b)
}

func (a *Agent) HTTPBase() string { return fmt.Sprintf("http://127.0.0.1:%d", a.HTTPPort) }

// Package fakebess is the harness-owned BESS control server. It implements the command semantics
// of the four lookup modules and the slice meter as the real modules have them (upsert by key,
// delete of a missing key is an error, clear empties, a wildcard value must lie inside its mask)
// and records the complete command stream. It contains no expectations about what the agent
// should send.
package fakebess

import (
	"context"
	"fmt"
	"net"
	"sort"
	"strings"
	"sync"
	"time"

	pb "github.com/omec-project/upf-epc/pfcpiface/bess_pb"
	"google.golang.org/grpc"
	"google.golang.org/protobuf/types/known/anypb"
)

// PdrEntry is one wildcard-match entry of pdrLookup.
type PdrEntry struct {
	Values   [8]uint64 // src_iface, tunnel_ipv4_dst, teid, src ip, dst ip, src port, dst port, proto
	Masks    [8]uint64
	Valuesv  [5]uint64 // pdr id, fseid, ctr id, qer id, far id
	Gate     uint64
	Priority int64
	Seq      int // sequence number of the command that wrote it
}

// FarEntry is one exact-match entry of farLookup.
type FarEntry struct {
	Fields [2]uint64 // far id, fseid
	Values [6]uint64 // action, tunnel type, src ip, dst ip, teid, port
	Gate   uint64
	Seq    int
}

// QerEntry is one entry of appQERLookup / sessionQERLookup / sliceMeter.
type QerEntry struct {
	Fields    []uint64 // app: src iface, qer id, fseid; session: src iface, fseid; slice: action, tunnel type
	Values    []uint64 // app: qfi
	Gate      uint64
	Cir, Pir  uint64
	Cbs, Pbs  uint64
	Ebs       uint64
	DeductLen int64 // -1 if absent
	Seq       int
}

// Cmd is one received ModuleCommand.
type Cmd struct {
	Seq    int
	Module string
	Cmd    string
	Key    string // module-specific key of the entry addressed ("" for clear)
	Err    string // error returned to the agent ("" = ok)
	At     time.Time
	DoneAt time.Time // when the answer was sent
}

// Tables is a copy of the module state.
type Tables struct {
	Pdr     []PdrEntry
	Far     []FarEntry
	AppQer  []QerEntry
	SessQer []QerEntry
	Slice   []QerEntry
	Cmds    int // length of the command stream
	Writes  int // commands other than the reads of measurement modules ("read", "get_*"): what a request can be said to have written
	Errs    int // number of commands answered with an error so far
}

// Fault decides what happens to a command before it is applied.
type Fault struct {
	Delay time.Duration // sleep before applying
	Fail  string        // if non-empty: answer with this error and do not apply
}

type Server struct {
	mu       sync.Mutex
	pdr      map[string]*PdrEntry
	far      map[string]*FarEntry
	appQer   map[string]*QerEntry
	sessQer  map[string]*QerEntry
	slice    map[string]*QerEntry
	cmds     []Cmd
	writes   int // commands other than reads (kept incrementally for Counts)
	errs     int
	inflight int
	last     time.Time
	other    int // commands to modules outside the model (measure, gtpuPathMonitoring ...)

	// FaultFn, when set, is consulted for every command (under no lock).
	FaultFn func(seq int, module, cmd string) Fault

	addr string
	lis  net.Listener
	srv  *grpc.Server
	svc  *service
}

type service struct {
	pb.UnimplementedBESSControlServer
	s *Server
}

func New() *Server {
	s := &Server{}
	s.reset()
	s.svc = &service{s: s}

	return s
}

func (s *Server) reset() {
	s.pdr = map[string]*PdrEntry{}
	s.far = map[string]*FarEntry{}
	s.appQer = map[string]*QerEntry{}
	s.sessQer = map[string]*QerEntry{}
	s.slice = map[string]*QerEntry{}
}

// Start listens on addr ("127.0.0.1:0" for an ephemeral port) and serves. Returns the bound address.
func (s *Server) Start(addr string) (string, error) {
	lis, err := net.Listen("tcp", addr)
	if err != nil {
		return "", err
	}

	s.mu.Lock()
	s.lis = lis
	s.addr = lis.Addr().String()
	s.srv = grpc.NewServer()
	pb.RegisterBESSControlServer(s.srv, s.svc)
	srv := s.srv
	s.mu.Unlock()

	go func() { _ = srv.Serve(lis) }()

	return s.addr, nil
}

// Stop stops serving (datapath down); table state is kept.
func (s *Server) Stop() {
	s.mu.Lock()
	srv := s.srv
	s.srv = nil
	s.mu.Unlock()

	if srv != nil {
		srv.Stop()
	}
}

// Restart serves again on the same address.
func (s *Server) Restart() error {
	s.mu.Lock()
	addr := s.addr
	s.mu.Unlock()

	var err error

	for i := 0; i < 50; i++ {
		if _, err = s.Start(addr); err == nil {
			return nil
		}

		time.Sleep(20 * time.Millisecond)
	}

	return err
}

func (s *Server) Addr() string { return s.addr }

func ints(fs []*pb.FieldData) []uint64 {
	out := make([]uint64, len(fs))
	for i, f := range fs {
		if b := f.GetValueBin(); b != nil {
			var v uint64
			for _, x := range b {
				v = v<<8 | uint64(x)
			}

			out[i] = v
		} else {
			out[i] = f.GetValueInt()
		}
	}

	return out
}

func keyOf(v ...[]uint64) string { return fmt.Sprint(v) }

func pbErr(code int32, msg string) *pb.CommandResponse {
	return &pb.CommandResponse{Error: &pb.Error{Code: code, Errmsg: msg}}
}

func (sv *service) ModuleCommand(ctx context.Context, req *pb.CommandRequest) (*pb.CommandResponse, error) {
	s := sv.s
	s.mu.Lock()
	s.inflight++
	seq := len(s.cmds) + 1
	s.cmds = append(s.cmds, Cmd{Seq: seq, Module: req.Name, Cmd: req.Cmd, At: time.Now()})
	if req.Cmd != "read" && !strings.HasPrefix(req.Cmd, "get_") {
		s.writes++
	}

	ff := s.FaultFn
	s.mu.Unlock()

	var fault Fault
	if ff != nil {
		fault = ff(seq, req.Name, req.Cmd)
	}

	if fault.Delay > 0 {
		time.Sleep(fault.Delay)
	}

	s.mu.Lock()
	defer s.mu.Unlock()

	defer func() {
		s.inflight--
		s.last = time.Now()
		s.cmds[seq-1].DoneAt = s.last
	}()

	if fault.Fail != "" {
		s.cmds[seq-1].Err = fault.Fail
		s.errs++

		return pbErr(5, fault.Fail), nil
	}

	key, errmsg := s.apply(seq, req.Name, req.Cmd, req.Arg)
	s.cmds[seq-1].Key = key
	s.cmds[seq-1].Err = errmsg

	if errmsg != "" {
		s.errs++
		return pbErr(2, errmsg), nil
	}

	return &pb.CommandResponse{}, nil
}

func (sv *service) GetPortStats(ctx context.Context, req *pb.GetPortStatsRequest) (*pb.GetPortStatsResponse, error) {
	return &pb.GetPortStatsResponse{Inc: &pb.GetPortStatsResponse_Stat{}, Out: &pb.GetPortStatsResponse_Stat{}}, nil
}

// apply executes a command on the module state. Caller holds s.mu.
func (s *Server) apply(seq int, module, cmd string, arg *anypb.Any) (string, string) {
	switch module {
	case "pdrLookup":
		switch cmd {
		case "add":
			var a pb.WildcardMatchCommandAddArg
			if err := arg.UnmarshalTo(&a); err != nil {
				return "", "bad argument: " + err.Error()
			}

			if len(a.Values) != 8 || len(a.Masks) != 8 || len(a.Valuesv) != 5 {
				return "", fmt.Sprintf("must specify 8 values, 8 masks, 5 valuesv (got %d, %d, %d)", len(a.Values), len(a.Masks), len(a.Valuesv))
			}

			e := &PdrEntry{Gate: a.Gate, Priority: a.Priority, Seq: seq}
			copy(e.Values[:], ints(a.Values))
			copy(e.Masks[:], ints(a.Masks))
			copy(e.Valuesv[:], ints(a.Valuesv))

			for i := range e.Values {
				if e.Values[i]&e.Masks[i] != e.Values[i] {
					return "", fmt.Sprintf("idx %d: invalid pair of value 0x%x and mask 0x%x", i, e.Values[i], e.Masks[i])
				}
			}

			k := keyOf(e.Values[:], e.Masks[:])
			s.pdr[k] = e

			return k, ""
		case "delete":
			var a pb.WildcardMatchCommandDeleteArg
			if err := arg.UnmarshalTo(&a); err != nil {
				return "", "bad argument: " + err.Error()
			}

			if len(a.Values) != 8 || len(a.Masks) != 8 {
				return "", "must specify 8 values and 8 masks"
			}

			k := keyOf(ints(a.Values), ints(a.Masks))
			if _, ok := s.pdr[k]; !ok {
				return k, "failed to delete a rule: ENOENT"
			}

			delete(s.pdr, k)

			return k, ""
		case "clear":
			s.pdr = map[string]*PdrEntry{}
			return "", ""
		}
	case "farLookup":
		switch cmd {
		case "add":
			var a pb.ExactMatchCommandAddArg
			if err := arg.UnmarshalTo(&a); err != nil {
				return "", "bad argument: " + err.Error()
			}

			if len(a.Fields) != 2 || len(a.Values) != 6 {
				return "", "must specify 2 fields and 6 values"
			}

			e := &FarEntry{Gate: a.Gate, Seq: seq}
			copy(e.Fields[:], ints(a.Fields))
			copy(e.Values[:], ints(a.Values))
			k := keyOf(e.Fields[:])
			s.far[k] = e

			return k, ""
		case "delete":
			var a pb.ExactMatchCommandDeleteArg
			if err := arg.UnmarshalTo(&a); err != nil {
				return "", "bad argument: " + err.Error()
			}

			k := keyOf(ints(a.Fields))
			if _, ok := s.far[k]; !ok {
				return k, "failed to delete a rule: ENOENT"
			}

			delete(s.far, k)

			return k, ""
		case "clear":
			s.far = map[string]*FarEntry{}
			return "", ""
		}
	case "appQERLookup", "sessionQERLookup", "sliceMeter":
		tbl := s.appQer
		nf := 3

		switch module {
		case "sessionQERLookup":
			tbl, nf = s.sessQer, 2
		case "sliceMeter":
			tbl, nf = s.slice, 2
		}

		switch cmd {
		case "add":
			var a pb.QosCommandAddArg
			if err := arg.UnmarshalTo(&a); err != nil {
				return "", "bad argument: " + err.Error()
			}

			if len(a.Fields) != nf {
				return "", fmt.Sprintf("must specify %d fields", nf)
			}

			e := &QerEntry{Fields: ints(a.Fields), Values: ints(a.Values), Gate: a.Gate, Cir: a.Cir, Pir: a.Pir, Cbs: a.Cbs, Pbs: a.Pbs, Ebs: a.Ebs, DeductLen: -1, Seq: seq}
			if d, ok := a.OptionalDeductLen.(*pb.QosCommandAddArg_DeductLen); ok {
				e.DeductLen = d.DeductLen
			}

			k := keyOf(e.Fields)
			tbl[k] = e

			return k, ""
		case "delete":
			var a pb.QosCommandDeleteArg
			if err := arg.UnmarshalTo(&a); err != nil {
				return "", "bad argument: " + err.Error()
			}

			k := keyOf(ints(a.Fields))
			if _, ok := tbl[k]; !ok {
				return k, "failed to delete a rule: ENOENT"
			}

			delete(tbl, k)

			return k, ""
		case "clear":
			for k := range tbl {
				delete(tbl, k)
			}

			return "", ""
		}
	default:
		// modules outside the model (measurement, gtpu path monitoring): accepted, not interpreted
		s.other++
		return "", ""
	}

	return "", "unknown command " + cmd
}

// Snapshot returns a copy of the tables (entries sorted by the sequence number that wrote them).
func (s *Server) Snapshot() Tables {
	s.mu.Lock()
	defer s.mu.Unlock()

	t := Tables{Cmds: len(s.cmds), Errs: s.errs}
	for i := range s.cmds {
		if c := s.cmds[i].Cmd; c != "read" && !strings.HasPrefix(c, "get_") {
			t.Writes++
		}
	}

	for _, e := range s.pdr {
		t.Pdr = append(t.Pdr, *e)
	}

	for _, e := range s.far {
		t.Far = append(t.Far, *e)
	}

	cp := func(m map[string]*QerEntry) []QerEntry {
		var out []QerEntry
		for _, e := range m {
			out = append(out, *e)
		}

		sort.Slice(out, func(i, j int) bool { return out[i].Seq < out[j].Seq })

		return out
	}

	t.AppQer, t.SessQer, t.Slice = cp(s.appQer), cp(s.sessQer), cp(s.slice)
	sort.Slice(t.Pdr, func(i, j int) bool { return t.Pdr[i].Seq < t.Pdr[j].Seq })
	sort.Slice(t.Far, func(i, j int) bool { return t.Far[i].Seq < t.Far[j].Seq })

	return t
}

// Counts returns the number of commands, of write commands and of commands answered with an error, without copying the tables.
func (s *Server) Counts() (cmds, writes, errs int) {
	s.mu.Lock()
	defer s.mu.Unlock()

	return len(s.cmds), s.writes, s.errs
}

// CmdsSince returns the commands with Seq > seq.
func (s *Server) CmdsSince(seq int) []Cmd {
	s.mu.Lock()
	defer s.mu.Unlock()

	if seq >= len(s.cmds) {
		return nil
	}

	return append([]Cmd(nil), s.cmds[seq:]...)
}

// WaitIdle waits until no command is in flight and none has arrived for d. Returns false on timeout.
func (s *Server) WaitIdle(d, timeout time.Duration) bool {
	deadline := time.Now().Add(timeout)

	for time.Now().Before(deadline) {
		s.mu.Lock()
		idle := s.inflight == 0 && time.Since(s.last) >= d
		s.mu.Unlock()

		if idle {
			return true
		}

		time.Sleep(d / 4)
	}

	return false
}

// ClearTables empties all modules (used between independent scenarios that share a server).
func (s *Server) ClearTables() {
	s.mu.Lock()
	defer s.mu.Unlock()
	s.reset()
}

package checks

import (
	"bytes"
	"encoding/json"
	"fmt"
	"io"
	"math/rand"
	"net"
	"net/http"
	"os"
	"path/filepath"
	"strings"
	"time"

	"verif/harness/internal/agent"
	"verif/harness/internal/core"
	"verif/harness/internal/e2e"
	"verif/harness/internal/fakebess"
	"verif/harness/internal/pfcpx"
)

func init() {
	Checks["C19"] = C19
	Workers["c19"] = c19Worker
}

type c19Params struct {
	Dir      string `json:"dir"`
	Trace    string `json:"trace"`
	AgentBin string `json:"agentBin"`
	N4Addr   string `json:"n4"`
	Seed     int64  `json:"seed"`
	N        int    `json:"n"`
	Datapath string `json:"datapath"` // bess (default) | up4
}

func sliceEntry(e *fakebess.QerEntry) map[string]interface{} {
	if e == nil {
		return map[string]interface{}{"gate": 9999, "cir": []int{}, "pir": []int{}, "cbs": []int{}, "pbs": []int{}}
	}

	return map[string]interface{}{"gate": int(e.Gate), "cir": pfcpx.Big(e.Cir), "pir": pfcpx.Big(e.Pir), "cbs": pfcpx.Big(e.Cbs), "pbs": pfcpx.Big(e.Pbs)}
}

func c19Worker(args []string) error {
	var p c19Params
	if err := json.Unmarshal([]byte(args[0]), &p); err != nil {
		return err
	}

	rng := rand.New(rand.NewSource(p.Seed))
	cfg := agent.Cfg{N4Addr: p.N4Addr, Datapath: "bess", LogLevel: "warn", ReadTimeout: 120, RespTimeout: "2s", MaxReqRetries: 5}
	if p.Datapath == "up4" {
		cfg = up4Cfg(rng, p.N4Addr)
	}

	w, err := e2e.NewWorld(filepath.Join(p.Dir, "w"), p.AgentBin, filepath.Join(p.Dir, "unused.ndjson"), cfg, 1)
	if err != nil {
		return err
	}
	defer w.Close()

	if err := w.StartAgent(); err != nil {
		return err
	}

	f, err := os.Create(p.Trace)
	if err != nil {
		return err
	}
	defer f.Close()

	enc := json.NewEncoder(f)
	url := w.Agent.HTTPBase() + "/v1/config/network-slices"
	hostport := strings.TrimPrefix(w.Agent.HTTPBase(), "http://")
	lines, nontrivial := 0, 0

	rates := []uint64{0, 1, 7, 8, 9, 1000, 9223372036, 9223372037, 9223372036854, 9223372036855, 9223372036854775, 9223372036854776, 9223372036854775807, 9223372036854775808, 18446744073709551615}
	bursts := []uint64{0, 1, 625000, 18446744073709551615}
	units := []string{"bps", "Kbps", "Mbps", "Gbps", "", "Tbps"}
	methods := []string{"GET", "PUT", "POST", "DELETE", "PATCH", "HEAD", "OPTIONS"}
	bodies := []string{"valid", "valid", "valid", "empty", "notjson", "wrongtypes", "truncated", "trailing"}

	one := func(method, body, unit string, ul, dl, ub, db uint64) error {
		doc := fmt.Sprintf(`{"sliceName":"s1","sliceQos":{"uplinkMbr":%d,"downlinkMbr":%d,"bitrateUnit":%q,"uplinkBurstSize":%d,"downlinkBurstSize":%d},"ueResourceInfo":[{"uePoolId":"pool1","dnn":"internet"}]}`, ul, dl, unit, ub, db)
		if unit == "" {
			doc = strings.Replace(doc, `"bitrateUnit":"",`, "", 1)
		}

		var payload []byte

		switch body {
		case "valid":
			payload = []byte(doc)
		case "empty":
			payload = nil
		case "notjson":
			payload = []byte("sliceName=s1&uplinkMbr=5")
		case "wrongtypes":
			payload = []byte(`{"sliceName":7,"sliceQos":{"uplinkMbr":"fast","downlinkMbr":[1]}}`)
		case "trailing": // a valid document followed by something else is not a well-formed body
			payload = []byte(doc + []string{" xyz", "}", doc, "]", ",", " 1"}[rng.Intn(6)])
		case "truncated": // the client announces more than it sends and half-closes: the body read fails on the server
			payload = []byte(doc)
		}

		cmds0 := w.Bess.Snapshot().Cmds
		upd0 := 0

		if w.P4 != nil {
			upd0 = w.P4.Snapshot().Updates
		}

		log0 := len(w.Agent.Stderr())
		status := 0

		if body == "truncated" {
			c, err := net.DialTimeout("tcp", hostport, 2*time.Second)
			if err != nil {
				return err
			}

			fmt.Fprintf(c, "%s /v1/config/network-slices HTTP/1.1\r\nHost: x\r\nContent-Type: application/json\r\nContent-Length: %d\r\nConnection: close\r\n\r\n", method, len(payload)+50)
			_, _ = c.Write(payload[:len(payload)/2])
			_ = c.(*net.TCPConn).CloseWrite()
			_ = c.SetReadDeadline(time.Now().Add(2 * time.Second))
			b, _ := io.ReadAll(c)
			c.Close()
			fmt.Sscanf(string(b), "HTTP/1.1 %d", &status)
		} else {
			req, _ := http.NewRequest(method, url, bytes.NewReader(payload))
			// the media type is not part of what makes a document well-formed: parameters, letter case, none at all
			if ct := []string{"application/json", "application/json", "application/json; charset=utf-8", "application/json;charset=UTF-8", "Application/JSON", "", "text/plain"}[rng.Intn(7)]; ct != "" {
				req.Header.Set("Content-Type", ct)
			}

			resp, err := (&http.Client{Timeout: 3 * time.Second}).Do(req)
			if err != nil {
				return err
			}

			_, _ = io.ReadAll(resp.Body)
			resp.Body.Close()
			status = resp.StatusCode
		}

		if w.P4 != nil {
			w.P4.WaitIdle(3*time.Millisecond, 2*time.Second)
			time.Sleep(2 * time.Millisecond)

			// UP4: one cell of slice_tc_meter, index (slice << 2) + default TC
			var sliceID uint32

			for _, m := range w.P4.Info.Meters {
				if m.Preamble.Name == "PreQosPipe.slice_tc_meter" {
					sliceID = m.Preamble.Id
				}
			}

			ncmd := 0

			for _, u := range w.P4.UpdatesSince(upd0) {
				if me := u.Raw.GetEntity().GetMeterEntry(); me != nil && me.MeterId == sliceID {
					ncmd++
				}
			}

			st := w.P4.Snapshot()
			cells := []map[string]interface{}{}

			for idx, c := range st.Meters[sliceID] {
				nn := func(v int64) uint64 {
					if v < 0 {
						return 0
					}

					return uint64(v)
				}
				cells = append(cells, map[string]interface{}{"idx": int(idx), "cir": pfcpx.Big(nn(c.Cir)), "cbs": pfcpx.Big(nn(c.Cburst)), "pir": pfcpx.Big(nn(c.Pir)), "pbs": pfcpx.Big(nn(c.Pburst)),
					"neg": c.Cir < 0 || c.Cburst < 0 || c.Pir < 0 || c.Pburst < 0})
			}

			extra := strings.Count(w.Agent.Stderr()[log0:], "superfluous response.WriteHeader")
			line := map[string]interface{}{"op": "http", "dp": "up4", "method": method, "body": body, "unit": unit, "ul": pfcpx.Big(ul), "dl": pfcpx.Big(dl),
				"ulBurst": pfcpx.Big(ub), "dlBurst": pfcpx.Big(db), "status": status, "extraHeaders": extra, "cmds": ncmd, "cells": cells,
				"cellIdx": w.Cfg.P4SliceID<<2 + *w.Cfg.P4DefaultTC}
			lines++

			if method == "PUT" || method == "POST" {
				nontrivial++
			}

			return enc.Encode(line)
		}

		w.Bess.WaitIdle(3*time.Millisecond, 2*time.Second)
		time.Sleep(2 * time.Millisecond)

		ncmd := 0
		for _, c := range w.Bess.CmdsSince(cmds0) {
			if c.Module == "sliceMeter" {
				ncmd++
			}
		}

		var up, down *fakebess.QerEntry

		t := w.Bess.Snapshot()
		for i := range t.Slice {
			e := &t.Slice[i]
			if len(e.Fields) == 2 && e.Fields[0] == 1 && e.Fields[1] == 0 {
				up = e
			}

			if len(e.Fields) == 2 && e.Fields[0] == 0 && e.Fields[1] == 1 {
				down = e
			}
		}

		extra := strings.Count(w.Agent.Stderr()[log0:], "superfluous response.WriteHeader")
		bodyClass := body
		line := map[string]interface{}{"op": "http", "method": method, "body": bodyClass, "unit": unit, "ul": pfcpx.Big(ul), "dl": pfcpx.Big(dl),
			"ulBurst": pfcpx.Big(ub), "dlBurst": pfcpx.Big(db), "status": status, "extraHeaders": extra, "cmds": ncmd, "up": sliceEntry(up), "down": sliceEntry(down)}
		lines++

		if method == "PUT" || method == "POST" {
			nontrivial++
		}

		return enc.Encode(line)
	}

	// systematic: every method x body class; every unit x boundary rate for the writing methods
	for _, m := range methods {
		for _, b := range []string{"valid", "empty", "notjson", "wrongtypes", "truncated", "trailing", "trailing", "trailing"} {
			if err := one(m, b, "Mbps", 5, 7, 0, 0); err != nil {
				return err
			}
		}
	}

	for _, u := range units {
		for _, r := range rates {
			if err := one([]string{"PUT", "POST"}[rng.Intn(2)], "valid", u, r, rates[rng.Intn(len(rates))], bursts[rng.Intn(len(bursts))], bursts[rng.Intn(len(bursts))]); err != nil {
				return err
			}
		}
	}

	for i := 0; i < p.N; i++ {
		ul, dl := rates[rng.Intn(len(rates))], rates[rng.Intn(len(rates))]
		if rng.Intn(2) == 0 {
			ul = rng.Uint64() >> uint(rng.Intn(64))
		}

		if rng.Intn(2) == 0 {
			dl = rng.Uint64() >> uint(rng.Intn(64))
		}

		if err := one(methods[rng.Intn(len(methods))], bodies[rng.Intn(len(bodies))], units[rng.Intn(len(units))], ul, dl, bursts[rng.Intn(len(bursts))], rng.Uint64()>>uint(rng.Intn(64))); err != nil {
			return err
		}
	}

	alive := w.Agent.Alive()
	if !alive {
		_, site := core.PanicSite(w.Agent.Stderr())
		_ = enc.Encode(map[string]interface{}{"op": "died", "site": site})
	}

	sb, _ := json.Marshal(map[string]int{"lines": lines, "nontrivial": nontrivial})

	return os.WriteFile(p.Trace+".summary", sb, 0o644)
}

// C19: the slice REST endpoint programs what was posted, or nothing.
func C19(c *core.Ctx) {
	c.SetCov("rule", "real HTTP requests to the running agent: every method x body class (valid, empty, not JSON, wrong types, truncated body with half-closed connection), every unit x boundary "+
		"rates around the 63-bit limit, seeded random 64-bit rates and bursts; status, superfluous header writes (from the server's log) and the sliceMeter commands / entries at the harness BESS server "+
		"are judged by TraceC19 with BigNat arithmetic; distinct_nontrivial = PUT/POST requests")
	c.Assume("both datapaths: BESS slice meter entries, UP4 slice_tc_meter cell at the harness' P4Runtime switch; a second WriteHeader is observed through net/http's 'superfluous response.WriteHeader' log line")

	n := 150
	if c.Thorough() {
		n = 4000
	}

	for i, dp := range []string{"bess", "up4"} {
		c19One(c, i, dp, n)
	}
}

func c19One(c *core.Ctx, shard int, dp string, n int) {
	dir, _ := shardDir(c, shard)
	trace := filepath.Join(dir, "c19.ndjson")
	pb, _ := json.Marshal(c19Params{Dir: dir, Trace: trace, AgentBin: filepath.Join(c.BinDir, "verif-agent"), N4Addr: n4For(shard), Seed: c.Seed + int64(shard)*7919, N: n, Datapath: dp})
	wr := c.RunWorker(20*time.Minute, "c19", string(pb))

	if wr.ExitCode != 0 || wr.TimedOut {
		c.Inconclusive("worker failed: exit=%d timeout=%v: %s", wr.ExitCode, wr.TimedOut, tail(wr.Stderr, 500))
		return
	}

	var sum map[string]int
	if b, err := os.ReadFile(trace + ".summary"); err == nil {
		_ = json.Unmarshal(b, &sum)
	}

	c.AddCount("evaluations", int64(sum["lines"]))
	c.AddCount("distinct_nontrivial", int64(sum["nontrivial"]))

	tr, err := c.RunTLC(core.TLCRun{Module: "TraceC19", Workers: 1, HeapMB: 1500, Timeout: 15 * time.Minute, Env: map[string]string{"TRACE_FILE": trace}, Label: "validate"})
	if err != nil {
		c.Inconclusive("TLC: %v", err)
		return
	}

	c.AddTLC("validate", tr)

	for _, k := range []int{1, 12, 40} {
		var v interface{}
		if json.Unmarshal([]byte(readLine(trace, k)), &v) == nil {
			c.AddSample(v)
		}
	}

	switch {
	case tr.Violated != "" || tr.PostFailed:
		lineNo := traceLineOfFailure(tr)
		line := readLine(trace, lineNo)
		what := tr.Violated

		if what == "" {
			what = "line not explained (agent died?)"
		}

		d := c.SaveReplay("c19-"+dp, map[string]string{"tlc.out": tr.OutputPath, "trace.ndjson": trace}, map[string][]byte{"failing_line.ndjson": []byte(line + "\n")})
		c.Violate(fmt.Sprintf("%s at trace line %d: %s", what, lineNo, trunc(line, 500)), d)
	case !tr.OK():
		c.Inconclusive("TLC validation did not complete (err=%q)", tr.ErrorText)
	default:
		c.AddCount("traces_validated_against_impl", 1)
	}
}

package checks

import (
	"path/filepath"

	"verif/harness/internal/core"
)

func init() {
	Checks["C02"] = C02
}

// C02: every request gets exactly one correctly addressed response.
func C02(c *core.Ctx) {
	nshards, scenarios, steps := 8, 6, 35
	if c.Thorough() {
		nshards, scenarios, steps = 14, 70, 60
	}

	c.SetCov("rule", "seeded randomised PFCP histories over 1-3 peers (accepted and rejected requests of every dispatched type, injected response-type messages, "+
		"sequence numbers around 0 and 2^24-1, CP SEID boundaries) against the real agent process; every datagram a peer receives is decoded and judged by the "+
		"C02 invariants of TraceE2E; evaluations = script steps")
	c.Assume("exactly-one-response is observed within a silence window after each step (4 ms, 40 ms after Association Release); a later duplicate would be attributed to the following step and still fail C02_ExactlyOneResponse there")

	res := runE2EShards(c, "e2e-rand", nshards, "TraceE2E_C02.cfg", func(i int) interface{} {
		dir, trace := shardDir(c, i)
		pr := E2EParams{Dir: dir, Trace: trace, AgentBin: filepath.Join(c.BinDir, "verif-agent"), N4Addr: n4For(i),
			Seed: c.Seed*1000 + 500 + int64(i), Scenarios: scenarios, Steps: steps, Rejects: true, Kill: false, Alloc: 1, EndMarker: 0, PoolLens: []int{24}}

		// the agent's own heartbeats are in flight next to its responses (15 ms interval) in two shards: what a peer receives is
		// one response per request there too.  (Not under the race detector: it reports a race inside ONE association on the
		// unchanged tree - the heartbeat monitor's SendPFCPMsg reads nodeID.remote while a repeated Association Setup Request
		// writes it - which no listed property speaks about; DESIGN 11.7.)
		if i%8 == 6 || i%8 == 7 {
			pr.HB = true
		}

		return pr
	})
	judgeE2E(c, res, map[string]bool{"InEnvelope": true})
}

package checks

import (
	"encoding/json"
	"fmt"
	"math/rand"
	"os"
	"path/filepath"

	"verif/harness/internal/e2e"
)

func init() {
	Workers["e2e-up4-qos"] = e2eUp4QosWorker
}

// Up4QosParams parameterises the bounded-exhaustive QoS worker: it replays the scripts TLC generated from
// spec/Up4QosScript.tla (one session whose QERs change) into the real agent on the UP4 datapath.
type Up4QosParams struct {
	Dir      string `json:"dir"`
	Trace    string `json:"trace"`
	AgentBin string `json:"agentBin"`
	N4Addr   string `json:"n4"`
	Seed     int64  `json:"seed"`
	Scripts  string `json:"scripts"`
	Shard    int    `json:"shard"`
	Of       int    `json:"of"`
}

func e2eUp4QosWorker(args []string) error {
	var p Up4QosParams
	if err := json.Unmarshal([]byte(args[0]), &p); err != nil {
		return err
	}

	rng := rand.New(rand.NewSource(p.Seed))
	sum := E2ESummary{Stats: map[string]int{}}

	defer func() {
		b, _ := json.Marshal(sum)
		_ = os.WriteFile(p.Trace+".summary", b, 0o644)
	}()

	cfg := up4Cfg(rng, p.N4Addr)

	w, err := e2e.NewWorld(filepath.Join(p.Dir, "w"), p.AgentBin, p.Trace, cfg, int(p.Seed%1000)*1000+1)
	if err != nil {
		sum.Err = err.Error()
		return err
	}

	defer func() {
		sum.Lines, sum.Steps, sum.Accepted, sum.Died = w.Lines, w.Steps, w.Accepted, w.Died
		w.Close()
	}()

	w.SnapEvery = true

	if err := w.StartAgent(); err != nil {
		sum.Err = err.Error()
		return err
	}

	var seqs [][]string

	if b, err := os.ReadFile(p.Scripts); err != nil || json.Unmarshal(b, &seqs) != nil || len(seqs) == 0 {
		sum.Err = "no scripts"
		return fmt.Errorf("no scripts in %s", p.Scripts)
	}

	sum.Stats["sequences_total"] = len(seqs)

	g := e2e.NewUp4Gen(w, rng.Int63(), 1, 10, false)
	g.AddFlows, g.AlwaysQer = true, true
	g.UEAlloc = w.Cfg.UEIPAlloc

	w.Assoc("p1")
	g.MarkAssoc("p1")

	for idx, sq := range seqs {
		if idx%p.Of != p.Shard || w.Died {
			continue
		}

		var s interface {
			Live() bool
			Flows() int
		}

		for _, op := range sq {
			if w.Died {
				break
			}

			g.Reseed(rng.Int63())

			if len(op) == 5 && op[:2] == "E:" { // E:<flows><s|n><z|g>
				g.MinFlows, g.MaxFlows = int(op[2]-'0'), int(op[2]-'0')
				g.ForceSessQer, g.NoSessQer = op[3] == 's', op[3] == 'n'
				g.GbrMode = map[byte]int{'z': 1, 'g': 2, 'b': 3}[op[4]]

				s = nil
				if g.Establish("p1") {
					s = g.Last()
				}

				continue
			}

			if s == nil || !s.Live() {
				continue
			}

			switch op {
			case "sq:low", "sq:high":
				g.UpdateSessQerAny(s, op == "sq:low")
			case "fq:sym", "fq:asym", "fq:big", "fq:gate":
				g.UpdateFlowQerAny(s, op[3:])
			case "add":
				g.ModifyAny(s, e2e.ModAdd)
			case "rm":
				if s.Flows() > 1 {
					g.ModifyAny(s, e2e.ModRemove)
				}
			case "D":
				g.DeleteAny(s)
			}
		}

		// back to the empty state: what is left is deleted (and judged)
		g.Finish()
		sum.Scenarios++
	}

	for k, v := range g.Stats {
		sum.Stats[k] += v
	}

	return nil
}

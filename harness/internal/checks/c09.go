package checks

import (
	"path/filepath"

	"verif/harness/internal/core"
)

func init() {
	Checks["C09"] = C09
}

// C09: QoS is enforced as signalled; the session-wide limiter is chosen soundly.
func C09(c *core.Ctx) {
	nshards, scenarios, steps, shapes := 8, 5, 30, 400
	if c.Thorough() {
		nshards, scenarios, steps, shapes = 14, 40, 40, e2eShapeCount/14+1
	}

	c.SetCov("rule", "seeded randomised sessions with 40-bit rates at the boundaries (0, 1, 7, 8, 2^40-1), both gate bits, QFI 0..63 and per-QFI burst configurations; "+
		"UP4 shards: the app_meter / session_meter cells named by the forwarding entries of the harness' P4Runtime switch are judged after establishments and after QER updates; "+
		"evaluations = script steps, distinct_nontrivial = accepted session requests")

	nup4 := 3
	if c.Thorough() {
		nup4 = 6
	}

	res := runE2EMixed(c, nshards+nup4, "TraceE2E_C09.cfg", func(i int) (string, interface{}) {
		dir, trace := shardDir(c, i)
		if i >= nshards { // UP4: peak rate and burst of the meter cells the entries name
			return "e2e-up4", Up4Params{Dir: dir, Trace: trace, AgentBin: filepath.Join(c.BinDir, "verif-agent"), N4Addr: n4For(i),
				Seed: c.Seed*1000 + 950 + int64(i), Scenarios: scenarios, Steps: steps, AddFlows: i%2 == 0, Wide: i%3 == 0}
		}

		return "e2e-rand", E2EParams{Dir: dir, Trace: trace, AgentBin: filepath.Join(c.BinDir, "verif-agent"), N4Addr: n4For(i),
			Seed: c.Seed*1000 + 900 + int64(i), Scenarios: scenarios, Steps: steps, Rejects: false, Kill: false, Alloc: 0, EndMarker: 0, QosMode: 1,
			// QER-list shapes: the quick tier takes a seed-dependent stride through the enumeration, the thorough tier all of it
			Shapes: shapes, ShapeFrom: shapeFrom(c, i, nshards), ShapeStep: shapeStep(c, nshards)}
	})
	judgeE2E(c, res, map[string]bool{"InEnvelope": true, "EnvDistinctMatchKeys": true, "Up4Envelope": true})
}

const e2eShapeCount = (16*16 + 16*16*16) * 64

func shapeFrom(c *core.Ctx, shard, nshards int) int {
	if c.Thorough() {
		return shard
	}

	return int(c.Seed*7919)%e2eShapeCount + shard*(e2eShapeCount/nshards)
}

func shapeStep(c *core.Ctx, nshards int) int {
	if c.Thorough() {
		return nshards
	}

	return 677 // coprime with the size of the enumeration
}

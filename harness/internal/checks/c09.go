package checks

import (
	"path/filepath"
	"time"

	"verif/harness/internal/core"
)

func init() {
	Checks["C09"] = C09
}

// C09: QoS is enforced as signalled; the session-wide limiter is chosen soundly.
func C09(c *core.Ctx) {
	nshards, scenarios, steps, shapes := 8, 5, 30, 400
	if c.Thorough() {
		nshards, scenarios, steps, shapes = 14, 40, 40, e2eShapeCount/14+1
	}

	c.SetCov("rule", "seeded randomised sessions with 40-bit rates at the boundaries (0, 1, 7, 8, 2^40-1), both gate bits, QFI 0..63 and per-QFI burst configurations; "+
		"UP4 shards: the app_meter / session_meter cells named by the forwarding entries of the harness' P4Runtime switch are judged after establishments and after QER updates; "+
		"GEN: TLC enumerates from spec/Up4QosScript.tla every behaviour of 3 (thorough: 4) operations over {8 establishment shapes (1 or 2 flows, with / without a session-level QER, flow QERs with / without "+
		"guaranteed rates), session-level QER below / above the flows' rates, flow QER symmetric / asymmetric / above the session's / gate closed, add a flow, remove a flow, delete} (623 / 5 050 scripts), "+
		"replayed into the real agent on UP4; design level: QerRoles.tla (session-QER marking, meter kinds and entry roles as coded after the repairs; 3 rates, 2 flows; complete graph) is model-checked, "+
		"and the code before each repair as negative control; "+
		"evaluations = script steps, distinct_nontrivial = accepted session requests")

	nup4 := 3
	if c.Thorough() {
		nup4 = 6
	}

	// design level: how a session's QERs get their role on UP4, as coded after fixes b116398 and 9209b4c (QerRoles.tla, complete
	// graph), and the code before each fix as negative control, where TLC must find the violation
	if r, err := c.RunTLC(core.TLCRun{Module: "QerRoles", Cfg: "MCQerRoles.cfg", Workers: 4, HeapMB: 2048, Timeout: 5 * time.Minute, Label: "mc"}); err != nil || !r.OK() {
		c.Inconclusive("model check of QerRoles did not pass (a counterexample is a candidate history to replay, not a verdict)")
	} else {
		c.AddTLC("mc", r)
	}

	for _, nc := range [][2]string{{"MCQerRolesOld.cfg", "C09_EveryQerEnforced"}, {"MCQerRolesOld2.cfg", "C09_QfiFromOwnQer"}} {
		if r, err := c.RunTLC(core.TLCRun{Module: "QerRoles", Cfg: nc[0], Workers: 1, HeapMB: 1024, Timeout: 5 * time.Minute, Label: "mc-old"}); err != nil || r.Violated != nc[1] {
			c.Inconclusive("negative control: %s no longer violates %s", nc[0], nc[1])
		} else {
			c.AddCount("negative_controls_found", 1)
		}
	}

	// GEN: TLC enumerates from spec/Up4QosScript.tla every behaviour of 3 (thorough: 4) operations of one session whose QERs
	// change (establishment shapes x session / flow QER updates x flows added and removed); the harness replays them on UP4
	qosShards, genCfg := 4, "MCUp4QosScript.cfg"
	if c.Thorough() {
		qosShards, genCfg = 10, "MCUp4QosScript4.cfg"
	}

	scripts := filepath.Join(c.Scratch, "qos-scripts.json")

	if c.ReplayDir == "" {
		gr, err := c.RunTLC(core.TLCRun{Module: "Up4QosScript", Cfg: genCfg, Workers: 1, HeapMB: 1024, Timeout: 5 * time.Minute, Label: "gen"})
		if err != nil || !gr.OK() {
			c.Inconclusive("GEN: TLC did not enumerate the scripts of Up4QosScript")
			qosShards = 0
		} else {
			n, err := writeScripts(gr.OutputPath, scripts)
			if err != nil || n == 0 {
				c.Inconclusive("GEN: no scripts in TLC's output: %v", err)
				qosShards = 0
			}

			c.AddCount("gen_scripts", int64(n))
			c.AddTLC("gen", gr)
		}
	}

	res := runE2EMixed(c, nshards+nup4+qosShards, "TraceE2E_C09.cfg", func(i int) (string, interface{}) {
		dir, trace := shardDir(c, i)
		if i >= nshards+nup4 {
			return "e2e-up4-qos", Up4QosParams{Dir: dir, Trace: trace, AgentBin: filepath.Join(c.BinDir, "verif-agent"), N4Addr: n4For(i),
				Seed: c.Seed*1000 + 980 + int64(i), Scripts: scripts, Shard: i - nshards - nup4, Of: qosShards}
		}

		if i >= nshards { // UP4: peak rate and burst of the meter cells the entries name
			return "e2e-up4", Up4Params{Dir: dir, Trace: trace, AgentBin: filepath.Join(c.BinDir, "verif-agent"), N4Addr: n4For(i),
				Seed: c.Seed*1000 + 950 + int64(i), Scenarios: scenarios, Steps: steps, AddFlows: i%2 == 0, Wide: i%3 == 0}
		}

		return "e2e-rand", E2EParams{Dir: dir, Trace: trace, AgentBin: filepath.Join(c.BinDir, "verif-agent"), N4Addr: n4For(i),
			Seed: c.Seed*1000 + 900 + int64(i), Scenarios: scenarios, Steps: steps, Rejects: false, Kill: false, Alloc: 0, EndMarker: 0, QosMode: 1,
			// QER-list shapes: the quick tier takes a seed-dependent stride through the enumeration, the thorough tier all of it
			Shapes: shapes, ShapeFrom: shapeFrom(c, i, nshards), ShapeStep: shapeStep(c, nshards)}
	})
	judgeE2E(c, res, map[string]bool{"InEnvelope": true, "EnvDistinctMatchKeys": true, "Up4Envelope": true})
}

const e2eShapeCount = (16*16 + 16*16*16) * 64

func shapeFrom(c *core.Ctx, shard, nshards int) int {
	if c.Thorough() {
		return shard
	}

	return int(c.Seed*7919)%e2eShapeCount + shard*(e2eShapeCount/nshards)
}

func shapeStep(c *core.Ctx, nshards int) int {
	if c.Thorough() {
		return nshards
	}

	return 677 // coprime with the size of the enumeration
}

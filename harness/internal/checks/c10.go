package checks

import (
	"encoding/json"
	"fmt"
	"math/rand"
	"os"
	"path/filepath"
	"time"

	"verif/harness/internal/agent"
	"verif/harness/internal/core"
	"verif/harness/internal/e2e"
	"verif/harness/internal/pfcpx"
)

func init() {
	Checks["C10"] = C10
	Workers["e2e-life"] = e2eLifeWorker
}

// LifeParams parameterises the life-cycle driver of C10.
type LifeParams struct {
	Dir      string `json:"dir"`
	Trace    string `json:"trace"`
	AgentBin string `json:"agentBin"`
	N4Addr   string `json:"n4"`
	Seed     int64  `json:"seed"`
	Runs     int    `json:"runs"`
	MaxAssoc int    `json:"maxAssoc"`
	Race     bool   `json:"race"`
	Forced   bool   `json:"forced"` // also run the deterministic forced schedules (counterexamples of the life-cycle model)
	Scale    bool   `json:"scale"`  // the last run has more associations than the node's completion channel has slots (100)
	Gated    bool   `json:"gated"`  // the interleaving at the scheduling points is chosen by a seeded random scheduler (blocking gates)
}

// e2eLifeWorker: associations end by release, heartbeat failure, read time-out or Stop, with randomised timing of the
// triggers relative to each other and to requests in flight.
func e2eLifeWorker(args []string) error {
	var p LifeParams
	if err := json.Unmarshal([]byte(args[0]), &p); err != nil {
		return err
	}

	rng := rand.New(rand.NewSource(p.Seed))
	sum := E2ESummary{Stats: map[string]int{}}

	defer func() {
		b, _ := json.Marshal(sum)
		_ = os.WriteFile(p.Trace+".summary", b, 0o644)
	}()

	// forced schedules: a second Shutdown of the same connection is provoked from another goroutine after the first
	// one has completed, while the node is held before its exit
	forced := func(kind string) error {
		cfg := agent.Cfg{N4Addr: p.N4Addr, Datapath: "bess", LogLevel: "warn", ReadTimeout: 30, RespTimeout: "40ms", MaxReqRetries: 1,
			HBTimer: kind == "hbdead-vs-stop", HBInterval: "70ms"}

		w, err := e2e.NewWorld(filepath.Join(p.Dir, "forced-"+kind), p.AgentBin, p.Trace, cfg, int(p.Seed%1000)*1000+900)
		if err != nil {
			return err
		}
		defer w.Close()

		if err := w.StartAgent(); err != nil {
			return err
		}

		w.Peer("p1").SetAutoHB(true)
		w.Assoc("p1")
		w.Estab("p1", simpleSession(uint64(rng.Int63()), 0x0AE10001, 1))
		w.Estab("p1", simpleSession(uint64(rng.Int63()), 0x0AE10002, 1))

		addr := w.Peer("p1").LocalAddr()
		_ = w.Agent.Gate("node.stop.beforeExit", true)
		errsBefore := w.Bess.Snapshot().Errs

		var second int // the parked goroutine that will call Shutdown a second time

		switch kind {
		case "hbdead-vs-stop":
			_ = w.Agent.Gate("conn.hb.dead", true)
			w.Peer("p1").SetAutoHB(false)
			second = w.WaitParked("conn.hb.dead", addr, 1, 3*time.Second)
		case "release-vs-stop":
			_ = w.Agent.Gate("conn.serve.ctx", true)
		}

		start := time.Now()
		before := w.TeardownCount("p1")
		w.Agent.Term()

		if kind == "release-vs-stop" {
			second = w.WaitParked("conn.serve.ctx", addr, 1, 3*time.Second)
			// the peer releases the association while the serve goroutine is parked before its own Shutdown
			_ = w.Peer("p1").Send(messageRelease(w.Peer("p1")))
		}

		if second == 0 {
			sum.Err = "forced schedule " + kind + ": the goroutine never reached its gate (hooks absent or moved)"
			_ = w.Agent.Gate("node.stop.beforeExit", false)
			w.FinishStop(start, errsBefore, 5*time.Second)

			return nil // scheduling degrades, it never produces a verdict by itself
		}

		w.AwaitTeardown("p1", before, 5*time.Second) // the first Shutdown has completed
		_ = w.Agent.Go(second)                       // now the second one is called
		time.Sleep(30 * time.Millisecond)

		if nd := w.WaitParked("node.stop.beforeExit", "", 1, 5*time.Second); nd != 0 {
			_ = w.Agent.Go(nd)
		}

		_ = w.Agent.Gate("node.stop.beforeExit", false)
		w.FinishStop(start, errsBefore, 10*time.Second)
		sum.Stats["forced_"+kind]++
		sum.Lines += w.Lines
		sum.Steps += w.Steps
		sum.Scenarios++

		return nil
	}

	// forced overlaps: a second trigger of the same association's teardown fires while the first teardown is held in
	// the middle of its session clean-up (parked before the first session's delete)
	overlap := func(kind string) error {
		cfg := agent.Cfg{N4Addr: p.N4Addr, Datapath: "bess", LogLevel: "warn", ReadTimeout: 30, RespTimeout: "40ms", MaxReqRetries: 1,
			HBTimer: kind != "release-during-stop", HBInterval: "70ms"}

		w, err := e2e.NewWorld(filepath.Join(p.Dir, "overlap-"+kind), p.AgentBin, p.Trace, cfg, int(p.Seed%1000)*1000+950)
		if err != nil {
			return err
		}
		defer w.Close()

		if err := w.StartAgent(); err != nil {
			return err
		}

		w.Peer("p1").SetAutoHB(true)
		w.Assoc("p1")

		for i := 0; i < 3; i++ {
			w.Estab("p1", simpleSession(uint64(rng.Int63()), 0x0AE10011+uint32(i), 1))
		}

		addr := w.Peer("p1").LocalAddr()
		_ = w.Agent.Gate("conn.shutdown.session", true)
		errsBefore := w.Bess.Snapshot().Errs

		var monitor int

		if kind == "hbdead-during-stop" {
			_ = w.Agent.Gate("conn.hb.dead", true)
			w.Peer("p1").SetAutoHB(false)

			if monitor = w.WaitParked("conn.hb.dead", addr, 1, 3*time.Second); monitor == 0 {
				sum.Err = "forced overlap " + kind + ": the heartbeat monitor never reached its gate (hooks absent or moved)"
			}
		}

		start := time.Now()
		w.Agent.Term()

		// the first teardown (Serve: ctx.Done -> Shutdown) is held before its first session
		first := w.WaitParked("conn.shutdown.session", addr, 1, 3*time.Second)
		if first == 0 {
			sum.Err = "forced overlap " + kind + ": the teardown never reached its gate (hooks absent or moved)"
		}

		if first != 0 {
			switch kind {
			case "release-during-stop":
				_ = w.Peer("p1").Send(messageRelease(w.Peer("p1")))
			case "hb-during-stop":
				// the peer's own heartbeats keep arriving while its sessions are being removed (heartbeat timer on)
				for i := 0; i < 3; i++ {
					_ = w.Peer("p1").Send(messageHeartbeat(w.Peer("p1")))
					time.Sleep(5 * time.Millisecond)
				}
			case "hbdead-during-stop":
				if monitor != 0 {
					_ = w.Agent.Go(monitor)
				}
			}

			// a second teardown that runs (instead of waiting for the first one) shows up at the same gate
			second := w.WaitParked("conn.shutdown.session", addr, 2, 300*time.Millisecond)
			if second != 0 {
				sum.Stats["overlap_second_teardown_ran"]++
			}

			sum.Stats["overlap_"+kind]++
		}

		// let everything go: the gates are opened, whoever is parked (now or in a moment) continues
		_ = w.Agent.Gate("conn.shutdown.session", false)
		_ = w.Agent.Gate("conn.hb.dead", false)

		for i := 0; i < 40; i++ {
			w.ReleaseParked()
			time.Sleep(5 * time.Millisecond)
		}

		w.FinishStop(start, errsBefore, 10*time.Second)
		sum.Lines += w.Lines
		sum.Steps += w.Steps
		sum.Scenarios++

		return nil
	}

	// the peer's port goes away while its last request is being answered: the answer bounces (ICMP port unreachable, a
	// read error on the association's socket that is not a time-out); the peer is silent from then on, so after the read
	// time-out its sessions go and the same address and port can associate afresh
	portClose := func() error {
		cfg := agent.Cfg{N4Addr: p.N4Addr, Datapath: "bess", LogLevel: "warn", ReadTimeout: 1, RespTimeout: "40ms", MaxReqRetries: 1}

		w, err := e2e.NewWorld(filepath.Join(p.Dir, "portclose"), p.AgentBin, p.Trace, cfg, int(p.Seed%1000)*1000+970)
		if err != nil {
			return err
		}
		defer w.Close()

		if err := w.StartAgent(); err != nil {
			return err
		}

		w.Assoc("p1")
		w.Estab("p1", simpleSession(uint64(rng.Int63()), 0x0AE10021, 1))
		w.Estab("p1", simpleSession(uint64(rng.Int63()), 0x0AE10022, 1))

		pp := w.Peer("p1")
		addr := pp.LocalAddr()
		before := w.TeardownCount("p1")

		for i := 0; i < 2; i++ {
			_ = pp.Send(messageHeartbeat(pp))
		}

		pp.Close()

		if !w.AwaitTeardown("p1", before, 4*time.Second) {
			time.Sleep(500 * time.Millisecond)
		}

		w.RecordLost("p1", "port closed while a request was answered, then silent past the read time-out")

		if _, err := w.PeerAt("p1again", addr); err == nil {
			w.Assoc("p1again")
			w.Estab("p1again", simpleSession(uint64(rng.Int63()), 0x0AE10023, 1))
		}

		if !w.Died {
			w.StopAgent(5 * time.Second)
		}

		sum.Stats["port_close"]++
		sum.Lines += w.Lines
		sum.Steps += w.Steps
		sum.Scenarios++

		return nil
	}

	if p.Forced {
		if err := portClose(); err != nil {
			sum.Err = err.Error()
			return err
		}

		for _, k := range []string{"hbdead-vs-stop", "release-vs-stop"} {
			if err := forced(k); err != nil {
				sum.Err = err.Error()
				return err
			}
		}

		for _, k := range []string{"release-during-stop", "hbdead-during-stop", "hb-during-stop"} {
			if err := overlap(k); err != nil {
				sum.Err = err.Error()
				return err
			}
		}
	}

	for run := 0; run < p.Runs; run++ {
		hb := rng.Intn(2) == 0
		// (time-outs wide enough for a loaded machine: a peer whose answers are held up for longer than interval + 2 time-outs is
		// given up - correctly -, and the script would not know)
		cfg := agent.Cfg{N4Addr: p.N4Addr, Datapath: "bess", LogLevel: "warn", ReadTimeout: 1 + rng.Intn(2), RespTimeout: "120ms", MaxReqRetries: 1,
			HBTimer: hb, HBInterval: "200ms", UEIPAlloc: true, UEPool: "10.250.0.0/24"}
		if p.Race {
			cfg.Env = []string{"GORACE=halt_on_error=0"}
			cfg.RespTimeout, cfg.HBInterval = "200ms", "300ms" // the instrumented agent is slower
		}

		if !hb {
			cfg.ReadTimeout = 30
		}

		w, err := e2e.NewWorld(filepath.Join(p.Dir, fmt.Sprintf("w%d", run)), p.AgentBin, p.Trace, cfg, int(p.Seed%1000)*1000+run+1)
		if err != nil {
			return err
		}

		if err := w.StartAgent(); err != nil {
			sum.Err = err.Error()
			w.Close()

			return err
		}

		nassoc := rng.Intn(p.MaxAssoc + 1)
		if run%7 == 6 && !p.Gated {
			nassoc = 40 + rng.Intn(100) // one scale point
		}

		if p.Scale && run == p.Runs-1 && !p.Gated {
			nassoc = 101 + rng.Intn(30)
		}

		var sched *e2e.RandomScheduler

		if p.Gated {
			if nassoc > 3 {
				nassoc = 1 + rng.Intn(3)
			}

			if hb {
				// three consecutive steps of the stalled class must fit into interval + 2 time-outs
				w.SchedMaxHold = 100 * time.Millisecond
				if p.Race {
					w.SchedMaxHold = 150 * time.Millisecond
				}
			}

			sched = w.StartRandomScheduler(rng.Int63(), time.Duration(rng.Intn(3))*time.Millisecond)
			w.RespWait = 8 * time.Second
			w.TeardownWait = 15 * time.Second
		}

		cp := uint64(rng.Int63())
		ue := uint32(0x0AE00000 + rng.Intn(1<<10)<<6)

		var peers []string

		for i := 0; i < nassoc && !w.Died; i++ {
			name := fmt.Sprintf("p%d", i+1)
			peers = append(peers, name)
			w.Peer(name).SetAutoHB(true)
			w.Assoc(name)

			for k := 0; k < rng.Intn(3); k++ {
				cp++
				ue++
				w.Estab(name, simpleSession(cp, ue, 1))
			}
		}

		// some associations end on their own first (and the peer associates afresh), then the agent is stopped
		for _, name := range peers {
			if w.Died || nassoc > 20 {
				break
			}

			switch rng.Intn(6) {
			case 0:
				w.Release(name)
				w.Assoc(name) // forgotten: the same peer associates afresh
				sum.Stats["release"]++
			case 1:
				if hb {
					w.Peer(name).SetAutoHB(false)

					if w.WaitLost(name, "heartbeats unanswered", 3*time.Second+w.TeardownWait) {
						w.Peer(name).SetAutoHB(true)
						w.Assoc(name)
					}

					sum.Stats["hbdead"]++
				}
			case 2:
				// a trigger races the stop below: the peer goes silent / releases just before SIGTERM
				if hb {
					w.Peer(name).SetAutoHB(false)
					sum.Stats["hbdead_racing_stop"]++
				}
			}
		}

		// requests in flight while the agent is being stopped
		if len(peers) > 0 && rng.Intn(2) == 0 && !w.Died {
			name := peers[rng.Intn(len(peers))]

			go func() {
				pp := w.Peer(name)
				for i := 0; i < 5; i++ {
					_ = pp.Send(messageHeartbeat(pp))
					time.Sleep(time.Duration(rng.Intn(3)) * time.Millisecond)
				}
			}()

			sum.Stats["inflight"]++
		}

		if rng.Intn(3) > 0 {
			time.Sleep(time.Duration(rng.Intn(150)) * time.Millisecond)
		}

		if !w.Died {
			limit := 5 * time.Second
			if p.Gated {
				limit = 20 * time.Second // every step of the teardown waits for the scheduler
			}

			w.StopAgent(limit)
			sum.Stats["stop"]++
		}

		if sched != nil {
			sched.Stop()
		}

		if p.Race {
			sum.Stats["race_reports"] += w.RecordRaces()
		}

		sum.Lines += w.Lines
		sum.Steps += w.Steps
		sum.Accepted += w.Accepted
		sum.Scenarios++
		w.Close()
	}

	_ = pfcpx.V32

	return nil
}

// C10: associations end cleanly and the agent always stops.
func C10(c *core.Ctx) {
	c.SetCov("rule", "randomised timing of {Association Release, unanswered heartbeats, read time-out, SIGTERM} over 0..8 live associations (scale points with 40-140, one of them above the 100 completions the node buffers) with sessions and "+
		"requests in flight; process exit status / time, panic headline, delete errors at the datapath, table residue, re-association of the same peer and the other associations' steps are judged by "+
		"the C10 / C02 / C03 / C05 invariants; evaluations = script steps, distinct_nontrivial = agent incarnations stopped")

	nshards, runs := 8, 4
	mcs := []string{"MCLifecycle.cfg"}

	if c.Thorough() {
		nshards, runs = 14, 40
		mcs = append(mcs, "MCLifecycle2.cfg")
	}

	// design level: the life-cycle as coded (Lifecycle.tla), complete interleaving graph of 1 (with liveness) and 2 associations
	mcDone := make(chan struct{})

	go func() {
		defer close(mcDone)

		for _, cfg := range mcs {
			r, err := c.RunTLC(core.TLCRun{Module: "Lifecycle", Cfg: cfg, Workers: 6, HeapMB: 6000, Timeout: 20 * time.Minute, Label: "mc"})
			if err != nil || !r.OK() {
				c.Inconclusive("model check %s of the life-cycle model did not pass (a counterexample is a candidate schedule to force on the agent, not a verdict)", cfg)
				continue
			}

			c.AddTLC("mc", r)
		}
	}()

	defer func() { <-mcDone }()

	// GEN: the teardown signatures of one association (who calls Shutdown at which step of the running teardown), read off
	// the complete graph of the life-cycle model by TLC (spec/LifeScript.tla), are forced on the agent through the gates
	sigFile := filepath.Join(c.Scratch, "sigs.json")
	scopeShards, scopeMax := 3, 9

	if c.Thorough() {
		scopeShards, scopeMax = 6, 0
	}

	if c.ReplayDir == "" {
		gr, err := c.RunTLC(core.TLCRun{Module: "LifeScript", Cfg: "MCLifeScript.cfg", Workers: 4, HeapMB: 4000, Timeout: 10 * time.Minute, Label: "gen"})
		if err != nil || !gr.OK() {
			c.Inconclusive("GEN: TLC did not enumerate the teardown signatures of LifeScript")
			scopeShards = 0
		} else if n, err := writeSigs(gr.OutputPath, sigFile); err != nil || n == 0 {
			c.Inconclusive("GEN: no signatures in TLC's output: %v", err)
			scopeShards = 0
		} else {
			c.AddCount("gen_scripts", int64(n))
			c.AddTLC("gen", gr)
		}
	} else {
		scopeShards = 0
	}

	res := runE2EMixed(c, nshards+scopeShards, "TraceE2E_C10.cfg", func(i int) (string, interface{}) {
		dir, trace := shardDir(c, i)

		if i >= nshards {
			return "e2e-life-scope", LifeScopeParams{Dir: dir, Trace: trace, AgentBin: filepath.Join(c.BinDir, "verif-agent"), N4Addr: n4For(i), Seed: c.Seed*1000 + 180 + int64(i),
				Sigs: sigFile, Shard: i - nshards, Of: scopeShards, Max: scopeMax}
		}

		bin, race := "verif-agent", false
		if i%2 == 1 { // every other shard runs the agent under the race detector
			bin, race = "verif-agent-race", true
		}

		// a quarter of the shards force interleavings through the scheduling gates
		return "e2e-life", LifeParams{Dir: dir, Trace: trace, AgentBin: filepath.Join(c.BinDir, bin), N4Addr: n4For(i), Seed: c.Seed*1000 + 100 + int64(i), Runs: runs, MaxAssoc: 8,
			Race: race, Gated: i%4 >= 2, Forced: i < 2, Scale: i%8 == 4}
	})
	judgeE2E(c, res, map[string]bool{"InEnvelope": true})
}

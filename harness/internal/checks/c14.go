package checks

import (
	"path/filepath"

	"verif/harness/internal/core"
)

func init() {
	Checks["C14"] = C14
}

// C14: end markers go to the old tunnel, once.
func C14(c *core.Ctx) {
	nshards, scenarios, steps := 8, 5, 40
	if c.Thorough() {
		nshards, scenarios, steps = 14, 50, 60
	}

	c.SetCov("rule", "seeded randomised histories biased towards Update FAR (tunnel changes, SNDEM on/off, unknown FAR ids, several FARs per message, end markers enabled / disabled); "+
		"on BESS and on UP4 (packet-outs received by the harness' P4Runtime switch; one UP4 shard in three has writes of a quarter of its requests failed by the switch: a rejected update emits no marker); every packet on the end-marker socket is decoded (Ethernet/IPv4/UDP/GTPv1-U) and compared with EndMarkersDue of the pre-update session; the farLookup add is held for 25 ms so that "+
		"a marker emitted before the new rule was acknowledged is observed as early; evaluations = script steps")

	nup4 := 3
	if c.Thorough() {
		nup4 = 6
	}

	res := runE2EMixed(c, nshards+nup4, "TraceE2E_C14.cfg", func(i int) (string, interface{}) {
		dir, trace := shardDir(c, i)
		if i >= nshards { // UP4: the markers leave as packet-outs on the P4Runtime stream
			return "e2e-up4", Up4Params{Dir: dir, Trace: trace, AgentBin: filepath.Join(c.BinDir, "verif-agent"), N4Addr: n4For(i),
				Seed: c.Seed*1000 + 160 + int64(i), Scenarios: scenarios, Steps: steps, Markers: 1 + (i-nshards)%3/2, Faults: (i-nshards)%3 == 1}
		}

		return "e2e-rand", E2EParams{Dir: dir, Trace: trace, AgentBin: filepath.Join(c.BinDir, "verif-agent"), N4Addr: n4For(i),
			Seed: c.Seed*1000 + 140 + int64(i), Scenarios: scenarios, Steps: steps, Rejects: false, Kill: false, Alloc: 0, EndMarker: 1 + i%2, FarBias: true, HoldFarMs: 25}
	})
	judgeE2E(c, res, map[string]bool{"InEnvelope": true})
}

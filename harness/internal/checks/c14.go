package checks

import (
	"path/filepath"

	"verif/harness/internal/core"
)

func init() {
	Checks["C14"] = C14
}

// C14: end markers go to the old tunnel, once.
func C14(c *core.Ctx) {
	nshards, scenarios, steps := 8, 5, 40
	if c.Thorough() {
		nshards, scenarios, steps = 14, 50, 60
	}

	c.SetCov("rule", "seeded randomised histories biased towards Update FAR (tunnel changes, SNDEM on/off, unknown FAR ids, several FARs per message, end markers enabled / disabled); "+
		"every packet on the end-marker socket is decoded (Ethernet/IPv4/UDP/GTPv1-U) and compared with EndMarkersDue of the pre-update session; the farLookup add is held for 25 ms so that "+
		"a marker emitted before the new rule was acknowledged is observed as early; evaluations = script steps")

	res := runE2EShards(c, "e2e-rand", nshards, "TraceE2E_C14.cfg", func(i int) interface{} {
		dir, trace := shardDir(c, i)
		return E2EParams{Dir: dir, Trace: trace, AgentBin: filepath.Join(c.BinDir, "verif-agent"), N4Addr: n4For(i),
			Seed: c.Seed*1000 + 140 + int64(i), Scenarios: scenarios, Steps: steps, Rejects: false, Kill: false, Alloc: 0, EndMarker: 1 + i%2, FarBias: true, HoldFarMs: 25}
	})
	judgeE2E(c, res, map[string]bool{"InEnvelope": true})
}

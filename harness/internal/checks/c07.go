package checks

import (
	"encoding/json"
	"fmt"
	"math/rand"
	"os"
	"path/filepath"
	"strings"
	"time"

	"github.com/wmnsk/go-pfcp/ie"
	"github.com/wmnsk/go-pfcp/message"

	"verif/harness/internal/agent"
	"verif/harness/internal/core"
	"verif/harness/internal/e2e"
	"verif/harness/internal/pfcpx"
)

func init() {
	Checks["C07"] = C07
	Workers["e2e-ids"] = e2eIDsWorker
}

// IDParams parameterises the identifier scenarios of C07.
type IDParams struct {
	Dir      string `json:"dir"`
	Trace    string `json:"trace"`
	AgentBin string `json:"agentBin"`
	N4Addr   string `json:"n4"`
	Seed     int64  `json:"seed"`
	Mode     string `json:"mode"` // seid | seidgen | teid | burst
	Rounds   int    `json:"rounds"`
	Scripts  string `json:"scripts"` // mode seidgen: file with the source prefixes TLC generated from SeidScript.tla
	Shard    int    `json:"shard"`   // mode seidgen: the prefixes whose index is Shard modulo Of
	Of       int    `json:"of"`
}

func simpleSession(cp uint64, ue uint32, nChoose int) *e2e.SessReq {
	r := &e2e.SessReq{CP: cp}
	for i := 0; i < nChoose; i++ {
		r.CPDR = append(r.CPDR, pfcpx.PDR{ID: uint16(1 + i), Prec: uint32(100 + i), Src: "access", FTEID: "choose", UE: "explicit", UEIP: ue, OHR: true, FAR: 1,
			SDF: &pfcpx.Flow{Action: "permit", Dir: "out", Proto: "ip", Src: pfcpx.FlowEP{Kind: "net", IP: 0x08080000 + uint32(i)<<8, Len: 24, Ports: "none"}, Dst: pfcpx.FlowEP{Kind: "assigned", Ports: "none"}}})
	}

	r.CPDR = append(r.CPDR, pfcpx.PDR{ID: 100, Prec: 50, Src: "core", FTEID: "none", UE: "explicit", UEIP: ue, FAR: 2})
	r.CFAR = []pfcpx.FAR{{ID: 1, Action: 2, HasFP: true, Dst: "core"}, {ID: 2, Action: 0x0c}}

	return r
}

func seidList(vs ...uint64) string {
	ss := make([]string, len(vs))
	for i, v := range vs {
		ss[i] = fmt.Sprint(v)
	}

	return "SEIDS " + strings.Join(ss, " ")
}

// e2eIDsWorker: adversarial outputs of the SEID source, TEID cursor wrap-around, concurrent CHOOSE requests.
func e2eIDsWorker(args []string) error {
	var p IDParams
	if err := json.Unmarshal([]byte(args[0]), &p); err != nil {
		return err
	}

	rng := rand.New(rand.NewSource(p.Seed))
	sum := E2ESummary{Stats: map[string]int{}}

	defer func() {
		b, _ := json.Marshal(sum)
		_ = os.WriteFile(p.Trace+".summary", b, 0o644)
	}()

	cfg := agent.Cfg{N4Addr: p.N4Addr, Datapath: "bess", LogLevel: "warn", ReadTimeout: 120, RespTimeout: "2s", MaxReqRetries: 5}

	w, err := e2e.NewWorld(filepath.Join(p.Dir, "w"), p.AgentBin, p.Trace, cfg, int(p.Seed%1000)*1000+1)
	if err != nil {
		return err
	}
	defer w.Close()

	w.SnapEvery = true

	if err := w.StartAgent(); err != nil {
		sum.Err = err.Error()
		return err
	}

	ue := uint32(0x0A100000 + rng.Intn(1<<16)<<4)
	cp := uint64(rng.Int63())
	next := func() (uint64, uint32) { cp++; ue++; return cp, ue }
	up := func(ds []pfcpx.Dgram) uint64 {
		if len(ds) >= 1 && ds[0].Cause == 1 && ds[0].HasFSEID {
			return ds[0].UPSeid
		}

		return 0
	}
	set := func(cmd string) error {
		if err := w.Agent.Set(cmd); err != nil {
			sum.Err = "hook command failed (hooks absent?): " + err.Error()
			return err
		}

		return nil
	}

	switch p.Mode {
	case "seid":
		w.Assoc("p1")
		w.Assoc("p2")

		for round := 0; round < p.Rounds && !w.Died; round++ {
			a, b, c := rng.Uint64()|1, rng.Uint64()|1, rng.Uint64()|1

			// immediate repeat: a for the first session; a, a, b for the second
			if set(seidList(a)) != nil {
				return nil
			}

			c1, u1 := next()
			s1 := up(w.Estab("p1", simpleSession(c1, u1, 1)))

			_ = set(seidList(a, a, b))
			c2, u2 := next()
			s2 := up(w.Estab("p1", simpleSession(c2, u2, 1)))

			// repeat of a deleted session's id is legal; repeat of a live one is not
			if s1 != 0 {
				w.Del("p1", &e2e.SessReq{Hdr: s1})
			}

			_ = set(seidList(b, a))
			c3, u3 := next()
			s3 := up(w.Estab("p1", simpleSession(c3, u3, 1)))

			// zero from the source
			_ = set(seidList(0, c))
			c4, u4 := next()
			s4 := up(w.Estab("p1", simpleSession(c4, u4, 1)))

			// the retry budget: 99 collisions followed by a fresh value; then 100 collisions (refusal is legal only then)
			live := b
			if s2 == 0 {
				live = a
			}

			many := make([]uint64, 0, 101)
			for i := 0; i < 99; i++ {
				many = append(many, live)
			}

			_ = set(seidList(append(many, rng.Uint64()|1)...))
			c5, u5 := next()
			s5 := up(w.Estab("p1", simpleSession(c5, u5, 1)))

			_ = set(seidList(append(many, live, rng.Uint64()|1)...))
			c6, u6 := next()
			s6 := up(w.Estab("p1", simpleSession(c6, u6, 1)))

			// the sessions still work and end cleanly
			for _, s := range []uint64{s2, s3, s4, s5, s6} {
				if s != 0 {
					w.Mod("p1", &e2e.SessReq{Hdr: s, UFAR: []pfcpx.FAR{{ID: 2, Action: 2, HasFP: true, Dst: "access", OHC: true, PeerIP: 0xC0A80001, TEID: 77}}})
					w.Del("p1", &e2e.SessReq{Hdr: s})
				}
			}

			_ = set("SEIDS")
			sum.Stats["seid_round"]++
		}
	case "seidgen":
		// GEN: every prefix of the random source over {0, live 1, live 2, deleted, fresh}
		// that TLC enumerated from spec/SeidScript.tla, one establishment each
		var scripts [][]string

		if b, err := os.ReadFile(p.Scripts); err != nil || json.Unmarshal(b, &scripts) != nil {
			sum.Err = "cannot read the generated source prefixes"
			return nil
		}

		w.Assoc("p1")
		w.Assoc("p2")

		val := map[string]uint64{"0": 0}
		mk := func(peer string, v uint64) uint64 {
			if set(seidList(v)) != nil {
				return 0
			}

			c1, u1 := next()

			return up(w.Estab(peer, simpleSession(c1, u1, 1)))
		}

		val["L1"], val["L2"], val["D"] = mk("p1", rng.Uint64()|1), mk("p1", rng.Uint64()|1), mk("p1", rng.Uint64()|1)
		other := mk("p2", rng.Uint64()|1) // another association's session is not disturbed

		if val["L1"] == 0 || val["L2"] == 0 || val["D"] == 0 || other == 0 || w.Died {
			sum.Err = "seidgen: the sessions of the fixture were not accepted"
			return nil
		}

		w.Del("p1", &e2e.SessReq{Hdr: val["D"]})

		for si, sc := range scripts {
			if w.Died {
				break
			}

			if p.Of > 1 && si%p.Of != p.Shard {
				continue
			}

			vs := make([]uint64, 0, len(sc)+1)
			for _, x := range sc {
				if x == "F" {
					vs = append(vs, rng.Uint64()|1)
				} else {
					vs = append(vs, val[x])
				}
			}

			_ = set(seidList(append(vs, rng.Uint64()|1)...)) // the source goes on with a fresh value
			c1, u1 := next()
			s := up(w.Estab("p1", simpleSession(c1, u1, 1)))

			// the fixture stays as it is: the new session goes again (unless it took the place of a live one - a violation
			// that the recorded establishment shows)
			if s != 0 && s != val["L1"] && s != val["L2"] {
				w.Del("p1", &e2e.SessReq{Hdr: s})
			}

			sum.Stats["seid_script"]++
		}

		// the fixture still works
		for _, k := range []string{"L1", "L2"} {
			w.Mod("p1", &e2e.SessReq{Hdr: val[k], UFAR: []pfcpx.FAR{{ID: 2, Action: 2, HasFP: true, Dst: "access", OHC: true, PeerIP: 0xC0A80001, TEID: 77}}})
			w.Del("p1", &e2e.SessReq{Hdr: val[k]})
		}

		w.Del("p2", &e2e.SessReq{Hdr: other})
		_ = set("SEIDS")
	case "teid":
		w.Assoc("p1")

		for round := 0; round < p.Rounds && !w.Died; round++ {
			// cross the 32-bit wrap
			if set(fmt.Sprintf("TEIDCURSOR %d", uint32(0xFFFFFFFF-2-uint32(rng.Intn(3))))) != nil {
				return nil
			}

			var ss []uint64

			for i := 0; i < 3; i++ {
				c1, u1 := next()
				ss = append(ss, up(w.Estab("p1", simpleSession(c1, u1, 2+rng.Intn(2)))))
			}

			// point the cursor at values that are in use: they must be skipped
			_ = set("TEIDCURSOR 0")

			for i := 0; i < 2; i++ {
				c1, u1 := next()
				ss = append(ss, up(w.Estab("p1", simpleSession(c1, u1, 2))))
			}

			_ = set(fmt.Sprintf("TEIDCURSOR %d", uint32(0xFFFFFFFD)))
			c1, u1 := next()
			ss = append(ss, up(w.Estab("p1", simpleSession(c1, u1, 3))))

			// more CHOOSE PDRs in one request than the agent's rule lists are created with room for (10): around that size
			for _, n := range []int{9, 10, 11, 12 + rng.Intn(12)} {
				c1, u1 = next()
				ss = append(ss, up(w.Estab("p1", simpleSession(c1, u1, n))))
			}

			for _, s := range ss {
				if s != 0 {
					w.Del("p1", &e2e.SessReq{Hdr: s})
				}
			}

			sum.Stats["teid_round"]++
		}
	case "burst":
		peers := []string{"p1", "p2", "p3", "p4", "p5", "p6"}
		for _, pn := range peers {
			w.Assoc(pn)
		}

		// a long run of live TEIDs: sessions with 24 CHOOSE PDRs each take consecutive values from a known cursor position; the
		// cursor is put back onto that run before some of the bursts, so that concurrent allocations have to step over it together
		const runStart = 70000

		_ = w.Agent.Set(fmt.Sprintf("TEIDCURSOR %d", runStart))

		for i := 0; i < 50 && !w.Died; i++ {
			c1, u1 := next()
			w.Estab(peers[i%len(peers)], simpleSession(c1, u1, 24))
		}

		for round := 0; round < p.Rounds+9 && !w.Died; round++ {
			k := 2 + rng.Intn(len(peers)-1)

			var reqs []*e2e.SessReq

			if round%4 != 0 {
				k = len(peers)
				_ = w.Agent.Set(fmt.Sprintf("TEIDCURSOR %d", runStart))
			}

			for i := 0; i < k; i++ {
				c1, u1 := next()
				reqs = append(reqs, simpleSession(c1, u1, 1+rng.Intn(3)))
			}

			if round%4 == 0 {
				_ = w.Agent.Set(fmt.Sprintf("TEIDCURSOR %d", uint32(0xFFFFFFFE-uint32(rng.Intn(6)))))
			}

			res := w.EstabBurst(peers[:k], reqs)

			for i, ds := range res {
				if s := up(ds); s != 0 && rng.Intn(3) > 0 {
					w.Del(peers[i], &e2e.SessReq{Hdr: s})
				}
			}

			sum.Stats["burst_round"]++
		}
	}

	sum.Scenarios = 1
	sum.Lines, sum.Steps, sum.Accepted, sum.Died = w.Lines, w.Steps, w.Accepted, w.Died

	return nil
}

// C07: UP-chosen identifiers are unique among live users and are those programmed.
func C07(c *core.Ctx) {
	c.SetCov("rule", "adversarial outputs of the per-association random source injected through the guarded hook (immediate repeat, repeat of a deleted session's id, zero, 99 and 100 consecutive "+
		"collisions), the TEID cursor positioned around the 32-bit wrap and on values in use, bursts of concurrent CHOOSE establishments from 2-6 associations, plus seeded random histories; "+
		"TLC judges SeidFreshPerAssociation, TeidNonZeroAndUnique and ReportedEqualsProgrammed on every establishment; evaluations = script steps")
	c.Assume("the SEID source and TEID cursor hooks (build tag verif) only supply inputs; the TEID/SEID library-level models (Fteid, Seid refinement) are design-level")

	rounds := 3
	if c.Thorough() {
		rounds = 40
	}

	var specs []func(i int) (string, interface{})

	// GEN: TLC enumerates the prefixes of the random source (spec/SeidScript.tla, with the design-level check of the draw loop)
	scripts := filepath.Join(c.Scratch, "seidscripts.json")
	genCfg := "MCSeidScript.cfg"

	if c.Thorough() {
		genCfg = "MCSeidScript4.cfg"
	}

	if c.ReplayDir == "" {
		gr, err := c.RunTLC(core.TLCRun{Module: "SeidScript", Cfg: genCfg, Workers: 1, HeapMB: 1024, Timeout: 5 * time.Minute, Label: "gen"})
		if err != nil || !gr.OK() {
			c.Inconclusive("GEN: TLC did not enumerate the source prefixes of SeidScript (or its design-level invariant failed)")
		} else if n, err := writeScripts(gr.OutputPath, scripts); err != nil || n == 0 {
			c.Inconclusive("GEN: no source prefixes in TLC's output: %v", err)
		} else {
			c.AddCount("gen_scripts", int64(n))
			c.AddTLC("gen", gr)

			const genShards = 5

			for k := 0; k < genShards; k++ {
				k := k
				specs = append(specs, func(i int) (string, interface{}) {
					dir, trace := shardDir(c, i)
					return "e2e-ids", IDParams{Dir: dir, Trace: trace, AgentBin: filepath.Join(c.BinDir, "verif-agent"), N4Addr: n4For(i), Seed: c.Seed*1000 + 290 + int64(k), Mode: "seidgen",
						Scripts: scripts, Shard: k, Of: genShards}
				})
			}
		}
	}

	for _, m := range []string{"seid", "teid", "burst", "burst"} {
		m := m
		specs = append(specs, func(i int) (string, interface{}) {
			dir, trace := shardDir(c, i)
			return "e2e-ids", IDParams{Dir: dir, Trace: trace, AgentBin: filepath.Join(c.BinDir, "verif-agent"), N4Addr: n4For(i), Seed: c.Seed*1000 + 300 + int64(i), Mode: m, Rounds: rounds}
		})
	}

	nr, scen := 3, 4
	if c.Thorough() {
		nr, scen = 8, 40
	}

	for k := 0; k < nr; k++ {
		specs = append(specs, func(i int) (string, interface{}) {
			dir, trace := shardDir(c, i)
			return "e2e-rand", E2EParams{Dir: dir, Trace: trace, AgentBin: filepath.Join(c.BinDir, "verif-agent"), N4Addr: n4For(i),
				Seed: c.Seed*1000 + 350 + int64(i), Scenarios: scen, Steps: 30, Rejects: true, Kill: false, Alloc: 1, EndMarker: 0, PoolLens: []int{24}}
		})
	}

	res := runE2EMixed(c, len(specs), "TraceE2E_C07.cfg", func(i int) (string, interface{}) { return specs[i](i) })
	judgeE2E(c, res, map[string]bool{"InEnvelope": true})
}

// messageHeartbeat builds a Heartbeat Request of the scripted peer.
func messageHeartbeat(p *pfcpx.Peer) message.Message {
	return message.NewHeartbeatRequest(p.NextSeq(), ie.NewRecoveryTimeStamp(p.TS), nil)
}

// messageRelease builds an Association Release Request of the scripted peer.
func messageRelease(p *pfcpx.Peer) message.Message {
	return message.NewAssociationReleaseRequest(p.NextSeq(), ie.NewNodeID(p.NodeID, "", ""))
}

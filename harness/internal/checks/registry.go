// Package checks contains one orchestration function per property and the worker tasks that
// call the code under test.
package checks

import "verif/harness/internal/core"

// Checks maps a property id to its check.
var Checks = map[string]func(*core.Ctx){}

// Workers maps a task name to a function run in a child process.
var Workers = map[string]func(args []string) error{}

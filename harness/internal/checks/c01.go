package checks

import (
	"encoding/json"
	"fmt"
	"math/rand"
	"net"
	"os"
	"path/filepath"
	"sort"
	"strings"
	"time"

	"github.com/wmnsk/go-pfcp/ie"
	"github.com/wmnsk/go-pfcp/message"

	"verif/harness/internal/agent"
	"verif/harness/internal/core"
	"verif/harness/internal/e2e"
	"verif/harness/internal/mutate"
	"verif/harness/internal/pfcpx"
)

func init() {
	Checks["C01"] = C01
	Workers["e2e-inject"] = e2eInjectWorker
}

// InjectParams parameterises the mutation / garbage driver of C01.
type InjectParams struct {
	Dir      string `json:"dir"`
	Trace    string `json:"trace"`
	AgentBin string `json:"agentBin"`
	N4Addr   string `json:"n4"`
	Seed     int64  `json:"seed"`
	Shard    int    `json:"shard"`
	NShards  int    `json:"nshards"`
	States   []int  `json:"states"`  // which association / session states of the target peer to inject into
	Garbage  int    `json:"garbage"` // number of garbage datagrams
	Pairs    int    `json:"pairs"`   // number of seeded double mutations
	Alloc    bool   `json:"alloc"`   // UE IP allocation enabled in the agent
	MaxCases int    `json:"maxCases"`
	Datapath string `json:"datapath"` // bess (default) | up4: the mutated messages reach the UP4 plug-in's code
}

type injectSummary struct {
	E2ESummary
	Cases  int               `json:"cases"`
	Deaths map[string]int    `json:"deaths"` // crash site -> count
	First  map[string]string `json:"first"`  // crash site -> first case description
}

// base messages of every type the agent dispatches; sess: UP SEID to address (0 = none), cp: CP SEID
func baseMessages(p *pfcpx.Peer, sess uint64, cp uint64, seq uint32) map[string][]byte {
	ip := net.ParseIP(p.NodeID).To4()
	flow := "permit out udp from 10.1.0.0/16 80-90 to assigned"
	m := map[string]message.Message{}

	m["assoc"] = message.NewAssociationSetupRequest(seq, ie.NewNodeID(p.NodeID, "", ""), ie.NewRecoveryTimeStamp(p.TS), ie.NewCPFunctionFeatures(0))
	m["hb"] = message.NewHeartbeatRequest(seq, ie.NewRecoveryTimeStamp(p.TS), nil)
	m["release"] = message.NewAssociationReleaseRequest(seq, ie.NewNodeID(p.NodeID, "", ""))
	m["pfd"] = message.NewPFDManagementRequest(seq,
		ie.NewApplicationIDsPFDs(ie.NewApplicationID("app1"), ie.NewPFDContext(ie.NewPFDContents(flow, "", "", "", "", nil, nil, nil),
			ie.NewPFDContents("permit in ip from any to assigned", "", "", "", "", nil, nil, nil))))
	m["estab"] = message.NewSessionEstablishmentRequest(0, 0, 0, seq, 0,
		ie.NewNodeID(p.NodeID, "", ""), ie.NewFSEID(cp, ip, nil),
		ie.NewCreatePDR(ie.NewPDRID(1), ie.NewPrecedence(100),
			ie.NewPDI(ie.NewSourceInterface(ie.SrcInterfaceAccess), ie.NewFTEID(0x04, 0, nil, nil, 0), ie.NewUEIPAddress(0x02, "10.250.0.7", "", 0, 0),
				ie.NewSDFFilter(flow, "", "", "", 1)),
			ie.NewOuterHeaderRemoval(0, 0), ie.NewFARID(1), ie.NewQERID(1), ie.NewQERID(2)),
		ie.NewCreatePDR(ie.NewPDRID(2), ie.NewPrecedence(100),
			ie.NewPDI(ie.NewSourceInterface(ie.SrcInterfaceCore), ie.NewUEIPAddress(0x06, "10.250.0.7", "", 0, 0), ie.NewSDFFilter(flow, "", "", "", 1)),
			ie.NewFARID(2), ie.NewQERID(1), ie.NewQERID(2)),
		ie.NewCreateFAR(ie.NewFARID(1), ie.NewApplyAction(0x02), ie.NewForwardingParameters(ie.NewDestinationInterface(ie.DstInterfaceCore))),
		ie.NewCreateFAR(ie.NewFARID(2), ie.NewApplyAction(0x02),
			ie.NewForwardingParameters(ie.NewDestinationInterface(ie.DstInterfaceAccess), ie.NewOuterHeaderCreation(0x0100, 77, "192.168.0.1", "", 0, 0, 0))),
		ie.NewCreateQER(ie.NewQERID(1), ie.NewQFI(9), ie.NewGateStatus(0, 0), ie.NewMBR(1000, 2000), ie.NewGBR(100, 200)),
		ie.NewCreateQER(ie.NewQERID(2), ie.NewQFI(9), ie.NewGateStatus(0, 0), ie.NewMBR(5000, 6000)))
	m["mod"] = message.NewSessionModificationRequest(0, 0, sess, seq, 0,
		ie.NewFSEID(cp+1, ip, nil),
		ie.NewCreatePDR(ie.NewPDRID(3), ie.NewPrecedence(90),
			ie.NewPDI(ie.NewSourceInterface(ie.SrcInterfaceCore), ie.NewUEIPAddress(0x06, "10.250.0.7", "", 0, 0), ie.NewSDFFilter("permit out tcp from 10.9.0.0/16 to assigned", "", "", "", 2)),
			ie.NewFARID(2), ie.NewQERID(2)),
		ie.NewCreateFAR(ie.NewFARID(3), ie.NewApplyAction(0x01)),
		ie.NewCreateQER(ie.NewQERID(3), ie.NewQFI(5), ie.NewGateStatus(0, 0), ie.NewMBR(10, 20), ie.NewGBR(1, 2)),
		ie.NewUpdatePDR(ie.NewPDRID(2), ie.NewPrecedence(80),
			ie.NewPDI(ie.NewSourceInterface(ie.SrcInterfaceCore), ie.NewUEIPAddress(0x06, "10.250.0.7", "", 0, 0), ie.NewSDFFilter(flow, "", "", "", 1)),
			ie.NewFARID(2), ie.NewQERID(1), ie.NewQERID(2)),
		ie.NewUpdateFAR(ie.NewFARID(2), ie.NewApplyAction(0x02),
			ie.NewUpdateForwardingParameters(ie.NewDestinationInterface(ie.DstInterfaceAccess), ie.NewOuterHeaderCreation(0x0100, 78, "192.168.0.2", "", 0, 0, 0), ie.NewPFCPSMReqFlags(0x02))),
		ie.NewUpdateQER(ie.NewQERID(1), ie.NewQFI(9), ie.NewGateStatus(0, 1), ie.NewMBR(1500, 2500), ie.NewGBR(100, 200)),
		ie.NewRemovePDR(ie.NewPDRID(1)), ie.NewRemoveFAR(ie.NewFARID(1)), ie.NewRemoveQER(ie.NewQERID(3)))
	m["del"] = message.NewSessionDeletionRequest(0, 0, sess, seq, 0)
	m["reportResp"] = message.NewSessionReportResponse(0, 0, sess, seq, 0, ie.NewCause(ie.CauseSessionContextNotFound))
	m["assocResp"] = message.NewAssociationSetupResponse(seq, ie.NewNodeID(p.NodeID, "", ""), ie.NewCause(ie.CauseRequestAccepted), ie.NewRecoveryTimeStamp(p.TS))
	m["hbResp"] = message.NewHeartbeatResponse(seq, ie.NewRecoveryTimeStamp(p.TS))

	out := map[string][]byte{}
	for k, v := range m {
		b := make([]byte, v.MarshalLen())
		_ = v.MarshalTo(b)
		out[k] = b
	}

	return out
}

var injectTypes = []string{"assoc", "hb", "release", "pfd", "estab", "mod", "del", "reportResp", "assocResp", "hbResp"}

// text-level variants of the flow description inside an SDF filter / PFD contents (truncated descriptions)
var flowTexts = []string{"", " ", "permit", "permit out", "permit out ip", "permit out ip from", "permit out ip from any", "permit out ip from any to",
	"permit out ip from any 80", "permit out ip from 10.0.0.1/33 to assigned", "permit out ip to assigned", "permit out ip from any from", "permit out ip to",
	"permit out ip from any to assigned 90-80", "allow out ip from any to assigned", "permit sideways ip from any to assigned", "permit out ip from any 65536 to assigned",
	"permit out ip from 1.2.3 to assigned", "permit out ip from any to assigned 1-2-3", "from", "to to to", "permit out ip from any to any to", "permit out 300 from any to assigned"}

func e2eInjectWorker(args []string) error {
	var p InjectParams
	if err := json.Unmarshal([]byte(args[0]), &p); err != nil {
		return err
	}

	rng := rand.New(rand.NewSource(p.Seed))
	sum := injectSummary{E2ESummary: E2ESummary{Stats: map[string]int{}}, Deaths: map[string]int{}, First: map[string]string{}}

	defer func() {
		b, _ := json.Marshal(sum)
		_ = os.WriteFile(p.Trace+".summary", b, 0o644)
	}()

	cfg := agent.Cfg{N4Addr: p.N4Addr, Datapath: "bess", LogLevel: "warn", ReadTimeout: 120, RespTimeout: "2s", MaxReqRetries: 5, EndMarker: true}
	if p.Alloc {
		cfg.UEIPAlloc, cfg.UEPool = true, "10.250.0.0/24"
	}

	if p.Datapath == "up4" {
		cfg = up4Cfg(rng, p.N4Addr)
		cfg.EndMarker, cfg.UEIPAlloc, cfg.UEPool = true, p.Alloc, "10.250.0.0/24"
	}

	// every third shard runs with the heartbeat timer on (the agent's own heartbeats are too far apart to matter): the handlers
	// then also feed the association's heartbeat monitor
	if p.Shard%3 == 1 {
		cfg.HBTimer, cfg.HBInterval = true, "600s"
	}

	w, err := e2e.NewWorld(filepath.Join(p.Dir, "w"), p.AgentBin, p.Trace, cfg, int(p.Seed%1000)*1000+1)
	if err != nil {
		return err
	}
	defer w.Close()

	if err := w.StartAgent(); err != nil {
		sum.Err = err.Error()
		return err
	}

	cp := uint64(rng.Int63())
	ue := uint32(0x0AFA0100)
	probeAssoc := false

	restart := func(what string) error {
		head := ""
		if w.Agent != nil {
			_, site := core.PanicSite(w.Agent.Stderr())
			head = site
		}

		sum.Deaths[head]++
		if _, ok := sum.First[head]; !ok {
			sum.First[head] = what
		}

		probeAssoc = false

		return w.StartAgent()
	}

	// target peer: set up the requested state with ordinary (recorded, fully judged) steps
	setup := func(state int) uint64 {
		// 0 no association, 1 associated, 2 session established, 3 session modified, 4 session deleted, 5 association released,
		// 6 session emptied, 7 session with 13 PDRs (only the session messages are injected in these states)
		if state == 0 {
			return 0
		}

		w.Assoc("t")

		if state == 1 {
			return 0
		}

		if state == 5 {
			w.Release("t")
			return 0
		}

		cp += 3
		ue++

		r := simpleSession(cp, ue, 1)
		if state == 7 { // a large session: 13 PDRs
			r = simpleSession(cp, ue, 12)
		}

		r.CQER = []pfcpx.QER{{ID: 1, QFI: 9, ULMBR: 1000, DLMBR: 2000, ULGBR: 100, DLGBR: 200}, {ID: 2, QFI: 9, ULMBR: 5000, DLMBR: 6000, NoGBR: true}}

		for i := range r.CPDR {
			r.CPDR[i].QERs = []uint32{1, 2}
		}

		ds := w.Estab("t", r)
		if len(ds) < 1 || ds[0].Cause != 1 {
			return 0
		}

		up := ds[0].UPSeid

		if state == 3 {
			w.Mod("t", &e2e.SessReq{Hdr: up, UFAR: []pfcpx.FAR{{ID: 2, Action: 2, HasFP: true, Dst: "access", OHC: true, PeerIP: 0xC0A80001, TEID: 70}}})
		}

		if state == 4 {
			w.Del("t", &e2e.SessReq{Hdr: up})
		}

		if state == 7 {
			return up // (established below with more rules than the agent's lists are created with room for)
		}

		if state == 6 {
			// the session is emptied: a modification removes every rule it has (the session itself stays)
			rm := &e2e.SessReq{Hdr: up, RFAR: []uint32{1, 2}, RQER: []uint32{1, 2}}
			for _, pd := range r.CPDR {
				rm.RPDR = append(rm.RPDR, pd.ID)
			}

			w.Mod("t", rm)
		}

		return up
	}

	// after every injected datagram: the same peer's heartbeat and a complete session life on another association
	probe := func() {
		if w.Died {
			return
		}

		// (the heartbeat on the target peer is sent by Inject itself, as a barrier)
		if !probeAssoc {
			ds := w.Assoc("probe")
			probeAssoc = len(ds) == 1 && ds[0].Cause == 1
		}

		cp += 3
		ue++

		ds := w.Estab("probe", simpleSession(cp, ue, 1))
		if len(ds) >= 1 && ds[0].Cause == 1 && !w.Died {
			w.Del("probe", &e2e.SessReq{Hdr: ds[0].UPSeid})
		}
	}

	runCase := func(state int, what string, raw func(up uint64) []byte) error {
		if p.MaxCases > 0 && sum.Cases >= p.MaxCases {
			return nil
		}

		up := setup(state)
		if w.Died {
			return restart("setup before " + what)
		}

		w.Inject("t", what, raw(up))
		sum.Cases++

		// a PFD Management Request that was taken over (however it was mutated) is used: a PDR of the same peer names the
		// application it provisions (what that PDR then matches is not judged - the agent must survive it)
		if strings.Contains(what, "msg=pfd") && state >= 1 && state <= 3 && !w.Died {
			cp += 3
			ue++

			fr := simpleSession(cp, ue, 1)
			for i := range fr.CPDR {
				fr.CPDR[i].AppID, fr.CPDR[i].SDF = "app1", nil
			}

			w.Inject("t", what+" followup: establishment naming the application", sessReqBytes(w.Peer("t"), fr))
		}

		probe()

		if w.Died {
			return restart(what)
		}

		w.Cleanup("t")

		if w.Died {
			return restart("cleanup after " + what)
		}

		return nil
	}

	tp := w.Peer("t")
	idx := 0
	mine := func() bool { idx++; return idx%p.NShards == p.Shard }

	// (1) every single IE mutation of every message type, in every requested state
	for _, state := range p.States {
		for _, typ := range injectTypes {
			if state >= 6 && typ != "mod" && typ != "del" {
				continue
			}

			base, err := mutate.Parse(baseMessages(tp, 1, 1, 1)[typ])
			if err != nil {
				return fmt.Errorf("base %s: %v", typ, err)
			}

			for _, path := range base.Paths() {
				for _, kind := range mutate.Kinds {
					if _, ok := base.Apply(path, kind); !ok || !mine() {
						continue
					}

					path, kind, typ := path, kind, typ
					what := fmt.Sprintf("state=%d msg=%s ie=%s mutation=%s", state, typ, base.TypePath(path), kind)

					if err := runCase(state, what, func(up uint64) []byte {
						cp += 3
						b, _ := mutate.Parse(baseMessages(tp, up, cp, tp.NextSeq())[typ])
						mm, _ := b.Apply(path, kind)

						return mm.Bytes()
					}); err != nil {
						sum.Err = err.Error()
						return err
					}

					sum.Stats["single_"+kind]++
				}
			}

			// a well-formed PFD Management Request that names an application twice, with another one in between
			if typ == "pfd" && state >= 1 && state <= 3 && mine() {
				what := fmt.Sprintf("state=%d msg=pfd repeated application id", state)

				if err := runCase(state, what, func(up uint64) []byte {
					mk := func(id, flow string) *ie.IE {
						return ie.NewApplicationIDsPFDs(ie.NewApplicationID(id), ie.NewPFDContext(ie.NewPFDContents(flow, "", "", "", "", nil, nil, nil)))
					}
					m := message.NewPFDManagementRequest(tp.NextSeq(), mk("app1", "permit out ip from 10.1.0.0/16 to assigned"),
						mk("app2", "permit out udp from any 53 to assigned"), mk("app1", "permit out tcp from any 443 to assigned"))
					b := make([]byte, m.MarshalLen())
					_ = m.MarshalTo(b)

					return b
				}); err != nil {
					sum.Err = err.Error()
					return err
				}

				sum.Stats["pfd_repeated_id"]++
			}

			// the unmutated message with a wrong header (S flag / SEID) and the flow-description variants
			if typ == "estab" || typ == "mod" || typ == "pfd" {
				for _, txt := range flowTexts {
					if !mine() {
						continue
					}

					txt, typ := txt, typ
					what := fmt.Sprintf("state=%d msg=%s flow=%q", state, typ, txt)

					if err := runCase(state, what, func(up uint64) []byte {
						cp += 3
						b, _ := mutate.Parse(baseMessages(tp, up, cp, tp.NextSeq())[typ])

						for _, pa := range b.Paths() {
							n := b.At(pa)
							if n.Type == 23 { // SDF filter: rebuild with the text
								x := ie.NewSDFFilter(txt, "", "", "", 1)
								n.Payload = x.Payload
							} else if n.Type == 61 { // PFD contents
								x := ie.NewPFDContents(txt, "", "", "", "", nil, nil, nil)
								n.Payload = x.Payload
							}
						}

						return b.Bytes()
					}); err != nil {
						sum.Err = err.Error()
						return err
					}

					sum.Stats["flowtext"]++
				}
			}
		}
	}

	// (2) seeded double mutations of the session messages
	for i := 0; i < p.Pairs; i++ {
		typ := []string{"estab", "mod", "pfd", "assoc"}[rng.Intn(4)]
		state := p.States[rng.Intn(len(p.States))]
		s1, s2 := rng.Int63(), rng.Int63()
		what := fmt.Sprintf("state=%d msg=%s double mutation seeds %d %d", state, typ, s1, s2)

		if err := runCase(state, what, func(up uint64) []byte {
			cp += 3
			b, _ := mutate.Parse(baseMessages(tp, up, cp, tp.NextSeq())[typ])

			for _, sd := range []int64{s1, s2} {
				r := rand.New(rand.NewSource(sd))
				paths := b.Paths()

				for try := 0; try < 20 && len(paths) > 0; try++ {
					if mm, ok := b.Apply(paths[r.Intn(len(paths))], mutate.Kinds[r.Intn(len(mutate.Kinds))]); ok {
						b = mm
						break
					}
				}
			}

			return b.Bytes()
		}); err != nil {
			sum.Err = err.Error()
			return err
		}

		sum.Stats["double"]++
	}

	// (3) garbage: random bytes, every kind of truncation, corrupt header lengths, unknown types, oversized first datagram
	for i := 0; i < p.Garbage; i++ {
		state := p.States[rng.Intn(len(p.States))]
		mode := rng.Intn(7)
		sd := rng.Int63()
		what := fmt.Sprintf("state=%d garbage mode=%d seed=%d", state, mode, sd)

		if err := runCase(state, what, func(up uint64) []byte {
			r := rand.New(rand.NewSource(sd))
			cp += 3
			valid := baseMessages(tp, up, cp, tp.NextSeq())[injectTypes[r.Intn(len(injectTypes))]]

			switch mode {
			case 0:
				b := make([]byte, r.Intn(200))
				r.Read(b)

				return b
			case 1:
				return valid[:r.Intn(len(valid)+1)]
			case 2:
				b := append([]byte(nil), valid...)
				b[2], b[3] = byte(r.Intn(256)), byte(r.Intn(256))

				return b
			case 3:
				b := append([]byte(nil), valid...)
				b[1] = byte(r.Intn(256))

				return b
			case 4:
				b := append([]byte(nil), valid...)
				b[0] = byte(r.Intn(256))

				return b
			case 5:
				b := append([]byte(nil), valid...)
				for k := 0; k < 1+r.Intn(4); k++ {
					b[r.Intn(len(b))] ^= byte(1 << r.Intn(8))
				}

				return b
			default:
				b := append([]byte(nil), valid...)
				pad := make([]byte, 1100+r.Intn(3000))
				r.Read(pad)

				return append(b, pad...)
			}
		}); err != nil {
			sum.Err = err.Error()
			return err
		}

		sum.Stats["garbage"]++
	}

	// (4) volume: one datagram is harmless, the same one many times over on one connection must be as well - heartbeats and
	// session requests of a peer that never associates (nothing on its connection is started that would consume what the
	// handlers queue), then of the same peer once associated
	if p.Shard%3 == 1 && !w.Died {
		for i := 0; i < 130 && !w.Died; i++ {
			w.Heartbeat("f")
		}

		for i := 0; i < 40 && !w.Died; i++ {
			cp += 3
			ue++
			w.Estab("f", simpleSession(cp, ue, 1))
		}

		w.Assoc("f")

		for i := 0; i < 130 && !w.Died; i++ {
			w.Heartbeat("f")
		}

		w.Release("f")
		sum.Stats["volume"]++
	}

	sum.Scenarios = 1
	sum.Lines, sum.Steps, sum.Accepted, sum.Died = w.Lines, w.Steps, w.Accepted, false

	return nil
}

// C01: no PFCP datagram can crash or wedge the agent.
func C01(c *core.Ctx) {
	c.SetCov("rule", "every single IE-level mutation (drop, duplicate, empty, retype, truncate, IPv6-only, inner-length corruption, reorder, zero-fill) at every position of the IE tree of every "+
		"message type the agent dispatches, truncated / malformed flow descriptions, seeded double mutations and garbage datagrams, injected in the listed association/session states of a target peer; "+
		"a third of the shards run with the heartbeat timer on and end with a volume phase (130 heartbeats and 40 session requests of a peer that never associates, 130 heartbeats once associated); "+
		"after each datagram a heartbeat on the same peer and a complete establish/delete on another association are executed and judged by the reference specification; "+
		"evaluations = script steps, distinct_nontrivial = injected datagrams")
	c.Assume("IE trees are mutated independently of go-pfcp's message structs and re-encoded with consistent outer lengths; byte-level garbage is generated by the harness")

	nshards := 12
	states := []int{2, 0, 6, 7}
	garbage, pairs := 40, 15

	if c.Thorough() {
		nshards = 14
		states = []int{0, 1, 2, 3, 4, 5, 6, 7}
		garbage, pairs = 1500, 400
	}

	nup4 := 2 // two more shards run half of the lattice each against the UP4 plug-in
	res := runE2EMixed(c, nshards+nup4, "TraceE2E_C01.cfg", func(i int) (string, interface{}) {
		dir, trace := shardDir(c, i)
		if i >= nshards {
			return "e2e-inject", InjectParams{Dir: dir, Trace: trace, AgentBin: filepath.Join(c.BinDir, "verif-agent"), N4Addr: n4For(i), Seed: c.Seed*1000 + 10 + int64(i),
				Shard: i - nshards, NShards: nup4 * map[bool]int{true: 1, false: 4}[c.Thorough()], States: []int{2, 3}, Garbage: garbage / 4, Pairs: pairs / 2, Alloc: i%2 == 0, Datapath: "up4"}
		}

		return "e2e-inject", InjectParams{Dir: dir, Trace: trace, AgentBin: filepath.Join(c.BinDir, "verif-agent"), N4Addr: n4For(i), Seed: c.Seed*1000 + 10 + int64(i),
			Shard: i, NShards: nshards, States: states, Garbage: garbage, Pairs: pairs, Alloc: i%2 == 0}
	})

	// diagnostics: crash sites seen by the workers (the verdict comes from the trace validation below)
	sites := map[string]int{}
	first := map[string]string{}
	cases := 0

	for _, r := range res {
		var s injectSummary
		if b, err := os.ReadFile(r.trace + ".summary"); err == nil && json.Unmarshal(b, &s) == nil {
			cases += s.Cases

			for k, v := range s.Deaths {
				sites[k] += v
				if _, ok := first[k]; !ok {
					first[k] = s.First[k]
				}
			}
		}
	}

	keys := make([]string, 0, len(sites))
	for k := range sites {
		keys = append(keys, k)
	}

	sort.Strings(keys)

	for _, k := range keys {
		c.Logf("crash site %s: %d deaths, first: %s", k, sites[k], first[k])
		fmt.Printf("  crash site %s: %d deaths, first case: %s\n", k, sites[k], first[k])
	}

	c.SetCov("crash_sites", sites)
	judgeE2E(c, res, map[string]bool{"InEnvelope": true})
	c.SetCov("distinct_nontrivial", int64(cases))
	_ = time.Second
}

// sessReqBytes encodes a Session Establishment Request of the peer (for injection as a raw datagram).
func sessReqBytes(p *pfcpx.Peer, r *e2e.SessReq) []byte {
	ies := []*ie.IE{ie.NewNodeID(p.NodeID, "", ""), ie.NewFSEID(r.CP, net.ParseIP(p.NodeID).To4(), nil)}
	for _, x := range r.CPDR {
		ies = append(ies, x.CreateIE())
	}

	for _, x := range r.CFAR {
		ies = append(ies, x.CreateIE())
	}

	for _, x := range r.CQER {
		ies = append(ies, x.CreateIE())
	}

	m := message.NewSessionEstablishmentRequest(0, 0, 0, p.NextSeq(), 0, ies...)
	b := make([]byte, m.MarshalLen())
	_ = m.MarshalTo(b)

	return b
}

package checks

import (
	"encoding/json"
	"math/rand"
	"os"
	"path/filepath"
	"time"

	"verif/harness/internal/agent"
	"verif/harness/internal/core"
	"verif/harness/internal/e2e"
	"verif/harness/internal/pfcpx"
)

func init() {
	Checks["C13"] = C13
	Workers["e2e-ddn"] = e2eDdnWorker
}

// DdnParams parameterises the downlink-data-report driver of C13.
type DdnParams struct {
	Dir      string `json:"dir"`
	Trace    string `json:"trace"`
	AgentBin string `json:"agentBin"`
	N4Addr   string `json:"n4"`
	Seed     int64  `json:"seed"`
	Reports  int    `json:"reports"`
	DdnMs    int    `json:"ddnMs"`    // 0 = the real 20 s
	Datapath string `json:"datapath"` // bess (default) | up4: reports are digests of the harness' P4Runtime switch
	Flood    int    `json:"flood"`    // > 0: this many sessions are established and report for the first time all at once
}

func e2eDdnWorker(args []string) error {
	var p DdnParams
	if err := json.Unmarshal([]byte(args[0]), &p); err != nil {
		return err
	}

	rng := rand.New(rand.NewSource(p.Seed))
	sum := E2ESummary{Stats: map[string]int{}}

	defer func() {
		b, _ := json.Marshal(sum)
		_ = os.WriteFile(p.Trace+".summary", b, 0o644)
	}()

	cfg := agent.Cfg{N4Addr: p.N4Addr, Datapath: "bess", LogLevel: "warn", ReadTimeout: 120, RespTimeout: "2s", MaxReqRetries: 5, NotifyBess: true}
	if p.Datapath == "up4" {
		cfg = up4Cfg(rng, p.N4Addr)
		cfg.UEIPAlloc = false
	}

	if p.DdnMs > 0 {
		cfg.Env = []string{"VERIF_DDN_MS=" + itoa(p.DdnMs)}
	}

	w, err := e2e.NewWorld(filepath.Join(p.Dir, "w"), p.AgentBin, p.Trace, cfg, int(p.Seed%1000)*1000+1)
	if err != nil {
		return err
	}
	defer w.Close()

	w.DdnMs = p.DdnMs

	if err := w.StartAgent(); err != nil {
		sum.Err = err.Error()
		return err
	}

	interval := time.Duration(p.DdnMs) * time.Millisecond
	if p.DdnMs == 0 {
		interval = 20 * time.Second
	}

	w.Assoc("p1")

	cp := uint64(rng.Int63())
	ue := uint32(0x0AD00000 + rng.Intn(1<<12)<<4)
	n3 := w.AccessIP

	if p.Flood > 0 {
		// more sessions than the agent's report channel has places (1024) report for the first time in one burst: every one of
		// them is due (the tables are not recorded in this history)
		w.LightDp = true

		var ups, cps []uint64

		for i := 0; i < p.Flood && !w.Died; i++ {
			cp++
			ue++

			r := simpleSession(cp, ue, 1)
			r.CFAR[1].Action = 0x0c

			if ds := w.Estab("p1", r); len(ds) >= 1 && ds[0].Cause == 1 && ds[0].HasFSEID {
				ups, cps = append(ups, ds[0].UPSeid), append(cps, cp)
			}
		}

		sum.Stats["flood_sessions"] = len(ups)
		sum.Stats["flood_requests"] = w.ReportMany("p1", ups, cps, 8*time.Second)
		sum.Scenarios = 1
		sum.Lines, sum.Steps, sum.Accepted, sum.Died = w.Lines, w.Steps, w.Accepted, w.Died

		return nil
	}

	type sess struct {
		up     uint64
		notify bool
	}

	var ss []sess

	mk := func(notify bool) {
		cp++
		ue++

		r := simpleSession(cp, ue, 1)
		if p.Datapath == "up4" { // the UP4 plug-in keys uplink PDRs by the TEID the control plane names
			r.CPDR[0].FTEID, r.CPDR[0].TunIP, r.CPDR[0].TEID = "explicit", n3, uint32(cp&0xFFFFFF)|1
		}

		if notify {
			r.CFAR[1].Action = []uint8{0x0c, 0x08}[rng.Intn(2)] // BUFF|NOCP or NOCP
		} else {
			r.CFAR[1] = pfcpx.FAR{ID: 2, Action: []uint8{0x04, 0x02, 0x01}[rng.Intn(3)], HasFP: true, Dst: "access", OHC: true, PeerIP: 0xC0A80001, TEID: 99}
		}

		ds := w.Estab("p1", r)
		if len(ds) >= 1 && ds[0].Cause == 1 && ds[0].HasFSEID {
			ss = append(ss, sess{ds[0].UPSeid, notify})
			w.UeBySeid[ds[0].UPSeid] = ue
		}
	}

	if p.Datapath == "up4" {
		// a digest names a UE address, not a session: a report for an address that no session has yet, then a session
		// with that address whose first report is due; and a new session on the address of a deleted one
		fake := rng.Uint64() | 1<<62
		w.UeBySeid[fake] = ue + 1 // the address the next session gets
		w.Report("p1", fake, 0)
		delete(w.UeBySeid, fake)
		mk(true)

		if n := len(ss); n > 0 {
			w.Report("p1", ss[n-1].up, 1)
			w.Del("p1", &e2e.SessReq{Hdr: ss[n-1].up})
			delete(w.UeBySeid, ss[n-1].up)
			ss = ss[:n-1]
			ue-- // the same address again
			mk(true)

			if n := len(ss); n > 0 {
				w.Report("p1", ss[n-1].up, 1)
			}
		}
	}

	for i := 0; i < 4; i++ {
		mk(true)
	}

	mk(false)
	mk(false)

	unknown := []uint64{rng.Uint64() | 1, 1, 0xFFFFFFFFFFFFFFFF}

	for i := 0; i < p.Reports && !w.Died && len(ss) > 0; i++ {
		switch k := rng.Intn(10); {
		case k < 7:
			s := ss[rng.Intn(len(ss))]

			if rng.Intn(2) == 0 { // the datapath reports a burst of buffered packets of the session
				w.ReportCopies = 2 + rng.Intn(40)
				sum.Stats["report_burst"]++
			}

			w.Report("p1", s.up, []uint8{1, 1, 0}[rng.Intn(3)])
			w.ReportCopies = 0
		case k < 8:
			w.Report("p1", unknown[rng.Intn(len(unknown))], 0)
		case k < 9:
			// the downlink rule changes: notification on <-> off
			j := rng.Intn(len(ss))
			if ss[j].notify {
				w.Mod("p1", &e2e.SessReq{Hdr: ss[j].up, UFAR: []pfcpx.FAR{{ID: 2, Action: 2, HasFP: true, Dst: "access", OHC: true, PeerIP: 0xC0A80001, TEID: 99}}})
			} else {
				w.Mod("p1", &e2e.SessReq{Hdr: ss[j].up, UFAR: []pfcpx.FAR{{ID: 2, Action: 0x0c, HasFP: true, Dst: "access"}}})
			}

			ss[j].notify = !ss[j].notify
		default:
			// a session ends and another one starts
			j := rng.Intn(len(ss))
			w.Del("p1", &e2e.SessReq{Hdr: ss[j].up})
			delete(w.UeBySeid, ss[j].up)
			ss = append(ss[:j], ss[j+1:]...)
			mk(rng.Intn(3) > 0)

			if n := len(ss); n > 0 && rng.Intn(2) == 0 {
				w.Report("p1", ss[n-1].up, 1) // the first report of the new session, whatever was reported before
			}
		}

		// gaps are either clearly inside or clearly outside the interval
		if p.DdnMs > 0 {
			if rng.Intn(4) == 0 {
				time.Sleep(interval*8/5 + time.Duration(rng.Intn(20))*time.Millisecond)
			} else {
				time.Sleep(time.Duration(rng.Intn(int(interval/12/time.Millisecond)+1)) * time.Millisecond)
			}
		}

		sum.Stats["report_step"]++
	}

	sum.Scenarios = 1
	sum.Lines, sum.Steps, sum.Accepted, sum.Died = w.Lines, w.Steps, w.Accepted, w.Died

	return nil
}

func itoa(n int) string {
	b, _ := json.Marshal(n)
	return string(b)
}

// C13: downlink data notifications reach the control plane once per interval.
func C13(c *core.Ctx) {
	c.SetCov("rule", "datapath reports - F-SEIDs written to the BESS notify socket, and on every third shard digests sent by the harness' P4Runtime switch - for notifying, non-notifying, deleted and unknown sessions of one association, with gaps clearly inside (<= 0.5 x) or "+
		"clearly outside (>= 1.5 x) the notification interval (200 ms through the guarded hook; one thorough shard uses the real 20 s); every Session Report Request the peer receives is judged; "+
		"model: all report/tick sequences of Notifier.tla for 3 sessions, interval 3, 8 ticks; evaluations = script steps")

	r, err := c.RunTLC(core.TLCRun{Module: "Notifier", Cfg: "MCNotifier.cfg", Workers: 4, HeapMB: 2048, Timeout: 5 * time.Minute, Label: "mc"})
	if err != nil || !r.OK() {
		c.Inconclusive("model check of Notifier did not pass")
	} else {
		c.AddTLC("mc", r)
	}

	nshards, reports := 6, 45
	if c.Thorough() {
		nshards, reports = 12, 400
	}

	flood := 0
	if c.Thorough() { // (validating a history with thousands of live sessions takes TLC minutes: thorough tier only)
		flood = 1
	}

	res := runE2EMixed(c, nshards+flood, "TraceE2E_C13.cfg", func(i int) (string, interface{}) {
		dir, trace := shardDir(c, i)
		ddn := 200

		if i == nshards { // the flood shard
			return "e2e-ddn", DdnParams{Dir: dir, Trace: trace, AgentBin: filepath.Join(c.BinDir, "verif-agent"), N4Addr: n4For(i), Seed: c.Seed*1000 + 129, DdnMs: 2000, Datapath: "bess",
				Flood: 2600 + int(c.Seed%7)*13}
		}

		if c.Thorough() && i == 0 {
			ddn = 0 // the real 20 s interval: only "first report" and "inside" situations occur
		}

		dp := "bess"
		if i%3 == 2 {
			dp = "up4"
		}

		return "e2e-ddn", DdnParams{Dir: dir, Trace: trace, AgentBin: filepath.Join(c.BinDir, "verif-agent"), N4Addr: n4For(i), Seed: c.Seed*1000 + 130 + int64(i), Reports: reports, DdnMs: ddn, Datapath: dp}
	})
	judgeE2E(c, res, map[string]bool{"InEnvelope": true})
}

package checks

import (
	"encoding/json"
	"fmt"
	"math/rand"
	"os"
	"path/filepath"

	"verif/harness/internal/agent"
	"verif/harness/internal/core"
	"verif/harness/internal/e2e"
	"verif/harness/internal/pfcpx"
)

func init() {
	Checks["C08"] = C08
	Workers["e2e-forms"] = e2eFormsWorker
}

// FormParams parameterises the flow-description driver of C08.
type FormParams struct {
	Dir      string `json:"dir"`
	Trace    string `json:"trace"`
	AgentBin string `json:"agentBin"`
	N4Addr   string `json:"n4"`
	Seed     int64  `json:"seed"`
	Shard    int    `json:"shard"`
	NShards  int    `json:"nshards"`
	Embed    int    `json:"embed"`   // embeddings (concrete addresses / ports) per abstract form
	Corrupt  int    `json:"corrupt"` // number of corrupted descriptions
	PfdSeqs  int    `json:"pfdSeqs"` // number of PFD provisioning sequences
}

func formEndpoint(rng *rand.Rand, kind, ports int) pfcpx.FlowEP {
	var ep pfcpx.FlowEP

	switch kind {
	case 0:
		ep.Kind = "any"
	case 1:
		ep.Kind = "assigned"
	default:
		ep.Kind = "net"
		ep.IP = rng.Uint32()
		ep.Len = []int{0, 1, 7, 8, 9, 15, 16, 17, 23, 24, 25, 31, 32}[rng.Intn(13)]
		ep.Bare = ep.Len == 32 && rng.Intn(2) == 0
	}

	switch ports {
	case 0:
		ep.Ports = "none"
	case 1:
		ep.Ports = "one"
		ep.Lo = []int{1, 2, 80, 65534, 65535, 1 + rng.Intn(65535)}[rng.Intn(6)]
	default:
		ep.Ports = "range"
		ep.Lo = []int{1, 1000, 65000, 1 + rng.Intn(65000)}[rng.Intn(4)]
		ep.Hi = ep.Lo + 1 + rng.Intn(60)

		if rng.Intn(6) == 0 { // wider than the installation strategy represents: the rule must be refused, not dropped silently
			ep.Hi = ep.Lo + 100 + rng.Intn(3000)
		}

		if ep.Hi > 65535 {
			ep.Hi = 65535
		}
	}

	return ep
}

// corruptions that are structurally malformed by construction (C08's list)
func corruptText(rng *rand.Rand, f pfcpx.Flow) string {
	good := f.Text()
	src, dst := f.Src, f.Dst
	ep := func(e pfcpx.FlowEP, addr, port string) string {
		s := addr
		if port != "" {
			s += " " + port
		}

		return s
	}
	addrOf := func(e pfcpx.FlowEP) string {
		switch e.Kind {
		case "any", "assigned":
			return e.Kind
		}

		return fmt.Sprintf("%s/%d", pfcpx.ToIP(e.IP), e.Len)
	}
	portOf := func(e pfcpx.FlowEP) string {
		switch e.Ports {
		case "one":
			return fmt.Sprint(e.Lo)
		case "range":
			return fmt.Sprintf("%d-%d", e.Lo, e.Hi)
		}

		return ""
	}
	proto := f.Proto

	if proto == "number" {
		proto = fmt.Sprint(f.ProtoN)
	}

	badAddr := []string{"1.2.3", "10.0.0.1/33", "300.1.1.1", "10.0.0.0/x", "ten.zero.zero.one", "10.0.0.1/24/8"}[rng.Intn(6)]
	badPort := []string{"65536", "abc", "90-80", "1-2-3", "-5", "70000-70001", "80-"}[rng.Intn(7)]

	switch rng.Intn(9) {
	case 0:
		return fmt.Sprintf("%s %s %s from %s to %s", []string{"allow", "Permit", "accept", ""}[rng.Intn(4)], f.Dir, proto, ep(src, addrOf(src), portOf(src)), ep(dst, addrOf(dst), portOf(dst)))
	case 1:
		return fmt.Sprintf("%s %s %s from %s to %s", f.Action, []string{"sideways", "IN", "both", "inout"}[rng.Intn(4)], proto, ep(src, addrOf(src), portOf(src)), ep(dst, addrOf(dst), portOf(dst)))
	case 2:
		return fmt.Sprintf("%s %s %s from %s to %s", f.Action, f.Dir, proto, ep(src, badAddr, portOf(src)), ep(dst, addrOf(dst), portOf(dst)))
	case 3:
		return fmt.Sprintf("%s %s %s from %s to %s", f.Action, f.Dir, proto, ep(src, addrOf(src), portOf(src)), ep(dst, badAddr, portOf(dst)))
	case 4:
		return fmt.Sprintf("%s %s %s from %s to %s", f.Action, f.Dir, proto, ep(src, addrOf(src), badPort), ep(dst, addrOf(dst), portOf(dst)))
	case 5:
		return fmt.Sprintf("%s %s %s from %s to %s", f.Action, f.Dir, proto, ep(src, addrOf(src), portOf(src)), ep(dst, addrOf(dst), badPort))
	case 6: // the "to" part is missing
		return fmt.Sprintf("%s %s %s from %s", f.Action, f.Dir, proto, ep(src, addrOf(src), portOf(src)))
	case 7: // the "from" part is missing
		return fmt.Sprintf("%s %s %s to %s", f.Action, f.Dir, proto, ep(dst, addrOf(dst), portOf(dst)))
	default: // trailing keyword without its address
		return good[:len(good)-len(ep(dst, addrOf(dst), portOf(dst)))]
	}
}

func e2eFormsWorker(args []string) error {
	var p FormParams
	if err := json.Unmarshal([]byte(args[0]), &p); err != nil {
		return err
	}

	rng := rand.New(rand.NewSource(p.Seed))
	sum := E2ESummary{Stats: map[string]int{}}

	defer func() {
		b, _ := json.Marshal(sum)
		_ = os.WriteFile(p.Trace+".summary", b, 0o644)
	}()

	cfg := agent.Cfg{N4Addr: p.N4Addr, Datapath: "bess", LogLevel: "warn", ReadTimeout: 120, RespTimeout: "2s", MaxReqRetries: 5}

	w, err := e2e.NewWorld(filepath.Join(p.Dir, "w"), p.AgentBin, p.Trace, cfg, int(p.Seed%1000)*1000+1)
	if err != nil {
		return err
	}
	defer w.Close()

	if err := w.StartAgent(); err != nil {
		sum.Err = err.Error()
		return err
	}

	w.Assoc("p1")

	cp := uint64(rng.Int63())
	ue := uint32(0x0AC80000 + rng.Intn(1<<12)<<4)
	teid := uint32(0x5000 + rng.Intn(1<<20))

	// one session per description: an uplink and a downlink PDR carry it; the session is deleted again
	runSession := func(mk func(p *pfcpx.PDR), withUE bool) {
		if w.Died {
			return
		}

		cp++
		ue++
		teid += 3

		r := &e2e.SessReq{CP: cp}
		ul := pfcpx.PDR{ID: 1, Prec: 100, Src: "access", FTEID: "explicit", TunIP: w.AccessIP, TEID: teid, UE: "explicit", UEIP: ue, OHR: true, FAR: 1}
		dl := pfcpx.PDR{ID: 2, Prec: 100, Src: "core", FTEID: "none", UE: "explicit", UEIP: ue, FAR: 2}

		if !withUE {
			ul.UE, dl.UE = "none", "none"
		}

		mk(&ul)
		mk(&dl)

		r.CPDR = []pfcpx.PDR{ul, dl}
		r.CFAR = []pfcpx.FAR{{ID: 1, Action: 2, HasFP: true, Dst: "core"}, {ID: 2, Action: 0x0c}}

		ds := w.Estab("p1", r)
		if len(ds) >= 1 && ds[0].Cause == 1 && ds[0].HasFSEID {
			w.Del("p1", &e2e.SessReq{Hdr: ds[0].UPSeid})
		}
	}

	// (1) every form of the grammar: action x direction x protocol x (src kind x src ports) x (dst kind x dst ports)
	idx := 0

	for a := 0; a < 2; a++ {
		for d := 0; d < 2; d++ {
			for pr := 0; pr < 4; pr++ {
				for sk := 0; sk < 3; sk++ {
					for sp := 0; sp < 3; sp++ {
						for dk := 0; dk < 3; dk++ {
							for dp := 0; dp < 3; dp++ {
								idx++
								if idx%p.NShards != p.Shard {
									continue
								}

								for e := 0; e < p.Embed; e++ {
									f := pfcpx.Flow{Action: []string{"permit", "deny"}[a], Dir: []string{"in", "out"}[d], Proto: []string{"ip", "tcp", "udp", "number"}[pr],
										ProtoN: []int{0, 1, 6, 17, 132, 254, 255}[rng.Intn(7)]}
									f.Src, f.Dst = formEndpoint(rng, sk, sp), formEndpoint(rng, dk, dp)
									ff := f
									runSession(func(p *pfcpx.PDR) { p.SDF = &ff }, rng.Intn(8) != 0)
									sum.Stats["form"]++
								}
							}
						}
					}
				}
			}
		}
	}

	// (2) structurally malformed descriptions: refused, or ignored (UE address only)
	for i := 0; i < p.Corrupt && !w.Died; i++ {
		f := pfcpx.Flow{Action: "permit", Dir: "out", Proto: []string{"ip", "tcp", "udp"}[rng.Intn(3)]}
		f.Src, f.Dst = formEndpoint(rng, rng.Intn(3), rng.Intn(3)), formEndpoint(rng, rng.Intn(3), rng.Intn(3))
		txt := corruptText(rng, f)
		runSession(func(p *pfcpx.PDR) { p.SDFText = txt }, true)
		sum.Stats["corrupt"]++
	}

	// (3) PFD provisioning sequences followed by PDRs that name application ids
	for i := 0; i < p.PfdSeqs && !w.Died; i++ {
		mkFlow := func(dir string) pfcpx.Flow {
			f := pfcpx.Flow{Action: "permit", Dir: dir, Proto: []string{"ip", "tcp", "udp"}[rng.Intn(3)]}
			f.Src, f.Dst = formEndpoint(rng, 2, rng.Intn(3)), formEndpoint(rng, 1+rng.Intn(2), 0)

			if f.Src.Ports != "none" {
				f.Dst.Ports = "none"
			}

			return f
		}

		var apps []e2e.App

		names := []string{"appA", "appB", "appC"}
		for _, n := range names[:1+rng.Intn(3)] {
			a := e2e.App{ID: n}
			for k := 0; k < 1+rng.Intn(3); k++ {
				a.Flows = append(a.Flows, mkFlow([]string{"in", "out"}[rng.Intn(2)]))
			}

			if rng.Intn(6) == 0 { // an unparsable description among them
				a.Texts = make([]string, len(a.Flows))
				a.Texts[rng.Intn(len(a.Flows))] = "permit out ip from 1.2.3 to assigned"
			}

			apps = append(apps, a)
		}

		w.Pfd("p1", apps)
		sum.Stats["pfd"]++

		use := func(name string) {
			runSession(func(p *pfcpx.PDR) { p.AppID = name }, true)
		}

		for _, n := range names {
			use(n) // names that were not provisioned must be refused
		}

		if rng.Intn(2) == 0 {
			// a request that is rejected (empty flow description) leaves the table as it was
			// (the offending entry is new, or carries the name of a provisioned application; it comes first or after
			// entries that were already taken over when the request is refused)
			badID := "appZ"
			if rng.Intn(2) == 0 {
				badID = apps[rng.Intn(len(apps))].ID
			}

			var bad []e2e.App

			if rng.Intn(2) == 0 {
				bad = append(bad, e2e.App{ID: "appY", Flows: []pfcpx.Flow{mkFlow("out")}})
				if len(apps) > 1 && apps[len(apps)-1].ID != badID && rng.Intn(2) == 0 {
					bad = append(bad, e2e.App{ID: apps[len(apps)-1].ID, Flows: []pfcpx.Flow{mkFlow("in")}})
				}
			}

			bad = append(bad, e2e.App{ID: badID, Flows: []pfcpx.Flow{mkFlow("out")}, Texts: []string{""}})
			w.PfdRaw("p1", bad, true)
			sum.Stats["pfd_rejected"]++

			for _, n := range names {
				use(n)
			}

			use("appZ")
			use("appY")
		}

		if rng.Intn(3) == 0 {
			// a request without any application withdraws every PFD: the names are unknown again
			w.Pfd("p1", nil)
			sum.Stats["pfd_withdraw_all"]++

			for _, n := range names {
				use(n)
			}
		}

		if rng.Intn(2) == 0 {
			// application id together with an inline filter
			f := mkFlow("out")
			n := names[rng.Intn(len(names))]
			runSession(func(p *pfcpx.PDR) { p.AppID, p.SDF = n, &f }, true)
		}
	}

	sum.Scenarios = 1
	sum.Lines, sum.Steps, sum.Accepted, sum.Died = w.Lines, w.Steps, w.Accepted, w.Died

	return nil
}

// C08: SDF filters and PFD-backed application IDs mean what they say.
func C08(c *core.Ctx) {
	c.SetCov("rule", "every form of the IPFilterRule grammar (2 actions x 2 directions x 4 protocol forms x {any, assigned, prefix} x {no port, port, range} per endpoint = 1 296 forms, "+
		"each on an uplink and a downlink PDR) with seeded concrete addresses, prefix lengths 0..32 and boundary ports; structurally malformed descriptions built by construction (unknown action / "+
		"direction, unparsable address or port, inverted range, missing from/to part); PFD provisioning sequences (replace, reject, unparsable entries) followed by PDRs naming application ids; "+
		"the pdrLookup entries are judged against Pfcp!PdrFilter; evaluations = script steps")

	nshards, embed, corrupt, pfd := 8, 1, 60, 12
	if c.Thorough() {
		nshards, embed, corrupt, pfd = 14, 10, 1500, 300
	}

	nup4 := 2
	if c.Thorough() {
		nup4 = 6
	}

	res := runE2EMixed(c, nshards+nup4, "TraceE2E_C08.cfg", func(i int) (string, interface{}) {
		dir, trace := shardDir(c, i)
		if i >= nshards { // UP4: inline filters and PFD-provisioned applications become applications entries
			return "e2e-up4", Up4Params{Dir: dir, Trace: trace, AgentBin: filepath.Join(c.BinDir, "verif-agent"), N4Addr: n4For(i), Seed: c.Seed*1000 + 880 + int64(i),
				Scenarios: 4, Steps: 30, Pfd: true} // (no boundary precedences: UP4 refuses some of them, which is not about the application)
		}

		return "e2e-forms", FormParams{Dir: dir, Trace: trace, AgentBin: filepath.Join(c.BinDir, "verif-agent"), N4Addr: n4For(i), Seed: c.Seed*1000 + 80 + int64(i),
			Shard: i, NShards: nshards, Embed: embed, Corrupt: corrupt, PfdSeqs: pfd}
	})
	judgeE2E(c, res, map[string]bool{"InEnvelope": true, "EnvDistinctMatchKeys": true, "Up4Envelope": true})
}

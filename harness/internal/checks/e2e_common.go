package checks

import (
	"bytes"
	"encoding/json"
	"fmt"
	"os"
	"path/filepath"
	"strings"
	"sync"
	"time"

	"verif/harness/internal/core"
)

// e2eShard is the result of one worker + validation.
type e2eShard struct {
	idx   int
	trace string
	wr    *core.WorkerResult
	tr    *core.TLCResult
	sum   E2ESummary
	err   error
	// werr: the worker gave up in a controlled way (exit 65) after recording part of its script; what it
	// recorded is still validated, and a violation found in it counts (every line is a complete observation)
	werr error
}

// n4For returns a loopback address private to this check run and shard.
func n4For(shard int) string {
	pid := os.Getpid()
	return fmt.Sprintf("127.%d.%d.%d", 1+(pid/250)%120, 1+pid%250, 1+shard)
}

// runE2EShards runs nshards workers (each driving its own agent) and validates each trace with the
// given cfg of module TraceE2E. mk returns the parameters of shard i.
func runE2EShards(c *core.Ctx, task string, nshards int, cfg string, mk func(i int) interface{}) []e2eShard {
	return runE2EMixed(c, nshards, cfg, func(i int) (string, interface{}) { return task, mk(i) })
}

// runE2EMixed is runE2EShards with a worker task per shard.
func runE2EMixed(c *core.Ctx, nshards int, cfg string, mk func(i int) (string, interface{})) []e2eShard {
	if c.ReplayDir != "" {
		return replayE2E(c, cfg)
	}

	res := make([]e2eShard, nshards)

	var wg sync.WaitGroup

	sem := make(chan struct{}, 14)

	for i := 0; i < nshards; i++ {
		wg.Add(1)

		go func(i int) {
			defer wg.Done()

			sem <- struct{}{}

			defer func() { <-sem }()

			r := &res[i]
			r.idx = i
			task, params := mk(i)
			pb, _ := json.Marshal(params)

			var pm map[string]interface{}
			_ = json.Unmarshal(pb, &pm)
			r.trace, _ = pm["trace"].(string)
			r.wr = c.RunWorker(30*time.Minute, task, string(pb))

			// A worker that gave up on its own (exit 65: the harness' side of a timing assumption did not hold, typically on a
			// loaded machine) is run once more from scratch. What the first attempt recorded is still judged: a violation in it counts.
			var first string

			if r.wr.ExitCode == 65 && !r.wr.TimedOut {
				if st, err := os.Stat(r.trace); err == nil && st.Size() > 0 {
					first = r.trace + ".attempt1"
					_ = os.Rename(r.trace, first)
				}

				_ = os.Remove(r.trace + ".summary")
				c.Logf("shard %d: worker gave up (%s), second attempt", i, tail(r.wr.Stderr, 200))
				r.wr = c.RunWorker(30*time.Minute, task, string(pb))
			}

			// A trace in which the agent's one-second budget for programming the BESS datapath ran out (a loaded machine: the
			// agent then answers as if it had programmed the request) is not judged; the shard is run once more. If the second
			// attempt shows the same, it is not the machine: that attempt is judged as it is.
			if first == "" && r.wr.ExitCode == 0 && !r.wr.TimedOut && traceHas(r.trace, `"dpTimeout":true`) {
				c.Logf("shard %d: the agent's datapath budget ran out during the run, second attempt", i)
				_ = os.Rename(r.trace, r.trace+".dptimeout")
				_ = os.Remove(r.trace + ".summary")
				r.wr = c.RunWorker(30*time.Minute, task, string(pb))
			}

			if first != "" {
				if f, err := os.OpenFile(first, os.O_APPEND|os.O_WRONLY, 0o644); err == nil {
					_, _ = f.WriteString("{\"ev\":\"end\"}\n")
					f.Close()
				}

				devs := c.Findings.OpenIDs(c.Prop)
				if devs == nil {
					devs = []string{}
				}

				tr1, err1 := c.RunTLC(core.TLCRun{Module: "TraceE2E", Cfg: cfg, Workers: 1, HeapMB: 3000, Timeout: 40 * time.Minute,
					Env: map[string]string{"TRACE_FILE": first}, Label: fmt.Sprintf("validate-%d-attempt1", i), KnownDevs: devs})
				if err1 == nil && tr1 != nil && tr1.Violated != "" {
					// the first attempt's history shows a violation: that is the shard's result
					r.trace, r.tr = first, tr1
					if b, err := os.ReadFile(r.trace + ".summary"); err == nil {
						_ = json.Unmarshal(b, &r.sum)
					}

					return
				}
			}

			if b, err := os.ReadFile(r.trace + ".summary"); err == nil {
				_ = json.Unmarshal(b, &r.sum)
			}

			if r.wr.ExitCode != 0 || r.wr.TimedOut {
				werr := fmt.Errorf("worker failed: exit=%d timeout=%v err=%q: %s", r.wr.ExitCode, r.wr.TimedOut, r.sum.Err, tail(r.wr.Stderr, 600))

				if st, err := os.Stat(r.trace); r.wr.ExitCode != 65 || r.wr.TimedOut || err != nil || st.Size() == 0 {
					r.err = werr
					return
				}

				r.werr = werr
			}

			if st, err := os.Stat(r.trace); err != nil || st.Size() == 0 {
				r.err = fmt.Errorf("worker produced no trace")
				return
			}

			// every trace ends with an "end" line (see TraceE2E!EndEv)
			if f, err := os.OpenFile(r.trace, os.O_APPEND|os.O_WRONLY, 0o644); err == nil {
				_, _ = f.WriteString("{\"ev\":\"end\"}\n")
				f.Close()
			}

			devs := c.Findings.OpenIDs(c.Prop)
			if devs == nil {
				devs = []string{}
			}

			r.tr, r.err = c.RunTLC(core.TLCRun{Module: "TraceE2E", Cfg: cfg, Workers: 1, HeapMB: 3000, Timeout: 40 * time.Minute,
				Env: map[string]string{"TRACE_FILE": r.trace}, Label: fmt.Sprintf("validate-%d", i), KnownDevs: devs})
		}(i)
	}

	wg.Wait()

	return res
}

// judgeE2E turns shard results into verdicts and evidence. structural: invariants whose failure is a
// harness matter (exit 2), not a property verdict.
func judgeE2E(c *core.Ctx, res []e2eShard, structural map[string]bool) {
	for _, r := range res {
		if r.err != nil {
			c.Inconclusive("shard %d: %v", r.idx, r.err)
			continue
		}

		c.AddCount("evaluations", int64(r.sum.Steps))
		c.AddCount("distinct_nontrivial", int64(r.sum.Accepted))
		addTraceSamples(c, r.trace)
		c.AddCount("scenarios", int64(r.sum.Scenarios))
		c.AddTLC("validate", r.tr)

		for _, id := range r.tr.UsedFindings() {
			c.Known(id, c.Findings.Describe(id))
		}

		for k, v := range r.sum.Stats {
			c.AddCount("steps_"+k, int64(v))
		}

		switch {
		case r.werr != nil && (r.tr.Violated == "" || structural[r.tr.Violated]) && !r.tr.PostFailed:
			c.Inconclusive("shard %d: %v", r.idx, r.werr)
		case r.tr.Violated != "" && structural[r.tr.Violated]:
			c.Inconclusive("shard %d: structural check %s failed at trace line %d (generator left its envelope)", r.idx, r.tr.Violated, traceLineOfFailure(r.tr))
		case r.tr.Violated != "" || r.tr.PostFailed:
			lineNo := traceLineOfFailure(r.tr)
			line := readLine(r.trace, lineNo)
			what := r.tr.Violated

			if what == "" {
				what = "event not explained by the specification"

				if strings.Contains(line, `"ev":"died"`) {
					what = "the agent process died"
				}
			}

			files := map[string]string{"tlc.out": r.tr.OutputPath, "trace.ndjson": r.trace}
			dir := c.SaveReplay(fmt.Sprintf("shard%d", r.idx), files,
				map[string][]byte{"failing_line.ndjson": []byte(line + "\n"), "worker.stderr": []byte(r.wr.Stderr),
					"prev_line.ndjson": []byte(readLine(r.trace, lineNo-1) + "\n")})
			c.Violate(fmt.Sprintf("%s at trace line %d: %s", what, lineNo, trunc(line, 700)), dir)
		case !r.tr.OK():
			keep := c.SaveReplay(fmt.Sprintf("inconclusive-shard%d", r.idx), map[string]string{"tlc.out": r.tr.OutputPath}, nil)
			c.Inconclusive("shard %d: TLC validation did not complete (err=%q timeout=%v, output kept in %s)", r.idx, r.tr.ErrorText, r.tr.TimedOut, keep)
		default:
			c.AddCount("traces_validated_against_impl", 1)
		}
	}
}

// addTraceSamples copies a few recorded steps into the evidence (AddSample keeps the first eight).
func addTraceSamples(c *core.Ctx, trace string) {
	for _, n := range []int{2, 3} {
		if ln := readLine(trace, n); ln != "" {
			var v map[string]interface{}
			if len(ln) < 20000 && json.Unmarshal([]byte(ln), &v) == nil {
				delete(v, "dp") // the table dump is large; the request and the responses show what a step looks like
				c.AddSample(v)
			} else {
				c.AddSample(trunc(ln, 1500))
			}
		}
	}
}

func trunc2(s string, n int) string {
	if len(s) > n {
		return "\"" + strings.ReplaceAll(s[:n], "\"", "'") + "...\""
	}

	return s
}

func shardDir(c *core.Ctx, i int) (string, string) {
	d := filepath.Join(c.Scratch, fmt.Sprintf("shard%d", i))
	_ = os.MkdirAll(d, 0o755)

	return d, filepath.Join(d, "trace.ndjson")
}

// replayE2E validates the trace stored in a replay directory again (bin/check <ID> <tier> --replay <dir>): the
// recorded observations of the real agent are judged by the current specification and known-findings list.
func replayE2E(c *core.Ctx, cfg string) []e2eShard {
	r := e2eShard{idx: 0, wr: &core.WorkerResult{}}
	src := filepath.Join(c.ReplayDir, "trace.ndjson")

	b, err := os.ReadFile(src)
	if err != nil {
		r.err = fmt.Errorf("replay: %v", err)
		return []e2eShard{r}
	}

	dir, trace := shardDir(c, 0)
	_ = dir

	if !strings.HasSuffix(strings.TrimSpace(string(b)), `{"ev":"end"}`) {
		b = append(b, []byte("{\"ev\":\"end\"}\n")...)
	}

	if err := os.WriteFile(trace, b, 0o644); err != nil {
		r.err = err
		return []e2eShard{r}
	}

	r.trace = trace
	r.sum.Steps = strings.Count(string(b), "\n")

	devs := c.Findings.OpenIDs(c.Prop)
	if devs == nil {
		devs = []string{}
	}

	r.tr, r.err = c.RunTLC(core.TLCRun{Module: "TraceE2E", Cfg: cfg, Workers: 1, HeapMB: 3000, Timeout: 40 * time.Minute,
		Env: map[string]string{"TRACE_FILE": trace}, Label: "replay", KnownDevs: devs})

	return []e2eShard{r}
}

// traceHas reports whether the trace file contains the given text.
func traceHas(path, what string) bool {
	b, err := os.ReadFile(path)
	return err == nil && bytes.Contains(b, []byte(what))
}

package checks

import (
	"bufio"
	"encoding/json"
	"fmt"
	"math/rand"
	"net"
	"os"
	"path/filepath"
	"sort"
	"strconv"
	"sync"
	"sync/atomic"
	"time"

	"github.com/omec-project/upf-epc/pfcpiface"

	"verif/harness/internal/core"
	"verif/harness/internal/e2e"
	"verif/harness/internal/pfcpx"
)

func init() {
	Checks["C06"] = C06
	Workers["c06"] = c06Worker
}

type c06Line struct {
	Op  string `json:"op"`
	G   int    `json:"g"`
	Fn  string `json:"fn"`
	S   string `json:"s"`
	Ok  bool   `json:"ok"`
	IP  []int  `json:"ip"`
	Net []int  `json:"net"`
	Len int    `json:"len"`
}

type c06Summary struct {
	Lines    int64 `json:"lines"`
	Calls    int64 `json:"calls"`
	Seqs     int64 `json:"seqs"`
	Conc     int64 `json:"conc"`
	Refusals int64 `json:"refusals"`
}

// c06Worker args: <outfile> <mode seq|prefix|conc> <tier> <seed> <shard> <nshards>
func c06Worker(args []string) error {
	if len(args) != 6 {
		return fmt.Errorf("c06 worker: want 6 args")
	}

	out, mode, tier := args[0], args[1], args[2]
	seed, _ := strconv.ParseInt(args[3], 10, 64)
	shard, _ := strconv.Atoi(args[4])
	nshards, _ := strconv.Atoi(args[5])

	f, err := os.Create(out)
	if err != nil {
		return err
	}
	defer f.Close()

	w := bufio.NewWriterSize(f, 1<<20)
	defer w.Flush()

	enc := json.NewEncoder(w)
	sum := c06Summary{}
	emit := func(l c06Line) {
		if l.IP == nil {
			l.IP = pfcpx.V32(0)
		}

		if l.Net == nil {
			l.Net = pfcpx.V32(0)
		}

		sum.Lines++
		_ = enc.Encode(l)
	}
	newPool := func(cidr string) *pfcpiface.IPPool {
		p, err := pfcpiface.NewIPPool(cidr)
		l := c06Line{Op: "new", Ok: err == nil && p != nil, Len: 32}

		if _, n, e := net.ParseCIDR(cidr); e == nil && n.IP.To4() != nil {
			l.Net = pfcpx.V32(uint64(pfcpx.IP4(n.IP)))
			l.Len, _ = n.Mask.Size()
		} else {
			l.Len = 32
		}

		emit(l)

		if err != nil {
			return nil
		}

		return p
	}
	call := func(p *pfcpiface.IPPool, fn string, s uint64) c06Line {
		l := c06Line{Op: "call", Fn: fn, S: fmt.Sprintf("s%d", s)}

		if fn == "alloc" {
			ip, err := p.LookupOrAllocIP(s)
			l.Ok = err == nil

			if err == nil {
				l.IP = pfcpx.V32(uint64(pfcpx.IP4(ip)))
			} else {
				atomic.AddInt64(&sum.Refusals, 1)
			}
		} else {
			l.Ok = p.DeallocIP(s) == nil
		}

		atomic.AddInt64(&sum.Calls, 1) // (called from concurrent goroutines in mode conc)

		return l
	}

	rng := rand.New(rand.NewSource(seed*131 + int64(shard)))

	switch mode {
	case "seq":
		// bounded-exhaustive: every sequence of L calls over alloc/free x 3 sessions on a /30 pool (2 addresses),
		// and every sequence of L-1 calls x 4 sessions on a /29 pool restricted to its first calls
		L := 5
		if tier == "thorough" {
			L = 7
		}

		nops := 6
		total := 1

		for i := 0; i < L; i++ {
			total *= nops
		}

		for k := shard; k < total; k += nshards {
			p := newPool("10.60.0.0/30")
			x := k

			for i := 0; i < L; i++ {
				op := x % nops
				x /= nops
				fn := "alloc"

				if op >= 3 {
					fn = "free"
				}

				emit(call(p, fn, uint64(1+op%3)))
			}

			sum.Seqs++
		}
	case "prefix":
		// every prefix /30 .. /16 (and the degenerate / malformed ones for crash freedom), seeded sequences with more sessions than addresses
		for ln := 30; ln >= 16; ln-- {
			if (30-ln)%nshards != shard%nshards && nshards > 1 {
				continue
			}

			p := newPool(fmt.Sprintf("10.%d.%d.%d/%d", 60+ln, rng.Intn(256), rng.Intn(256), ln))
			if p == nil {
				continue
			}

			size := (1 << (32 - ln)) - 2
			nsess := size + 3
			calls := 4 * size

			if calls > 6000 {
				calls = 6000
			}

			if ln >= 26 { // small pools: drive them to exhaustion and back several times
				calls = 12 * size
			}

			for i := 0; i < calls; i++ {
				s := uint64(1 + rng.Intn(nsess))
				if size > 2000 {
					s = uint64(1 + rng.Intn(3000))
				}

				fn := "alloc"
				if rng.Intn(3) == 0 {
					fn = "free"
				}

				emit(call(p, fn, s))
			}

			sum.Seqs++
		}

		if shard == 0 {
			for _, c := range []string{"10.1.1.0/31", "10.1.1.1/32", "", "10.1.1.0", "300.1.1.0/24", "10.1.1.0/33", "2001:db8::/126", "2001:db8::/64x", "10.1.1.0/-1"} {
				newPool(c)
			}
		}
	case "conc":
		// concurrent histories: G goroutines x K calls on small pools; invocation and response are stamped with a
		// counter outside the pool, so the recorded order is the real-time order of the call boundaries
		runs := 120
		if tier == "thorough" {
			runs = 1500
		}

		for r := 0; r < runs; r++ {
			ln := []int{30, 29, 28, 27}[rng.Intn(4)]
			G := 3 + rng.Intn(4)
			K := 4 + rng.Intn(5)
			burst := r%2 == 0 // all goroutines start together and mostly allocate for fresh sessions

			if tier == "thorough" && r%10 == 0 {
				G, K = 8, 10
			}

			p := newPool(fmt.Sprintf("10.77.%d.0/%d", rng.Intn(256), ln))
			size := (1 << (32 - ln)) - 2

			type ev struct {
				stamp int64
				line  c06Line
			}

			var (
				ctr int64
				mu  sync.Mutex
				evs []ev
				wg  sync.WaitGroup
			)

			// release storms: one goroutine allocates for a session, then all goroutines release that session at the same moment
			// (a Session Deletion racing the teardown of its association): exactly one of them gives the address back
			if r%5 == 4 {
				rec := func(g int, fn string, s uint64) {
					t0 := atomic.AddInt64(&ctr, 1)
					l := call(p, fn, s)
					t1 := atomic.AddInt64(&ctr, 1)
					inv := l
					inv.Op, inv.G = "inv", g+1
					res := c06Line{Op: "res", G: g + 1, Fn: fn, S: l.S}

					mu.Lock()
					evs = append(evs, ev{t0, inv}, ev{t1, res})
					mu.Unlock()
				}

				for round := 0; round < 250; round++ {
					sess := uint64(5000 + round)
					rec(0, "alloc", sess)

					gate := make(chan struct{})

					for g := 0; g < G; g++ {
						wg.Add(1)

						go func(g int) {
							defer wg.Done()
							<-gate
							rec(g, "free", sess)
						}(g)
					}

					close(gate)
					wg.Wait()
				}

				sort.Slice(evs, func(i, j int) bool { return evs[i].stamp < evs[j].stamp })

				for _, e := range evs {
					emit(e.line)
				}

				sum.Conc++

				continue
			}

			seeds := make([]int64, G)
			for g := range seeds {
				seeds[g] = rng.Int63()
			}

			start := make(chan struct{})

			for g := 0; g < G; g++ {
				wg.Add(1)

				go func(g int) {
					defer wg.Done()

					lr := rand.New(rand.NewSource(seeds[g]))

					<-start

					for k := 0; k < K; k++ {
						s := uint64(1 + lr.Intn(size+2))
						fn := "alloc"

						if burst {
							s = uint64(1000*(g+1) + k%3)
							if k%3 == 2 || lr.Intn(5) == 0 {
								fn = "free"
								s = uint64(1000*(g+1) + lr.Intn(2))
							}
						} else if lr.Intn(3) == 0 {
							fn = "free"
						}

						t0 := atomic.AddInt64(&ctr, 1)
						l := call(p, fn, s)
						t1 := atomic.AddInt64(&ctr, 1)
						inv := l
						inv.Op, inv.G = "inv", g+1
						res := c06Line{Op: "res", G: g + 1, Fn: fn, S: l.S}

						mu.Lock()
						evs = append(evs, ev{t0, inv}, ev{t1, res})
						mu.Unlock()

						if !burst && lr.Intn(4) == 0 {
							time.Sleep(time.Duration(lr.Intn(50)) * time.Microsecond)
						}
					}
				}(g)
			}

			close(start)
			wg.Wait()
			sort.Slice(evs, func(i, j int) bool { return evs[i].stamp < evs[j].stamp })

			for _, e := range evs {
				emit(e.line)
			}

			sum.Conc++
		}
	}

	w.Flush()

	sb, _ := json.Marshal(sum)

	return os.WriteFile(out+".summary", sb, 0o644)
}

// C06: UE IP pool: in range, exclusive, sticky, conserved.
func C06(c *core.Ctx) {
	c.SetCov("rule", "model: complete state graphs of the FIFO pool as coded for 2 and 4 usable addresses refine the set-based allocator; implementation: (seq) every sequence of L calls "+
		"over {alloc,free} x 3 sessions on a real /30 pool (L=5 quick, 7 thorough), (prefix) seeded sequences on every prefix /30../16 with more sessions than addresses, (conc) concurrent goroutines "+
		"with linearisation search; every call/return is a trace line judged by TLC; distinct_nontrivial = call sequences / concurrent histories")
	c.Assume("concurrent histories: invocation and response are stamped by an atomic counter outside the pool; TLC searches a linearisation of the set-based allocator")

	var wg sync.WaitGroup

	for _, cfg := range []string{"MCIPPool.cfg", "MCIPPool6.cfg"} {
		wg.Add(1)

		go func(cfg string) {
			defer wg.Done()

			r, err := c.RunTLC(core.TLCRun{Module: "MCIPPool", Cfg: cfg, Workers: 4, HeapMB: 2048, Timeout: 10 * time.Minute, Label: "mc"})
			if err != nil {
				c.Inconclusive("TLC could not run %s: %v", cfg, err)
				return
			}

			c.AddTLC("mc", r)

			if !r.OK() {
				c.Inconclusive("model check %s did not pass (violated=%q err=%q): the pool model needs attention", cfg, r.Violated, r.ErrorText)
			}
		}(cfg)
	}

	type job struct {
		mode          string
		shard, nshard int
	}

	var jobs []job

	nseq := 6
	if c.Thorough() {
		nseq = 12
	}

	for i := 0; i < nseq; i++ {
		jobs = append(jobs, job{"seq", i, nseq})
	}

	for i := 0; i < 3; i++ {
		jobs = append(jobs, job{"prefix", i, 3})
	}

	nconc := 3
	if c.Thorough() {
		nconc = 8
	}

	for i := 0; i < nconc; i++ {
		jobs = append(jobs, job{"conc", i, nconc})
	}

	// the same concurrent histories under the race detector (shard numbers beyond nconc: other seeds); a report is an
	// observation no action of the trace specification consumes
	nrace := 2
	if c.Thorough() {
		nrace = 4
	}

	for i := 0; i < nrace; i++ {
		jobs = append(jobs, job{"conc-race", nconc + i, nconc + nrace})
	}

	sem := make(chan struct{}, 14)

	for ji, j := range jobs {
		wg.Add(1)

		go func(ji int, j job) {
			defer wg.Done()

			sem <- struct{}{}

			defer func() { <-sem }()

			trace := filepath.Join(c.Scratch, fmt.Sprintf("c06-%s-%d.ndjson", j.mode, j.shard))
			var wr *core.WorkerResult

			raceNote := ""

			if j.mode == "conc-race" {
				j.mode = "conc"
				wr = c.RunWorkerBin(filepath.Join(c.BinDir, "vcheck-race"), []string{"GORACE=halt_on_error=1 exitcode=66"}, 20*time.Minute, "c06", trace, "conc", c.Tier,
					strconv.FormatInt(c.Seed, 10), strconv.Itoa(j.shard), strconv.Itoa(j.nshard))

				if rs := e2e.RaceReports(wr.Stderr); len(rs) > 0 {
					// the detector stopped the worker at its first report
					// (the worker was stopped in the middle of its buffered output: the trace consists of the report alone)
					_ = os.WriteFile(trace, []byte(fmt.Sprintf("{\"op\":\"race\",\"pair\":%q}\n", rs[0])), 0o644)

					raceNote = "data race reported by the race detector: " + rs[0]
					wr.ExitCode = 0
				}
			} else {
				wr = c.RunWorker(20*time.Minute, "c06", trace, j.mode, c.Tier, strconv.FormatInt(c.Seed, 10), strconv.Itoa(j.shard), strconv.Itoa(j.nshard))
			}

			if wr.Panic != "" && wr.Site != "unknown" {
				f, _ := os.OpenFile(trace, os.O_APPEND|os.O_WRONLY|os.O_CREATE, 0o644)
				fmt.Fprintf(f, "{\"op\":\"died\",\"site\":%q,\"panic\":%q}\n", wr.Site, wr.Panic)
				f.Close()
			} else if wr.ExitCode != 0 || wr.TimedOut {
				c.Inconclusive("%s shard %d: worker failed: exit=%d timeout=%v: %s", j.mode, j.shard, wr.ExitCode, wr.TimedOut, tail(wr.Stderr, 400))
				return
			}

			tr, err := c.RunTLC(core.TLCRun{Module: "TraceC06", Workers: 1, HeapMB: 2500, Timeout: 30 * time.Minute, DFS: j.mode == "conc",
				Env: map[string]string{"TRACE_FILE": trace}, Label: fmt.Sprintf("validate-%s-%d", j.mode, j.shard)})
			if err != nil {
				c.Inconclusive("%s shard %d: %v", j.mode, j.shard, err)
				return
			}

			if b, err := os.ReadFile(trace + ".summary"); err == nil {
				var sum c06Summary
				if json.Unmarshal(b, &sum) == nil {
					c.AddCount("evaluations", sum.Calls)
					c.AddCount("distinct_nontrivial", sum.Seqs+sum.Conc)
					c.AddCount("refusals_seen", sum.Refusals)
					c.AddCount("concurrent_histories", sum.Conc)
				}
			}

			c.AddTLC("validate", tr)

			switch {
			case tr.Violated != "" || tr.PostFailed:
				lineNo := traceLineOfFailure(tr)
				line := readLine(trace, lineNo)
				what := tr.Violated

				if what == "" {
					what = "no linearisation explains the recorded results (or the worker died)"
					if raceNote != "" {
						what = raceNote
					}
				}

				dir := c.SaveReplay(fmt.Sprintf("%s-%d", j.mode, j.shard), map[string]string{"tlc.out": tr.OutputPath, "trace.ndjson": trace},
					map[string][]byte{"failing_line.ndjson": []byte(line + "\n"), "worker.stderr": []byte(wr.Stderr)})
				c.Violate(fmt.Sprintf("%s at trace line %d (%s): %s", what, lineNo, j.mode, trunc(line, 400)), dir)
			case !tr.OK():
				c.Inconclusive("%s shard %d: TLC validation did not complete (err=%q timeout=%v)", j.mode, j.shard, tr.ErrorText, tr.TimedOut)
			default:
				c.AddCount("traces_validated_against_impl", 1)

				if j.shard == 0 {
					var v interface{}
					if json.Unmarshal([]byte(readLine(trace, 2)), &v) == nil {
						c.AddSample(v)
					}
				}
			}
		}(ji, j)
	}

	wg.Wait()
	c.SetCov("exhaustive", false)
}

package checks

import (
	"encoding/json"
	"fmt"
	"math/rand"
	"os"
	"path/filepath"
	"regexp"
	"sort"
	"strings"
	"time"

	"verif/harness/internal/agent"
	"verif/harness/internal/e2e"
)

func init() {
	Workers["e2e-life-scope"] = e2eLifeScopeWorker
}

// LifeScopeParams parameterises the worker that forces the teardown signatures TLC read off the life-cycle model
// (spec/LifeScript.tla) on the real agent.
type LifeScopeParams struct {
	Dir      string `json:"dir"`
	Trace    string `json:"trace"`
	AgentBin string `json:"agentBin"`
	N4Addr   string `json:"n4"`
	Seed     int64  `json:"seed"`
	Sigs     string `json:"sigs"` // file with the signatures (JSON array of strings "G.cause.step,G.cause.step,...")
	Shard    int    `json:"shard"`
	Of       int    `json:"of"`
	Max      int    `json:"max"` // at most this many signatures (0 = all of the shard)
}

var reSigLine = regexp.MustCompile(`^<<"SIG", "([^"]*)">>$`)

// writeSigs extracts the signatures TLC printed (lines <<"SIG", "...">>), keeps those with at least two callers, and
// writes them sorted as JSON.
func writeSigs(tlcOut, dst string) (int, error) {
	b, err := os.ReadFile(tlcOut)
	if err != nil {
		return 0, err
	}

	seen := map[string]bool{}

	for _, ln := range strings.Split(string(b), "\n") {
		if m := reSigLine.FindStringSubmatch(strings.TrimSpace(ln)); m != nil && strings.Contains(m[1], ",") {
			seen[m[1]] = true
		}
	}

	var sigs []string
	for s := range seen {
		sigs = append(sigs, s)
	}

	sort.Strings(sigs)

	jb, _ := json.Marshal(sigs)

	return len(sigs), os.WriteFile(dst, jb, 0o644)
}

type sigCall struct{ g, cause, step string }

// gate of the trigger of a caller (where the goroutine is parked before it calls Shutdown) and of a teardown step
// (where the running teardown is parked while the next caller calls)
var (
	triggerGate = map[string]string{"ctx": "conn.serve.ctx", "tmo": "conn.serve.timeout", "dead": "conn.hb.dead"}
	stepGate    = map[string]string{"close": "conn.shutdown.enter", "hb": "conn.shutdown.closed", "sess": "conn.shutdown.session",
		"send": "conn.shutdown.beforeDone", "sockclose": "conn.shutdown.afterDone"}
	stepOrder = map[string]int{"idle": 0, "close": 1, "hb": 2, "sess": 3, "send": 4, "sockclose": 5, "done": 6}
)

func e2eLifeScopeWorker(args []string) error {
	var p LifeScopeParams
	if err := json.Unmarshal([]byte(args[0]), &p); err != nil {
		return err
	}

	rng := rand.New(rand.NewSource(p.Seed))
	sum := E2ESummary{Stats: map[string]int{}}

	defer func() {
		b, _ := json.Marshal(sum)
		_ = os.WriteFile(p.Trace+".summary", b, 0o644)
	}()

	var sigs []string

	if b, err := os.ReadFile(p.Sigs); err != nil || json.Unmarshal(b, &sigs) != nil {
		sum.Err = "cannot read the generated signatures"
		return nil
	}

	// a seeded rotation, so that a bounded quick run sees different signatures with different seeds
	rng.Shuffle(len(sigs), func(i, j int) { sigs[i], sigs[j] = sigs[j], sigs[i] })

	done := 0

	for si, sig := range sigs {
		if p.Of > 1 && si%p.Of != p.Shard {
			continue
		}

		if p.Max > 0 && done >= p.Max {
			break
		}

		var calls []sigCall

		for _, e := range strings.Split(sig, ",") {
			f := strings.Split(e, ".")
			if len(f) != 3 {
				continue
			}

			calls = append(calls, sigCall{f[0], f[1], f[2]})
		}

		if len(calls) < 2 {
			continue
		}

		if err := forceSignature(&p, rng, &sum, si, sig, calls); err != nil {
			sum.Err = err.Error()
			return err
		}

		done++
	}

	return nil
}

// forceSignature runs one agent incarnation: an association with three sessions; every caller of the signature is
// parked at the gate of its trigger; the first caller is let go and its teardown runs up to the gate of the step at which
// the next caller calls; that caller is let go; and so on.  What the agent did is recorded as usual: the end of the
// association ("lost"), a fresh association of the same peer, the stop.
func forceSignature(p *LifeScopeParams, rng *rand.Rand, sum *E2ESummary, idx int, sig string, calls []sigCall) error {
	has := func(cause string) bool {
		for _, c := range calls {
			if c.cause == cause {
				return true
			}
		}

		return false
	}

	cfg := agent.Cfg{N4Addr: p.N4Addr, Datapath: "bess", LogLevel: "warn", ReadTimeout: 30, RespTimeout: "40ms", MaxReqRetries: 1, HBTimer: has("dead"), HBInterval: "70ms"}
	if has("tmo") {
		cfg.ReadTimeout = 1
	}

	w, err := e2e.NewWorld(filepath.Join(p.Dir, fmt.Sprintf("sig%d", idx)), p.AgentBin, p.Trace, cfg, int(p.Seed%1000)*1000+idx+1)
	if err != nil {
		return err
	}
	defer w.Close()

	if err := w.StartAgent(); err != nil {
		return err
	}

	pp := w.Peer("p1")
	pp.SetAutoHB(true)
	w.Assoc("p1")

	for i := 0; i < 3; i++ {
		w.Estab("p1", simpleSession(uint64(rng.Int63()), 0x0AE20001+uint32(i), 1))
	}

	if w.Died {
		return nil
	}

	addr := pp.LocalAddr()
	errs0 := w.Bess.Snapshot().Errs
	before := w.TeardownCount("p1")
	degraded := func(why string) {
		sum.Stats["degraded"]++

		if sum.Stats["degraded"] == 1 {
			sum.Stats["first_degraded_sig"] = idx
		}

		_ = why
	}

	// the process must outlive the script: the node is held before its exit
	if has("ctx") {
		_ = w.Agent.Gate("node.stop.beforeExit", true)
	}

	// 1. every caller with a gate of its own is parked there (heartbeat monitor first: it needs a running process and a
	// silent peer; then the read time-out, which needs the same silence; the stop signal last)
	parked := map[int]int{} // index of the call -> event number of its parked goroutine

	for _, cause := range []string{"dead", "tmo", "ctx"} {
		for ci, c := range calls {
			if c.cause != cause {
				continue
			}

			_ = w.Agent.Gate(triggerGate[cause], true)

			limit := 3 * time.Second

			switch cause {
			case "dead":
				pp.SetAutoHB(false)
			case "tmo":
				pp.SetAutoHB(false)
				limit = 4 * time.Second
			case "ctx":
				w.Agent.Term()
			}

			if id := w.WaitParked(triggerGate[cause], addr, 1, limit); id != 0 {
				parked[ci] = id
			} else {
				degraded("caller " + cause + " never reached its gate")
			}
		}
	}

	letGo := func(ci int) {
		c := calls[ci]
		if c.cause == "release" {
			_ = pp.Send(messageRelease(pp))
			return
		}

		if id, ok := parked[ci]; ok {
			_ = w.Agent.Go(id)
		}
	}

	// 2. the callers call in the order of the signature; the running teardown is held at the step named by the next caller
	var held int // event number of the teardown parked at a step gate (0 = none)

	armed := ""

	for ci := range calls {
		if ci > 0 {
			step := calls[ci].step

			switch {
			case step == "done":
				if ci == 1 {
					letGo(0)
				}

				if armed != "" {
					_ = w.Agent.Gate(armed, false)
					armed = ""
				}

				if held != 0 {
					_ = w.Agent.Go(held)
					held = 0
				}

				if !w.AwaitTeardown("p1", before, 5*time.Second) {
					degraded("the first teardown did not complete")
				}
			case stepGate[step] != armed:
				// advance the running teardown to the gate of this step
				if armed != "" {
					_ = w.Agent.Gate(armed, false)
				}

				armed = stepGate[step]
				_ = w.Agent.Gate(armed, true)

				if held != 0 {
					_ = w.Agent.Go(held)
					held = 0
				}

				if ci == 1 {
					letGo(0)
				}

				if held = w.WaitParked(armed, addr, 1, 3*time.Second); held == 0 {
					degraded("the teardown never reached the gate of step " + step)
				}
			}

		}

		if ci > 0 {
			letGo(ci)
			time.Sleep(25 * time.Millisecond) // the caller reaches Shutdown (and waits there for the running teardown)

			// a second teardown that runs instead of waiting shows up at one of the step gates
			for _, g := range stepGate {
				if w.WaitParked(g, addr, 2, time.Millisecond) != 0 {
					sum.Stats["second_teardown_ran"]++
					break
				}
			}
		}
	}

	// 3. everything is let go
	for _, g := range stepGate {
		_ = w.Agent.Gate(g, false)
	}

	for _, g := range triggerGate {
		_ = w.Agent.Gate(g, false)
	}

	for i := 0; i < 30; i++ {
		w.ReleaseParked()
		time.Sleep(4 * time.Millisecond)
	}

	sum.Stats["sig_"+fmt.Sprint(len(calls))]++
	sum.Scenarios++

	if has("ctx") {
		start := time.Now()

		if nd := w.WaitParked("node.stop.beforeExit", "", 1, 6*time.Second); nd != 0 {
			_ = w.Agent.Go(nd)
		}

		_ = w.Agent.Gate("node.stop.beforeExit", false)
		w.ReleaseParked()
		w.FinishStop(start, errs0, 10*time.Second)
	} else {
		if !w.AwaitTeardown("p1", before, 5*time.Second) {
			time.Sleep(300 * time.Millisecond)
		}

		w.RecordLost("p1", "teardown signature "+sig)

		// the association is forgotten: the same peer associates afresh; then the agent stops, and every delete the datapath
		// refused since the script began counts (a session removed twice)
		if !w.Died {
			pp.SetAutoHB(true)
			w.Assoc("p1")
			w.Estab("p1", simpleSession(uint64(rng.Int63()), 0x0AE20011, 1))
		}

		if !w.Died {
			start := time.Now()
			w.Agent.Term()
			w.FinishStop(start, errs0, 10*time.Second)
		}
	}

	sum.Lines += w.Lines
	sum.Steps += w.Steps
	sum.Accepted += w.Accepted

	return nil
}

package checks

import (
	"encoding/json"
	"fmt"
	"math/rand"
	"os"
	"path/filepath"
	"time"

	"verif/harness/internal/agent"
	"verif/harness/internal/e2e"

	"verif/harness/internal/core"
)

func init() {
	Checks["C03"] = C03
	Workers["e2e-bess-scope"] = e2eBessScopeWorker
}

// e2eBessScopeWorker replays the scripts TLC generated from spec/BessScript.tla (those whose index is Shard modulo Of)
// into the real agent on the BESS datapath.
func e2eBessScopeWorker(args []string) error {
	var p Up4ScopeParams
	if err := json.Unmarshal([]byte(args[0]), &p); err != nil {
		return err
	}

	rng := rand.New(rand.NewSource(p.Seed))
	sum := E2ESummary{Stats: map[string]int{}}

	defer func() {
		b, _ := json.Marshal(sum)
		_ = os.WriteFile(p.Trace+".summary", b, 0o644)
	}()

	var seqs [][]string
	if b, err := os.ReadFile(p.Scripts); err != nil || json.Unmarshal(b, &seqs) != nil || len(seqs) == 0 {
		sum.Err = "no scripts"
		return fmt.Errorf("no scripts in %s", p.Scripts)
	}

	cfg := agent.Cfg{N4Addr: p.N4Addr, Datapath: "bess", LogLevel: "warn", ReadTimeout: 120, RespTimeout: "2s", MaxReqRetries: 5}
	if rng.Intn(2) == 0 {
		cfg.UEIPAlloc, cfg.UEPool = true, "10.241.0.0/16"
	}

	w, err := e2e.NewWorld(filepath.Join(p.Dir, "w"), p.AgentBin, p.Trace, cfg, int(p.Seed%1000)*1000+1)
	if err != nil {
		sum.Err = err.Error()
		return err
	}

	defer func() {
		sum.Lines, sum.Steps, sum.Accepted, sum.Died = w.Lines, w.Steps, w.Accepted, w.Died
		w.Close()
	}()

	if err := w.StartAgent(); err != nil {
		sum.Err = err.Error()
		return err
	}

	g := e2e.NewGen(w, rng.Int63(), e2e.GenOpt{Peers: 2, MaxSessions: 10, UEAlloc: cfg.UEIPAlloc})
	shape := rng.Int63()
	assoc := map[string]bool{}
	ensure := func(peer string) {
		if !assoc[peer] {
			w.Assoc(peer)
			assoc[peer] = true
		}
	}

	kinds := map[string]int{"ufar": 0, "uqer": 1, "updr": 2, "add": 3, "rm": 4, "newcp": 5, "rej": 6, "empty": 7, "rmall": 8, "ufarn": 9}

	for idx, sq := range seqs {
		if idx%p.Of != p.Shard || w.Died {
			continue
		}

		ensure("p1")
		ensure("p2")

		var sa, sb *e2e.GSession

		for k, op := range sq {
			if w.Died {
				break
			}

			g.Reseed(shape + int64(k)*131) // the same script step draws the same values in every script

			switch {
			case op == "EA":
				sa = g.EstablishOn("p1")
			case op == "EB":
				sb = g.EstablishOn("p2")
			case op == "DA" && sa.IsLive():
				g.DeleteSession(sa)
			case op == "DB" && sb.IsLive():
				g.DeleteSession(sb)
			case op == "XA":
				w.Release("p1")
				assoc["p1"] = false
				g.Forget("p1")
			case op == "KILL":
				w.KillAgent()

				if err := w.StartAgent(); err != nil {
					sum.Err = err.Error()
					return err
				}

				assoc = map[string]bool{}
				g.Forget("")
			case len(op) > 2 && op[0] == 'A' && sa.IsLive():
				g.ModifyKind(sa, kinds[op[2:]])
			case len(op) > 2 && op[0] == 'B' && sb.IsLive():
				g.ModifyKind(sb, kinds[op[2:]])
			}
		}

		// back to the empty state
		for _, s := range []*e2e.GSession{sa, sb} {
			if s.IsLive() && !w.Died {
				g.DeleteSession(s)
			}
		}

		sum.Scenarios++
	}

	for k, v := range g.Stats {
		sum.Stats[k] += v
	}

	return nil
}

// C03: BESS tables are exactly the image of the live sessions' rules.
func C03(c *core.Ctx) {
	nshards, scenarios, steps := 8, 6, 30
	if c.Thorough() {
		nshards, scenarios, steps = 14, 60, 40
	}

	c.SetCov("rule", "seeded randomised PFCP histories (1-3 peers, up to 5 live sessions, create/update/remove of PDR/FAR/QER, rejected requests, "+
		"agent kill + restart against the populated datapath) executed against the real agent process; every step's BESS tables judged by TablesAreImage; "+
		"in addition (GEN) TLC enumerates from spec/BessScript.tla every behaviour of 4 (thorough: 5) operations over {establish A / B, Update FAR, Update QER, Update PDR, new bearer, "+
		"bearer removed, new CP F-SEID, delete, association release, SIGKILL + restart} for two sessions of different associations (2 211 / 26 256 scripts) and the harness replays each into the real agent; "+
		"evaluations = script steps; distinct_nontrivial = steps that were accepted session requests")

	// GEN: TLC enumerates the scripts (spec/BessScript.tla), the harness replays them into the real agent
	// design level: the modification handler as coded with Go's slice semantics (SessionImpl.tla, complete graph): a refused
	// request changes neither the stored rules nor the datapath, and the datapath is the image of the stored rules; the code
	// before repairs 3fa6008 / eb21414 and the seeded change "clipped slices" as negative controls, where TLC must find it
	if c.ReplayDir == "" {
		if r, err := c.RunTLC(core.TLCRun{Module: "SessionImpl", Cfg: "MCSessionImpl_fixed.cfg", Workers: 2, HeapMB: 2048, Timeout: 5 * time.Minute, Label: "mc"}); err != nil || !r.OK() {
			c.Inconclusive("model check of SessionImpl did not pass (a counterexample is a candidate history to replay, not a verdict)")
		} else {
			c.AddTLC("mc", r)
		}

		for _, nc := range []string{"MCSessionImpl_nocopy.cfg", "MCSessionImpl_latecheck.cfg", "MCSessionImpl_clipped.cfg"} {
			if r, err := c.RunTLC(core.TLCRun{Module: "SessionImpl", Cfg: nc, Workers: 1, HeapMB: 1024, Timeout: 5 * time.Minute, Label: "mc-old"}); err != nil || r.Violated != "RejectedChangesNothing" {
				c.Inconclusive("negative control: %s no longer violates RejectedChangesNothing", nc)
			} else {
				c.AddCount("negative_controls_found", 1)
			}
		}
	}

	scopeShards, genCfg := 8, "MCBessScript.cfg"
	if c.Thorough() {
		scopeShards, genCfg = 14, "MCBessScript5.cfg"
	}

	scripts := filepath.Join(c.Scratch, "scripts.json")

	if c.ReplayDir == "" {
		gr, err := c.RunTLC(core.TLCRun{Module: "BessScript", Cfg: genCfg, Workers: 1, HeapMB: 1024, Timeout: 5 * time.Minute, Label: "gen"})
		if err != nil || !gr.OK() {
			c.Inconclusive("GEN: TLC did not enumerate the scripts of BessScript")
			scopeShards = 0
		} else {
			n, err := writeScripts(gr.OutputPath, scripts)
			if err != nil || n == 0 {
				c.Inconclusive("GEN: no scripts in TLC's output: %v", err)
				scopeShards = 0
			}

			c.AddCount("gen_scripts", int64(n))
			c.AddTLC("gen", gr)
		}
	}

	res := runE2EMixed(c, nshards+scopeShards+1, "TraceE2E_C03.cfg", func(i int) (string, interface{}) {
		dir, trace := shardDir(c, i)
		if i == nshards+scopeShards {
			// the datapath goes away and comes back around association attempts (the scenario of C12's "connect" shards): a peer whose
			// association was refused meanwhile stays unassociated, its session requests are rejected and write nothing
			return "e2e-retrans", RetransParams{Dir: dir, Trace: trace, AgentBin: filepath.Join(c.BinDir, "verif-agent"), N4Addr: n4For(i), Seed: c.Seed*1000 + 60 + int64(i),
				Mode: "connect", N: 5, TMs: 2000, IMs: 100, Rounds: 2}
		}

		if i >= nshards {
			return "e2e-bess-scope", Up4ScopeParams{Dir: dir, Trace: trace, AgentBin: filepath.Join(c.BinDir, "verif-agent"), N4Addr: n4For(i), Seed: c.Seed*1000 + 30 + int64(i),
				Scripts: scripts, Shard: i - nshards, Of: scopeShards}
		}

		return "e2e-rand", E2EParams{Dir: dir, Trace: trace, AgentBin: filepath.Join(c.BinDir, "verif-agent"), N4Addr: n4For(i),
			Seed: c.Seed*1000 + int64(i), Scenarios: scenarios, Steps: steps, Rejects: true, Kill: true, Alloc: 1, EndMarker: 1, PoolLens: []int{24, 28}, Notify: true}
	})
	judgeE2E(c, res, map[string]bool{"InEnvelope": true, "EnvDistinctMatchKeys": true})
}

package checks

import (
	"path/filepath"

	"verif/harness/internal/core"
)

func init() {
	Checks["C03"] = C03
}

// C03: BESS tables are exactly the image of the live sessions' rules.
func C03(c *core.Ctx) {
	nshards, scenarios, steps := 8, 6, 30
	if c.Thorough() {
		nshards, scenarios, steps = 14, 60, 40
	}

	c.SetCov("rule", "seeded randomised PFCP histories (1-3 peers, up to 5 live sessions, create/update/remove of PDR/FAR/QER, rejected requests, "+
		"agent kill + restart against the populated datapath) executed against the real agent process; every step's BESS tables judged by TablesAreImage; "+
		"evaluations = script steps; distinct_nontrivial = steps that were accepted session requests")

	res := runE2EShards(c, "e2e-rand", nshards, "TraceE2E_C03.cfg", func(i int) interface{} {
		dir, trace := shardDir(c, i)
		return E2EParams{Dir: dir, Trace: trace, AgentBin: filepath.Join(c.BinDir, "verif-agent"), N4Addr: n4For(i),
			Seed: c.Seed*1000 + int64(i), Scenarios: scenarios, Steps: steps, Rejects: true, Kill: true, Alloc: 1, EndMarker: 1, PoolLens: []int{24, 28}, Notify: true}
	})
	judgeE2E(c, res, map[string]bool{"InEnvelope": true, "EnvDistinctMatchKeys": true})
}

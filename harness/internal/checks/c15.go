package checks

import (
	"context"
	"encoding/json"
	"fmt"
	"math/rand"
	"os"
	"os/exec"
	"path/filepath"
	"strings"
	"time"

	"google.golang.org/grpc/codes"

	"verif/harness/internal/core"
	"verif/harness/internal/e2e"
)

func init() {
	Workers["e2e-up4-faults"] = e2eUp4FaultWorker
	Checks["C15"] = C15
}

// Up4FaultParams parameterises one fault-injection worker.
type Up4FaultParams struct {
	Dir      string `json:"dir"`
	Trace    string `json:"trace"`
	AgentBin string `json:"agentBin"`
	N4Addr   string `json:"n4"`
	Seed     int64  `json:"seed"`
	FwdFirst bool   `json:"fwdFirst"` // the target session of the first shape forwards downlink traffic (it is the only user of a tunnel peer)
	Shapes   int    `json:"shapes"`   // session shapes; for each: every request kind x every position k of the failing write
	Random   int    `json:"random"`   // afterwards: random histories with this many steps, a fault in every third request
	Crowd    int    `json:"crowd"`    // sessions kept live in the background (they hold identifiers a wrong release would hand out again)
	Drain    int    `json:"drain"`    // at the end: establish this many sessions at once so that recycled identifiers come round
	ModeMix  int    `json:"modeMix"`  // 0: alternate rpc / update faults, 1: rpc only, 2: update only
	// Crowded: the background sessions all have a session QER and one flow (they hold many session-meter cells), and only
	// establishments are faulted: an application-meter cell released into the session-meter pool meets a live holder
	Crowded bool `json:"crowded"`
}

var faultCodes = []codes.Code{codes.Unavailable, codes.ResourceExhausted, codes.Internal, codes.PermissionDenied, codes.InvalidArgument}

func e2eUp4FaultWorker(args []string) error {
	if len(args) != 1 {
		return fmt.Errorf("e2e-up4-faults: want one JSON argument")
	}

	var p Up4FaultParams
	if err := json.Unmarshal([]byte(args[0]), &p); err != nil {
		return err
	}

	rng := rand.New(rand.NewSource(p.Seed))
	sum := E2ESummary{Stats: map[string]int{}}

	defer func() {
		b, _ := json.Marshal(sum)
		_ = os.WriteFile(p.Trace+".summary", b, 0o644)
	}()

	cfg := up4Cfg(rng, p.N4Addr)

	w, err := e2e.NewWorld(filepath.Join(p.Dir, "w"), p.AgentBin, p.Trace, cfg, int(p.Seed%1000)*1000+1)
	if err != nil {
		sum.Err = err.Error()
		return err
	}

	defer func() {
		sum.Lines, sum.Steps, sum.Accepted, sum.Died = w.Lines, w.Steps, w.Accepted, w.Died
		w.Close()
	}()

	w.SnapEvery = true

	if err := w.StartAgent(); err != nil {
		sum.Err = err.Error()
		return err
	}

	g := e2e.NewUp4Gen(w, rng.Int63(), 2, 1000, false)
	g.AddFlows = true
	g.UEAlloc = w.Cfg.UEIPAlloc

	w.Assoc("p1")
	w.Assoc("p2")

	nfault := 0
	plan := func(k int) *e2e.P4FaultPlan {
		nfault++
		mode := "rpc"

		if p.ModeMix == 2 || (p.ModeMix == 0 && nfault%2 == 0) {
			mode = "update"
		}

		return &e2e.P4FaultPlan{K: k, Mode: mode, Upd: rng.Intn(3), Code: faultCodes[rng.Intn(len(faultCodes))]}
	}

	// a live session holds counter cell 0 - the cell a release of a PDR's still unset (zero) counter ID would free:
	// sessions with many PDRs are established (cells are handed out in no particular order) and deleted again until one has it
	g.MinFlows = 8

	for i := 0; i < 200 && !w.Died && !w.P4CounterUsed(0); i++ {
		g.Reseed(rng.Int63())

		if g.Establish("p2") && !w.P4CounterUsed(0) {
			g.Delete(g.Last())
		}
	}

	g.MinFlows = 0
	if w.P4CounterUsed(0) {
		sum.Stats["cell0_held"]++
	}

	// background sessions: they hold counter cells, meter cells, tunnel peers and applications
	g.ForceSessQer, g.OneFlow = p.Crowded, p.Crowded

	for i := 0; i < p.Crowd && !w.Died; i++ {
		g.Establish([]string{"p1", "p2"}[i%2])
	}

	g.ForceSessQer, g.OneFlow = false, false
	crowd := g.LiveCount()

	type kind struct {
		name string
		mod  int
	}

	// (qerasym: the flow QER of a session established with equal rates in both directions gets different ones - a second
	// meter cell is allocated and configured by the Update QER)
	kinds := []kind{{"estab", -1}, {"far", e2e.ModFar}, {"farsame", e2e.ModFarSame}, {"qerasym", 11}, {"qer", e2e.ModQer}, {"pdr", e2e.ModPdr}, {"remove", e2e.ModRemove}, {"add", e2e.ModAdd}, {"del", -2}}
	if p.Crowded {
		kinds = kinds[:1]
	}

	// do performs the request of the given kind on a session of shape `shape` (established first without fault unless the
	// request IS the establishment); fault = nil measures the number of Write RPCs the request makes
	forceFwd := false
	do := func(shape int64, kd kind, fault *e2e.P4FaultPlan) int {
		g.Reseed(shape)
		g.FreshGnbs() // the target session is the only user of its tunnel peer (the crowd uses other gNBs)
		g.ForceFwd = forceFwd || kd.mod == e2e.ModFarSame
		oneFlow := g.OneFlow
		g.OneFlow = oneFlow || kd.mod == e2e.ModFarSame // one downlink FAR: the session's only reference to its tunnel peer

		symQer, alwaysQer, forceSess := g.SymQer, g.AlwaysQer, g.ForceSessQer
		if kd.mod == 11 {
			g.SymQer, g.AlwaysQer, g.ForceSessQer = true, true, true
		}

		defer func() {
			g.ForceFwd, g.OneFlow, g.SymQer, g.AlwaysQer, g.ForceSessQer = false, oneFlow, symQer, alwaysQer, forceSess
		}()

		if kd.mod == -1 {
			w.P4Fault = fault
			g.Establish("p1")
			n := w.LastRpcs

			if s := g.Last(); s.Live() && g.LiveCount() > crowd {
				g.Delete(s)
			}

			return n
		}

		if !g.Establish("p1") {
			return 0
		}

		s := g.Last()
		g.Reseed(shape + 1)
		w.P4Fault = fault

		switch {
		case kd.mod == -2:
			g.Delete(s)
		case kd.mod == 11:
			g.SymQer = false
			g.UpdateFlowQerAny(s, "asym")
		default:
			g.ModifyKind(s, kd.mod)
		}

		n := w.LastRpcs

		// a probe session of another association right after the fault: it is given identifiers from the pools (after an
		// Update FAR that kept the gNB it forwards to that same gNB: it shares the target's tunnel peer)
		g.Reseed(shape + 2)

		if kd.mod == e2e.ModFarSame {
			g.PinGnbOf(s)
		}

		g.Establish("p2")
		probe := g.Last()

		// the probe goes first in half of the cases (it may have shared a tunnel peer or an application with the target
		// session: what it releases must leave the target's identifiers alone; a heartbeat step records the state between)
		if probe.Live() && probe != s && (nfault%2 == 1 || kd.mod == e2e.ModFarSame) {
			g.Delete(probe)
			w.Heartbeat("p1")
		}

		if s.Live() {
			g.Delete(s)
		}

		if probe.Live() && probe != s {
			g.Delete(probe)
		}

		return n
	}

	// crowded: faults aimed at the meter writes of establishments
	if p.Crowded {
		for i := 0; i < 16*p.Shapes && !w.Died; i++ {
			pl := plan(1 + i%3)
			pl.OnKind = "meter"
			g.Reseed(rng.Int63())
			w.P4Fault = pl
			g.Establish("p1")
			sum.Stats["fault_meter"]++

			if s := g.Last(); s.Live() && g.LiveCount() > crowd {
				g.Delete(s)
			}
		}
	}

	for sh := 0; sh < p.Shapes && !w.Died; sh++ {
		shape := rng.Int63()
		forceFwd = p.FwdFirst && sh == 0

		for _, kd := range kinds {
			n := do(shape, kd, nil)
			sum.Stats["measured_"+kd.name] += n

			for k := 1; k <= n && !w.Died; k++ {
				do(shape, kd, plan(k))
				sum.Stats["fault_"+kd.name]++
			}
		}

		sum.Scenarios++
	}

	// random multi-fault histories
	for i := 0; i < p.Random && !w.Died; i++ {
		if i%3 == 0 {
			w.P4Fault = plan(1 + rng.Intn(6))
			sum.Stats["fault_random"]++
		}

		g.Reseed(rng.Int63())

		if !g.Step() {
			break
		}

		if s := g.Last(); g.LiveCount() > crowd+6 && s.Live() {
			g.Delete(s)
		}
	}

	// recycled identifiers come round: many sessions at once
	for i := 0; i < p.Drain && !w.Died; i++ {
		g.Reseed(rng.Int63())
		g.Establish([]string{"p1", "p2"}[i%2])
	}

	if !w.Died {
		g.Finish()
	}

	for k, v := range g.Stats {
		sum.Stats[k] += v
	}

	return nil
}

// C15: P4 datapath IDs stay exclusive and in their own pool under write failures.
func C15(c *core.Ctx) {
	shards, shapes, random, crowd, drain, crowded := 6, 1, 30, 6, 20, 200
	if c.Thorough() {
		shards, shapes, random, crowd, drain, crowded = 14, 3, 150, 40, 300, 400
	}

	c.SetCov("rule", "fault injection at the harness' P4Runtime server against the real agent: for session shapes drawn from the seed and every request kind "+
		"(establishment, FAR / QER / PDR update, flow removal, flow addition, deletion) the request is first run unfaulted to count its Write RPCs n and then "+
		"repeated with the k-th RPC failing for every k = 1..n (whole-RPC failures and per-update failures with five status codes), each followed by a probe "+
		"session of another association; then random multi-fault histories and a burst of sessions that cycles the pools, all next to a crowd of live sessions; "+
		"after every step the switch entries and the guarded snapshot of the plug-in's pools are judged by the C15 invariants of Up4Image; "+
		"design level: RefCounted.tla (tunnel peers / applications as coded after the repairs, every write may fail; 3 keys, 3 users, 2 IDs, 3 faults) is model-checked, and the original "+
		"release order as negative control; evaluations = script steps")

	// design level: the reference-counted shared objects as coded after the repairs, every write may fail; and the
	// original order (ID freed before the entry is deleted) as negative control, where TLC must find the violation
	if r, err := c.RunTLC(core.TLCRun{Module: "RefCounted", Cfg: "MCRefCounted.cfg", Workers: 4, HeapMB: 2048, Timeout: 5 * time.Minute, Label: "mc"}); err != nil || !r.OK() {
		c.Inconclusive("model check of RefCounted did not pass")
	} else {
		c.AddTLC("mc", r)
	}

	if r, err := c.RunTLC(core.TLCRun{Module: "RefCounted", Cfg: "MCRefCountedOld.cfg", Workers: 1, HeapMB: 1024, Timeout: 5 * time.Minute, Label: "mc-old"}); err != nil || r.Violated != "NotFreeWhileInUse" {
		c.Inconclusive("negative control: the model of the original release order no longer violates NotFreeWhileInUse")
	} else {
		c.AddCount("negative_controls_found", 1)
	}

	if c.Thorough() {
		apalacheRefCounted(c)
	}

	// GEN: the QoS scripts of C09 (spec/Up4QosScript.tla: one session whose QERs change role - session-level QER below / above
	// the flows' rates, flow QER symmetric / asymmetric / above the session's, flows added and removed, deletion) are
	// replayed under the C15 configuration as well: which meter pool a cell goes back to depends on those role changes
	qosShards := 3
	if c.Thorough() {
		qosShards = 6
	}

	scripts := filepath.Join(c.Scratch, "qos-scripts.json")

	if c.ReplayDir == "" {
		gr, err := c.RunTLC(core.TLCRun{Module: "Up4QosScript", Cfg: "MCUp4QosScript.cfg", Workers: 1, HeapMB: 1024, Timeout: 5 * time.Minute, Label: "gen"})
		if err != nil || !gr.OK() {
			c.Inconclusive("GEN: TLC did not enumerate the scripts of Up4QosScript")
			qosShards = 0
		} else if n, err := writeScripts(gr.OutputPath, scripts); err != nil || n == 0 {
			c.Inconclusive("GEN: no scripts in TLC's output: %v", err)
			qosShards = 0
		} else {
			c.AddCount("gen_scripts", int64(n))
			c.AddTLC("gen", gr)
		}
	} else {
		qosShards = 0
	}

	res := runE2EMixed(c, shards+qosShards, "TraceE2E_C15.cfg", func(i int) (string, interface{}) {
		d, tr := shardDir(c, i)

		if i >= shards {
			return "e2e-up4-qos", Up4QosParams{Dir: d, Trace: tr, AgentBin: filepath.Join(c.BinDir, "verif-agent"), N4Addr: n4For(i), Seed: c.Seed*1000 + 760 + int64(i),
				Scripts: scripts, Shard: i - shards, Of: qosShards}
		}

		pr := Up4FaultParams{Dir: d, Trace: tr, AgentBin: filepath.Join(c.BinDir, "verif-agent"), N4Addr: n4For(i), Seed: c.Seed*1000 + 700 + int64(i),
			Shapes: shapes, Random: random, Crowd: crowd, Drain: drain, ModeMix: i % 3, FwdFirst: i%2 == 0}
		if i%6 == 5 { // the crowded shard
			pr.Crowded, pr.Crowd, pr.Shapes, pr.Random, pr.Drain = true, crowded, 3, 0, 0
		}

		return "e2e-up4-faults", pr
	})
	judgeE2E(c, res, map[string]bool{"InEnvelope": true, "Up4Envelope": true})
}

// apalacheRefCounted discharges the inductive invariant of RefCounted with Apalache (thorough tier): IndInv holds
// initially, is preserved by every step from ANY state satisfying it (so for behaviours of any length, which TLC's
// complete graph covers only for the reachable states of the bounded constants), implies the invariants TLC checks,
// and is NOT preserved with the original release order (negative control). A missing or failing tool makes this part
// inconclusive, never a violation: the model gives no verdict about the code.
func apalacheRefCounted(c *core.Ctx) {
	bin, err := exec.LookPath("apalache-mc")
	if err != nil {
		c.AddCount("apalache_skipped", 1)
		return
	}

	dir := filepath.Join(c.Scratch, "apalache")
	_ = os.MkdirAll(dir, 0o755)

	for _, f := range []string{"RefCounted.tla", "apalache/RefCountedInd.tla"} {
		b, err := os.ReadFile(filepath.Join(c.SpecDir, f))
		if err != nil {
			c.Inconclusive("apalache: %v", err)
			return
		}

		_ = os.WriteFile(filepath.Join(dir, filepath.Base(f)), b, 0o644)
	}

	run := func(cinit, init, inv string, length int) (bool, string) {
		ctx, cancel := context.WithTimeout(context.Background(), 10*time.Minute)
		defer cancel()

		cmd := exec.CommandContext(ctx, bin, "check", "--cinit="+cinit, "--init="+init, "--inv="+inv, fmt.Sprintf("--length=%d", length),
			"--out-dir="+filepath.Join(dir, "out"), "RefCountedInd.tla")
		cmd.Dir = dir
		out, _ := cmd.CombinedOutput()
		s := string(out)

		return strings.Contains(s, "The outcome is: NoError"), s
	}

	type step struct {
		cinit, init, inv string
		length           int
		wantOK           bool
		what             string
	}

	for _, st := range []step{
		{"ConstInit", "Init", "IndInv", 0, true, "initial states satisfy IndInv"},
		{"ConstInit", "IndInit", "IndInv", 1, true, "IndInv is preserved by every step"},
		{"ConstInit", "IndInit", "Implied", 0, true, "IndInv implies the invariants TLC checks"},
		{"ConstInitOld", "IndInit", "IndInv", 1, false, "negative control: the original release order does not preserve IndInv"},
	} {
		ok, out := run(st.cinit, st.init, st.inv, st.length)
		if ok != st.wantOK {
			keep := c.SaveReplay("apalache-"+st.inv+"-"+st.cinit, nil, map[string][]byte{"apalache.out": []byte(out)})
			c.Inconclusive("apalache: %s - unexpected outcome (output kept in %s)", st.what, keep)

			return
		}

		c.AddCount("apalache_obligations", 1)
	}
}

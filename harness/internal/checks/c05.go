package checks

import (
	"encoding/json"
	"fmt"
	"math/rand"
	"os"
	"path/filepath"
	"time"

	"verif/harness/internal/agent"
	"verif/harness/internal/core"
	"verif/harness/internal/e2e"
	"verif/harness/internal/pfcpx"
)

func init() {
	Checks["C05"] = C05
	Workers["e2e-cycles"] = e2eCyclesWorker
}

// CycleParams parameterises the attach/detach cycle driver of C05.
type CycleParams struct {
	Dir      string `json:"dir"`
	Trace    string `json:"trace"`
	AgentBin string `json:"agentBin"`
	N4Addr   string `json:"n4"`
	Seed     int64  `json:"seed"`
	Mode     string `json:"mode"`   // plain | hb
	Cycles   int    `json:"cycles"` // cycles per ending beyond the pool size
	PoolLen  int    `json:"poolLen"`
	Timeout  bool   `json:"timeout"` // include the read time-out ending (costs > 1 s per cycle)
	Rejects  bool   `json:"rejects"` // rejected requests (also mid-way ones) before the ending
}

// e2eCyclesWorker: more attach/detach cycles than the pool has addresses, for each way a session can end.
func e2eCyclesWorker(args []string) error {
	var p CycleParams
	if err := json.Unmarshal([]byte(args[0]), &p); err != nil {
		return err
	}

	rng := rand.New(rand.NewSource(p.Seed))
	sum := E2ESummary{Stats: map[string]int{}}

	defer func() {
		b, _ := json.Marshal(sum)
		_ = os.WriteFile(p.Trace+".summary", b, 0o644)
	}()

	cfg := agent.Cfg{N4Addr: p.N4Addr, Datapath: "bess", LogLevel: "warn", ReadTimeout: 1, RespTimeout: "2s", MaxReqRetries: 5,
		UEIPAlloc: true, UEPool: fmt.Sprintf("10.%d.%d.0/%d", 100+rng.Intn(100), rng.Intn(256), p.PoolLen), NotifyBess: true, EndMarker: rng.Intn(2) == 0}
	if p.Mode == "hb" {
		cfg.HBTimer, cfg.HBInterval, cfg.RespTimeout, cfg.MaxReqRetries, cfg.ReadTimeout = true, "60ms", "40ms", 1, 30
	}

	w, err := e2e.NewWorld(filepath.Join(p.Dir, "w"), p.AgentBin, p.Trace, cfg, int(p.Seed%1000)*1000+1)
	if err != nil {
		return err
	}
	defer w.Close()

	w.SnapEvery = true

	if err := w.StartAgent(); err != nil {
		sum.Err = err.Error()
		return err
	}

	size := (1 << (32 - p.PoolLen)) - 2
	endings := []string{"del", "release", "report"}

	if p.Mode == "hb" {
		endings = []string{"hbdead", "del"}
	} else if p.Timeout {
		endings = append(endings, "timeout")
	}

	peer := "p1"
	w.Peer(peer).SetAutoHB(true)

	assoc := false
	teid := uint32(0x1000 + rng.Intn(1<<20))
	cp := uint64(rng.Int63())

	for _, ending := range endings {
		n := size + p.Cycles
		if ending == "timeout" {
			n = 2
		}

		for cyc := 0; cyc < n && !w.Died; cyc++ {
			if !assoc {
				ds := w.Assoc(peer)
				assoc = len(ds) == 1 && ds[0].Cause == 1
			}

			// one or two sessions per cycle, each with a UP-allocated address and a UP-chosen TEID
			var ups []uint64

			nsess := 1
			if size >= 2 && rng.Intn(2) == 0 {
				nsess = 2
			}

			for k := 0; k < nsess; k++ {
				cp++
				teid += 7

				r := &e2e.SessReq{CP: cp}
				r.CPDR = []pfcpx.PDR{
					{ID: 1, Prec: 100, Src: "access", FTEID: "choose", UE: "alloc", OHR: true, FAR: 1},
					{ID: 2, Prec: 100, Src: "core", FTEID: "none", UE: "alloc", FAR: 2},
				}
				r.CFAR = []pfcpx.FAR{{ID: 1, Action: 2, HasFP: true, Dst: "core"}, {ID: 2, Action: 0x0c}}

				if rng.Intn(2) == 0 {
					r.CQER = []pfcpx.QER{{ID: 1, QFI: 9, ULMBR: 1000, DLMBR: 2000, NoGBR: true}}
					r.CPDR[0].QERs, r.CPDR[1].QERs = []uint32{1}, []uint32{1}
				}

				if p.Rejects && rng.Intn(3) == 0 {
					// an establishment that is refused after the first PDR was parsed (the second one lacks its FAR ID)
					bad := *r
					bad.CP = cp + 1000000
					bad.CPDR = append([]pfcpx.PDR(nil), r.CPDR...)
					bad.CPDR[1].NoFARID = true
					w.Estab(peer, &bad)
					sum.Stats["estab_rejected_midway"]++
				}

				ds := w.Estab(peer, r)
				sum.Stats["estab"]++

				if len(ds) >= 1 && ds[0].Cause == 1 && ds[0].HasFSEID {
					ups = append(ups, ds[0].UPSeid)
				}
			}

			for _, up := range ups {
				if rng.Intn(2) == 0 { // the gNB becomes known: downlink FAR forwards
					w.Mod(peer, &e2e.SessReq{Hdr: up, UFAR: []pfcpx.FAR{{ID: 2, Action: 2, HasFP: true, Dst: "access", OHC: true, PeerIP: 0xC0A80001, TEID: teid}}})
					sum.Stats["mod"]++
				}

				if p.Rejects && rng.Intn(3) == 0 {
					// a modification refused in its remove phase (unknown FAR id)
					if rng.Intn(2) == 0 {
						w.Mod(peer, &e2e.SessReq{Hdr: up, RFAR: []uint32{99}})
					} else { // ... after a Remove PDR of the same message has already been applied to the stored rules
						w.Mod(peer, &e2e.SessReq{Hdr: up, RPDR: []uint16{1}, RFAR: []uint32{99}})
					}

					sum.Stats["mod_rejected_remove"]++
				}
			}

			switch ending {
			case "del":
				for _, up := range ups {
					w.Del(peer, &e2e.SessReq{Hdr: up})
				}
			case "release":
				w.Release(peer)

				assoc = false
			case "report":
				for _, up := range ups {
					w.Report(peer, up, 65) // session context not found
				}
			case "hbdead":
				w.Peer(peer).SetAutoHB(false)
				if !w.WaitLost(peer, "heartbeats unanswered", 3*time.Second) {
					sum.Err = w.LastErr
					return fmt.Errorf("%s", w.LastErr)
				}

				w.Peer(peer).SetAutoHB(true)

				assoc = false
			case "timeout":
				if !w.WaitLost(peer, "read time-out", 4*time.Second) {
					sum.Err = w.LastErr
					return fmt.Errorf("%s", w.LastErr)
				}

				assoc = false
			}

			sum.Stats["end_"+ending]++
		}
	}

	sum.Scenarios = 1
	sum.Lines, sum.Steps, sum.Accepted, sum.Died = w.Lines, w.Steps, w.Accepted, w.Died

	return nil
}

// C05: ending a session reclaims everything it ever acquired.
func C05(c *core.Ctx) {
	c.SetCov("rule", "attach/detach cycles on /30 and /29 pools (more cycles than addresses) for each way a session can end - Session Deletion, Association Release, "+
		"Session Report answered 'context not found', unanswered heartbeats, read time-out - preceded by accepted and rejected requests; plus seeded randomised histories; after every step the "+
		"BESS tables and the guarded snapshot (pool inventory, TEID count, store, sessions gauge) are judged; evaluations = script steps")

	nr, scen, steps, cycles := 4, 4, 30, 2
	if c.Thorough() {
		nr, scen, steps, cycles = 8, 40, 40, 6
	}

	type spec struct {
		task string
		p    interface{}
	}

	var specs []func(i int) (string, interface{})

	for k := 0; k < nr; k++ {
		specs = append(specs, func(i int) (string, interface{}) {
			dir, trace := shardDir(c, i)
			return "e2e-rand", E2EParams{Dir: dir, Trace: trace, AgentBin: filepath.Join(c.BinDir, "verif-agent"), N4Addr: n4For(i),
				Seed: c.Seed*1000 + 50 + int64(i), Scenarios: scen, Steps: steps, Rejects: true, Kill: false, Alloc: 2, EndMarker: 1, PoolLens: []int{29, 28, 24}, Snap: true}
		})
	}

	for _, m := range []struct {
		mode    string
		pool    int
		timeout bool
	}{{"plain", 30, true}, {"plain", 29, false}, {"hb", 30, false}, {"plain", 30, false}} {
		m := m
		specs = append(specs, func(i int) (string, interface{}) {
			dir, trace := shardDir(c, i)
			return "e2e-cycles", CycleParams{Dir: dir, Trace: trace, AgentBin: filepath.Join(c.BinDir, "verif-agent"), N4Addr: n4For(i),
				Seed: c.Seed*1000 + 70 + int64(i), Mode: m.mode, Cycles: cycles, PoolLen: m.pool, Timeout: m.timeout, Rejects: i%2 == 1}
		})
	}

	// the UP4 datapath: the same invariants on the guarded snapshot, and nothing left in the switch when no session is live
	nu := 2
	if c.Thorough() {
		nu = 4
	}

	for k := 0; k < nu; k++ {
		specs = append(specs, func(i int) (string, interface{}) {
			dir, trace := shardDir(c, i)
			return "e2e-up4", Up4Params{Dir: dir, Trace: trace, AgentBin: filepath.Join(c.BinDir, "verif-agent"), N4Addr: n4For(i),
				Seed: c.Seed*1000 + 90 + int64(i), Scenarios: scen, Steps: steps, AddFlows: true, Snap: true, Wide: i%2 == 0}
		})
	}

	// ... and one UP4 shard in which the switch refuses a write of half of the Session Deletion Requests: a refused deletion
	// leaves the session as it was (record, address, TEIDs, gauge), and the repeated deletion ends it
	specs = append(specs, func(i int) (string, interface{}) {
		dir, trace := shardDir(c, i)
		return "e2e-up4", Up4Params{Dir: dir, Trace: trace, AgentBin: filepath.Join(c.BinDir, "verif-agent"), N4Addr: n4For(i),
			Seed: c.Seed*1000 + 99, Scenarios: scen, Steps: steps, AddFlows: true, Snap: true, FaultDel: true}
	})

	res := runE2EMixed(c, len(specs), "TraceE2E_C05.cfg", func(i int) (string, interface{}) { return specs[i](i) })
	judgeE2E(c, res, map[string]bool{"InEnvelope": true})
}

package checks

import (
	"encoding/json"
	"fmt"
	"google.golang.org/grpc/codes"
	"math/rand"
	"os"
	"path/filepath"
	"regexp"
	"strings"
	"time"

	"verif/harness/internal/agent"
	"verif/harness/internal/core"
	"verif/harness/internal/e2e"
)

func init() {
	Workers["e2e-up4-scope"] = e2eUp4ScopeWorker
	Workers["e2e-up4"] = e2eUp4Worker
	Checks["C04"] = C04
}

// Up4Params parameterises one worker that runs randomised histories against a real agent on the UP4 datapath.
type Up4Params struct {
	Dir       string `json:"dir"`
	Trace     string `json:"trace"`
	AgentBin  string `json:"agentBin"`
	N4Addr    string `json:"n4"`
	Seed      int64  `json:"seed"`
	Scenarios int    `json:"scenarios"`
	Steps     int    `json:"steps"`
	Kill      bool   `json:"kill"`
	AddFlows  bool   `json:"addFlows"`
	Snap      bool   `json:"snap"`
	Race      bool   `json:"race"`
	Wide      bool   `json:"wide"`     // boundary values (C16)
	Pfd       bool   `json:"pfd"`      // the application filters are provisioned as PFDs and half of the flows name the application (C08 on UP4)
	Markers   int    `json:"markers"`  // C14: 1 = end markers enabled and asked for, 2 = asked for but disabled in the configuration
	Drain     int    `json:"drain"`    // C16: one scenario first establishes this many sessions that hold meter cells, until the pools are empty (tables not recorded)
	FaultDel  bool   `json:"faultDel"` // half of the Session Deletion Requests have one of their writes failed by the switch (C05: a refused deletion changes nothing)
	Faults    bool   `json:"faults"`   // a quarter of the steps have one of their first writes failed by the switch (C14: no marker for a rejected update)
}

func up4Cfg(rng *rand.Rand, n4 string) agent.Cfg {
	cfg := agent.Cfg{N4Addr: n4, Datapath: "up4", LogLevel: "warn", ReadTimeout: 120, RespTimeout: "2s", MaxReqRetries: 5,
		UEPool: "10.250.0.0/16", P4AccessIP: fmt.Sprintf("198.18.%d.%d/32", rng.Intn(250), 1+rng.Intn(250)), P4SliceID: rng.Intn(16),
		P4ClearState: rng.Intn(2) == 0}

	if rng.Intn(3) > 0 {
		cfg.UEIPAlloc = rng.Intn(2) == 0
	}

	tc := rng.Intn(4)
	cfg.P4DefaultTC = &tc
	cfg.P4QfiToTC = map[string]int{}

	for _, q := range []int{1, 5, 9} {
		if rng.Intn(2) == 0 {
			cfg.P4QfiToTC[fmt.Sprint(q)] = rng.Intn(4)
		}
	}

	for k := 0; k < 3; k++ {
		cfg.P4QfiToTC[fmt.Sprint(1+rng.Intn(63))] = rng.Intn(4)
	}

	cfg.EndMarker = rng.Intn(2) == 0

	return cfg
}

func e2eUp4Worker(args []string) error {
	if len(args) != 1 {
		return fmt.Errorf("e2e-up4: want one JSON argument")
	}

	var p Up4Params
	if err := json.Unmarshal([]byte(args[0]), &p); err != nil {
		return err
	}

	rng := rand.New(rand.NewSource(p.Seed))
	sum := E2ESummary{Stats: map[string]int{}}

	defer func() {
		b, _ := json.Marshal(sum)
		_ = os.WriteFile(p.Trace+".summary", b, 0o644)
	}()

	var w *e2e.World

	account := func() {
		sum.Lines += w.Lines
		sum.Steps += w.Steps
		sum.Accepted += w.Accepted
		sum.Died = sum.Died || w.Died
		w.Close()
		w = nil
	}

	run := int(p.Seed%1000) * 1000

	for sc := 0; sc < p.Scenarios; sc++ {
		if w == nil {
			run++

			cfg := up4Cfg(rng, p.N4Addr)
			cfg.Race = p.Race

			if p.Markers != 0 {
				cfg.EndMarker = p.Markers == 1
			}

			var err error

			w, err = e2e.NewWorld(filepath.Join(p.Dir, fmt.Sprintf("w%d", run)), p.AgentBin, p.Trace, cfg, run)
			if err != nil {
				sum.Err = err.Error()
				return err
			}

			w.SnapEvery = p.Snap

			if err := w.StartAgent(); err != nil {
				sum.Err = err.Error()
				w.Close()

				return err
			}
		}

		g := e2e.NewUp4Gen(w, rng.Int63(), 1+rng.Intn(3), 1+rng.Intn(5), p.Wide)
		g.AddFlows = p.AddFlows
		g.UEAlloc = w.Cfg.UEIPAlloc
		g.EndMarkers = p.Markers != 0
		g.UsePfd = p.Pfd

		if p.Drain > 0 && sc == 0 {
			// the meter pools are drained: the last cells handed out are the ones at the edge of the arrays
			w.LightDp = true
			g.ForceSessQer, g.OneFlow, g.AlwaysQer = true, true, true
			g.MaxSess = p.Drain + 10

			w.Assoc("p1")
			g.MarkAssoc("p1")

			// until the switch has more than 511 sessions' worth of cells or nothing is accepted any more
			for i, refused := 0, 0; i < 2*p.Drain && g.LiveCount() < p.Drain && refused < 12 && !w.Died; i++ {
				g.Reseed(rng.Int63())

				if g.Establish("p1") {
					refused = 0
				} else {
					refused++
				}
			}

			sum.Stats["drain_sessions"] += g.LiveCount()
			g.ForceSessQer, g.OneFlow, g.AlwaysQer = false, false, false
		}

		if p.FaultDel {
			g.BeforeDelete = func() {
				if rng.Intn(2) == 0 {
					// (the first write of the deletion: nothing of the session is gone when the request is refused.  A deletion
					// refused after some of its writes were carried out cannot be repeated on the unchanged tree - the entries that
					// are gone answer NOT_FOUND and the agent refuses again; known finding F-UP4-HALF-DELETED, DESIGN 11.5)
					w.P4Fault = &e2e.P4FaultPlan{K: 1, Mode: "rpc", Code: codes.Unavailable}
					sum.Stats["faults_armed"]++
				}
			}
		}

		for i := 0; i < p.Steps; i++ {
			if p.Faults && rng.Intn(4) == 0 {
				w.P4Fault = &e2e.P4FaultPlan{K: 1 + rng.Intn(4), Mode: "rpc", Code: codes.Unavailable}
				sum.Stats["faults_armed"]++
			}

			if !g.Step() {
				break
			}
		}

		killNow := p.Kill && !w.Died && rng.Intn(3) == 0
		if !killNow {
			g.Finish()
		}

		for k, v := range g.Stats {
			sum.Stats[k] += v
		}

		sum.Scenarios++
		w.Flush()

		switch {
		case w.Died:
			account()
		case killNow:
			// crash with live sessions: the switch keeps its entries, a new incarnation starts against it; every other
			// time the crash comes in the middle of a request, at the k-th Write RPC the switch receives for it
			if rng.Intn(2) == 0 {
				w.KillAtWrite = 1 + rng.Intn(14)
				g.Step()
				sum.Stats["kill_mid_request"]++
			}

			w.KillAgent()

			if err := w.StartAgent(); err != nil {
				sum.Err = err.Error()
				w.Close()

				return err
			}
		case rng.Intn(3) == 0:
			account()
		}
	}

	if w != nil {
		account()
	}

	return nil
}

// C04: UP4 tables are exactly the image of the live sessions' rules.
func C04(c *core.Ctx) {
	shards, scen, steps := 6, 3, 30
	if c.Thorough() {
		shards, scen, steps = 14, 12, 60
	}

	c.SetCov("rule", "seeded randomised PFCP histories on the UP4 datapath (1-3 associations, up to 5 live sessions sharing gNB peers and application "+
		"filters, FAR/QER/PDR updates, flows added and removed, association release, agent kill + restart against the populated switch, random slice id / "+
		"QFI->TC map / default TC) executed against the real agent process and the harness' P4Runtime server; every step's switch state judged by "+
		"Up4Image!TablesAreImage; in addition (GEN) TLC enumerates from spec/Up4Script.tla every behaviour of 4 (thorough: 5) operations over {establish A, establish B, A forwards to gNB 0 / gNB 1 / buffers / drops, "+
		"A loses a flow, A loses its downlink PDRs, A's QER is updated, B moves to gNB 1, delete A, delete B, release A's association} for two sessions of different associations that share gNB and application filters "+
		"(725 / 5 645 scripts) and the harness replays each into the real agent, from the empty state and followed by the deletion of what is left; evaluations = script steps; distinct_nontrivial = accepted session requests")

	// bounded-exhaustive part: every applicable sequence of 4 (thorough: 5) operations over two sessions of different
	// associations that share their gNB and application filters (see scopeOps), each from the empty state
	scopeShards, scopeLen := 6, 4
	if c.Thorough() {
		scopeShards, scopeLen = 14, 5
	}

	// GEN: TLC enumerates the scripts (spec/Up4Script.tla), the harness replays them into the real agent
	scripts := filepath.Join(c.Scratch, "scripts.json")
	genCfg := "MCUp4Script.cfg"

	if scopeLen == 5 {
		genCfg = "MCUp4Script5.cfg"
	}

	if c.ReplayDir == "" {
		gr, err := c.RunTLC(core.TLCRun{Module: "Up4Script", Cfg: genCfg, Workers: 1, HeapMB: 1024, Timeout: 5 * time.Minute, Label: "gen"})
		if err != nil || !gr.OK() {
			c.Inconclusive("GEN: TLC did not enumerate the scripts of Up4Script")
			scopeShards = 0
		} else {
			n, err := writeScripts(gr.OutputPath, scripts)
			if err != nil || n == 0 {
				c.Inconclusive("GEN: no scripts in TLC's output: %v", err)
				scopeShards = 0
			}

			c.AddCount("gen_scripts", int64(n))
			c.AddTLC("gen", gr)
		}
	}

	res := runE2EMixed(c, shards+scopeShards, "TraceE2E_C04.cfg", func(i int) (string, interface{}) {
		d, tr := shardDir(c, i)
		if i >= shards {
			return "e2e-up4-scope", Up4ScopeParams{Dir: d, Trace: tr, AgentBin: filepath.Join(c.BinDir, "verif-agent"), N4Addr: n4For(i), Seed: c.Seed*1000 + 40 + int64(i),
				Scripts: scripts, Shard: i - shards, Of: scopeShards}
		}

		return "e2e-up4", Up4Params{Dir: d, Trace: tr, AgentBin: filepath.Join(c.BinDir, "verif-agent"), N4Addr: n4For(i), Seed: c.Seed*1000 + int64(i), Scenarios: scen, Steps: steps,
			Kill: i%2 == 0, AddFlows: i%3 != 2, Snap: true, Wide: i%3 == 1, Pfd: i%2 == 1}
	})
	judgeE2E(c, res, map[string]bool{"InEnvelope": true, "Up4Envelope": true})
}

// Up4ScopeParams parameterises the bounded-exhaustive worker: it replays the scripts TLC generated from
// spec/Up4Script.tla (every behaviour of N operations), those whose index is Shard modulo Of.
type Up4ScopeParams struct {
	Dir      string `json:"dir"`
	Trace    string `json:"trace"`
	AgentBin string `json:"agentBin"`
	N4Addr   string `json:"n4"`
	Seed     int64  `json:"seed"`
	Scripts  string `json:"scripts"` // file with the scripts TLC generated from Up4Script.tla (JSON array of arrays of operation names)
	Shard    int    `json:"shard"`
	Of       int    `json:"of"`
}

func e2eUp4ScopeWorker(args []string) error {
	var p Up4ScopeParams
	if err := json.Unmarshal([]byte(args[0]), &p); err != nil {
		return err
	}

	rng := rand.New(rand.NewSource(p.Seed))
	sum := E2ESummary{Stats: map[string]int{}}

	defer func() {
		b, _ := json.Marshal(sum)
		_ = os.WriteFile(p.Trace+".summary", b, 0o644)
	}()

	cfg := up4Cfg(rng, p.N4Addr)
	cfg.UEIPAlloc = false

	w, err := e2e.NewWorld(filepath.Join(p.Dir, "w"), p.AgentBin, p.Trace, cfg, int(p.Seed%1000)*1000+1)
	if err != nil {
		sum.Err = err.Error()
		return err
	}

	defer func() {
		sum.Lines, sum.Steps, sum.Accepted, sum.Died = w.Lines, w.Steps, w.Accepted, w.Died
		w.Close()
	}()

	if err := w.StartAgent(); err != nil {
		sum.Err = err.Error()
		return err
	}

	g := e2e.NewUp4Gen(w, rng.Int63(), 2, 10, false)
	shape := rng.Int63()

	g.MinFlows, g.AlwaysQer = 2, true // a flow can be removed, a QER can be updated

	assoc := map[string]bool{}
	ensure := func(peer string) {
		if !assoc[peer] {
			w.Assoc(peer)
			assoc[peer] = true
		}
	}

	idx := -1

	var seqs [][]string

	if b, err := os.ReadFile(p.Scripts); err != nil || json.Unmarshal(b, &seqs) != nil || len(seqs) == 0 {
		sum.Err = "no scripts"
		return fmt.Errorf("no scripts in %s", p.Scripts)
	}

	sum.Stats["sequences_total"] = len(seqs)

	for _, sq := range seqs {
		idx++

		if idx%p.Of != p.Shard || w.Died {
			continue
		}

		ensure("p1")
		ensure("p2")

		type S = interface {
			Live() bool
			Flows() int
		}

		var sa, sb S

		estab := func(peer string) S {
			g.Reseed(shape) // the same shape for both: same gNB, same application filters
			if g.Establish(peer) {
				return g.Last()
			}

			return nil
		}

		for _, op := range sq {
			if w.Died {
				break
			}

			switch op {
			case "EA":
				sa = estab("p1")
			case "EB":
				sb = estab("p2")
			case "DA":
				if sa != nil && sa.Live() {
					g.DeleteAny(sa)
				}
			case "DB":
				if sb != nil && sb.Live() {
					g.DeleteAny(sb)
				}
			case "XA":
				w.Release("p1")
				assoc["p1"] = false
				g.MarkEnded("p1")
			case "A:fwd0", "A:fwd1", "A:buff", "A:drop":
				if sa != nil && sa.Live() {
					g.SetDlAny(sa, op[2:5], int(op[len(op)-1]-'0'))
				}
			case "B:fwd1":
				if sb != nil && sb.Live() {
					g.SetDlAny(sb, "fwd", 1)
				}
			case "A:rmdl":
				if sa != nil && sa.Live() {
					g.RemoveDownlinkAny(sa)
				}
			case "A:rmflow":
				if sa != nil && sa.Live() && sa.Flows() > 1 {
					g.ModifyAny(sa, e2e.ModRemove)
				}
			case "A:qer":
				if sa != nil && sa.Live() {
					g.Reseed(shape + 7)
					g.ModifyAny(sa, e2e.ModQer)
				}
			}
		}

		// back to the empty state: what is left is deleted (and judged)
		g.Finish()
		sum.Scenarios++
	}

	for k, v := range g.Stats {
		sum.Stats[k] += v
	}

	return nil
}

var reSeqLine = regexp.MustCompile(`^<<"SEQ", <<(.*)>>>>$`)

// writeScripts extracts the scripts TLC printed (lines <<"SEQ", <<"op", ...>>>>) and writes them as JSON.
func writeScripts(tlcOut, dst string) (int, error) {
	b, err := os.ReadFile(tlcOut)
	if err != nil {
		return 0, err
	}

	var seqs [][]string

	for _, ln := range strings.Split(string(b), "\n") {
		m := reSeqLine.FindStringSubmatch(strings.TrimSpace(ln))
		if m == nil {
			continue
		}

		var ops []string
		for _, f := range strings.Split(m[1], ",") {
			ops = append(ops, strings.Trim(strings.TrimSpace(f), `"`))
		}

		seqs = append(seqs, ops)
	}

	out, _ := json.Marshal(seqs)

	return len(seqs), os.WriteFile(dst, out, 0o644)
}

package checks

import (
	"encoding/json"
	"fmt"
	"math/rand"
	"os"
	"path/filepath"
	"time"

	"verif/harness/internal/agent"
	"verif/harness/internal/e2e"
)

func init() {
	Workers["e2e-rand"] = e2eRandWorker
}

// E2EParams parameterises one worker that runs randomised histories against a real agent.
type E2EParams struct {
	Dir       string `json:"dir"`
	Trace     string `json:"trace"`
	AgentBin  string `json:"agentBin"`
	N4Addr    string `json:"n4"`
	Seed      int64  `json:"seed"`
	Scenarios int    `json:"scenarios"`
	Steps     int    `json:"steps"`
	Rejects   bool   `json:"rejects"`
	Kill      bool   `json:"kill"`  // kill and restart the agent between some scenarios (tables stay populated)
	Alloc     int    `json:"alloc"` // 0 never, 1 sometimes, 2 always: UE IP allocation by the agent
	EndMarker int    `json:"endMarker"`
	PoolLens  []int  `json:"poolLens"`
	Shapes    int    `json:"shapes"` // C09: number of QER-list shapes to run (enumeration starts at ShapeFrom, stride ShapeStep)
	ShapeFrom int    `json:"shapeFrom"`
	ShapeStep int    `json:"shapeStep"`
	Notify    bool   `json:"notify"` // C03: configure the BESS notify socket; some restarts find it missing
	Snap      bool   `json:"snap"`   // attach the guarded state snapshot to every step
	QosMode   int    `json:"qosMode"`
	FarBias   bool   `json:"farBias"`   // C14: most modifications are FAR updates
	Race      bool   `json:"race"`      // the agent binary is the one built with the race detector: its reports are recorded
	HB        bool   `json:"hb"`        // heartbeat timer on (short interval), the scripted peers answer the agent's heartbeats
	HoldFarMs int    `json:"holdFarMs"` // C14: delay of farLookup add while a modification with SNDEM is processed // 1: always configure per-QFI bursts with distinct cbs / pbs / ebs
}

type E2ESummary struct {
	Lines     int            `json:"lines"`
	Steps     int            `json:"steps"`
	Accepted  int            `json:"accepted"`
	Scenarios int            `json:"scenarios"`
	Stats     map[string]int `json:"stats"`
	Died      bool           `json:"died"`
	Err       string         `json:"err"`
}

func e2eRandWorker(args []string) error {
	if len(args) != 1 {
		return fmt.Errorf("e2e-rand: want one JSON argument")
	}

	var p E2EParams
	if err := json.Unmarshal([]byte(args[0]), &p); err != nil {
		return err
	}

	rng := rand.New(rand.NewSource(p.Seed))
	sum := E2ESummary{Stats: map[string]int{}}

	defer func() {
		b, _ := json.Marshal(sum)
		_ = os.WriteFile(p.Trace+".summary", b, 0o644)
	}()

	var w *e2e.World

	newWorld := func(run int) error {
		cfg := agent.Cfg{N4Addr: p.N4Addr, Datapath: "bess", LogLevel: "warn", ReadTimeout: 120, RespTimeout: "2s", MaxReqRetries: 5}
		if p.HB { // the agent's own requests are in flight all the time, next to its responses
			cfg.HBTimer, cfg.HBInterval = true, "15ms"
		}

		if p.Race {
			cfg.Env = []string{"GORACE=halt_on_error=0"}
		}

		if p.Alloc == 2 || (p.Alloc == 1 && rng.Intn(2) == 0) {
			cfg.UEIPAlloc = true
			ln := 24

			if len(p.PoolLens) > 0 {
				ln = p.PoolLens[rng.Intn(len(p.PoolLens))]
			}

			cfg.UEPool = fmt.Sprintf("10.%d.%d.0/%d", 200+rng.Intn(50), rng.Intn(256), ln)
		}

		if p.Notify && rng.Intn(2) == 0 {
			cfg.NotifyBess = true
		}

		if p.EndMarker == 2 || (p.EndMarker == 1 && rng.Intn(2) == 0) {
			cfg.EndMarker = true
		}

		qm := rng.Intn(3)
		if p.QosMode == 1 {
			qm = 3 + rng.Intn(2)
		}

		switch qm {
		case 3: // distinct minima per burst kind, several QFIs, default entry present
			cfg.QciQos = []agent.QciQos{{QCI: 0, CBS: 3000, PBS: 9000, EBS: 6000, BurstDurationMs: 10, Priority: 7}}
			for k := 0; k < 6; k++ {
				cfg.QciQos = append(cfg.QciQos, agent.QciQos{QCI: uint8(1 + rng.Intn(63)), CBS: uint32(rng.Intn(200000)), PBS: uint32(rng.Intn(200000)),
					EBS: uint32(rng.Intn(200000)), BurstDurationMs: uint32(rng.Intn(100)), Priority: 1})
			}
		case 4: // no entry for QFI 0: the agent installs its default
			for k := 0; k < 8; k++ {
				cfg.QciQos = append(cfg.QciQos, agent.QciQos{QCI: uint8(1 + rng.Intn(63)), CBS: uint32(rng.Intn(100000)), PBS: uint32(rng.Intn(100000)),
					EBS: uint32(rng.Intn(100000)), BurstDurationMs: uint32(1 + rng.Intn(30)), Priority: 1})
			}
		case 1:
			cfg.QciQos = []agent.QciQos{{QCI: 0, CBS: 50000, PBS: 50000, EBS: 50000, BurstDurationMs: 10, Priority: 7},
				{QCI: 9, CBS: 2048, PBS: 2048, EBS: 2048, BurstDurationMs: 0, Priority: 6}, {QCI: 8, CBS: 2048, PBS: 2048, EBS: 2048, Priority: 5}}
		case 2:
			cfg.QciQos = []agent.QciQos{{QCI: uint8(1 + rng.Intn(60)), CBS: uint32(rng.Intn(100000)), PBS: 4000, EBS: 4000, BurstDurationMs: uint32(rng.Intn(50)), Priority: 1}}
		}

		var err error

		w, err = e2e.NewWorld(filepath.Join(p.Dir, fmt.Sprintf("w%d", run)), p.AgentBin, p.Trace, cfg, run)
		if err != nil {
			return err
		}

		w.HoldFar = time.Duration(p.HoldFarMs) * time.Millisecond
		w.SnapEvery = p.Snap
		w.AutoHB = p.HB

		return w.StartAgent()
	}

	run := int(p.Seed%1000) * 1000

	if p.Shapes > 0 {
		run++

		if err := newWorld(run); err != nil {
			sum.Err = err.Error()
			return err
		}

		g := e2e.NewGen(w, rng.Int63(), e2e.GenOpt{Peers: 1, MaxSessions: 1})
		w.Assoc("p1")

		step := p.ShapeStep
		if step <= 0 {
			step = 1
		}

		for i, k := 0, p.ShapeFrom; i < p.Shapes && !w.Died; i, k = i+1, k+step {
			g.RunShape("p1", e2e.ShapeAt(k%e2e.ShapeCount))
		}

		for k, v := range g.Stats {
			sum.Stats[k] += v
		}

		sum.Lines += w.Lines
		sum.Steps += w.Steps
		sum.Accepted += w.Accepted
		sum.Died = sum.Died || w.Died
		w.Close()
		w = nil
	}

	closeWorld := func() {
		if p.Race && w != nil {
			sum.Stats["race_reports"] += w.RecordRaces()
		}

		w.Close()
	}

	for sc := 0; sc < p.Scenarios; sc++ {
		if w == nil {
			run++

			if err := newWorld(run); err != nil {
				sum.Err = err.Error()
				if w != nil {
					closeWorld()
				}

				return err
			}
		}

		g := e2e.NewGen(w, rng.Int63(), e2e.GenOpt{Peers: 1 + rng.Intn(3), MaxSessions: 1 + rng.Intn(5), UEAlloc: w.Cfg.UEIPAlloc,
			EndMarker: w.Cfg.EndMarker, Rejects: p.Rejects, FarBias: p.FarBias})

		for i := 0; i < p.Steps; i++ {
			if !g.Step() {
				break
			}
		}

		killNow := p.Kill && !w.Died && rng.Intn(3) == 0
		if !killNow {
			g.Finish()
		}

		for k, v := range g.Stats {
			sum.Stats[k] += v
		}

		sum.Scenarios++
		w.Flush()

		switch {
		case w.Died:
			sum.Died = true
			sum.Lines += w.Lines
			sum.Steps += w.Steps
			sum.Accepted += w.Accepted
			closeWorld()
			w = nil
		case killNow:
			// crash in the middle of the history (live sessions): the datapath keeps its tables, a new incarnation starts against them;
			// every other time the crash comes in the middle of a request, at the k-th command the datapath receives for it
			if rng.Intn(2) == 0 {
				w.KillAtWrite = 1 + rng.Intn(10)
				g.Step()
				sum.Stats["kill_mid_request"]++
			}

			w.KillAgent()

			if w.Cfg.NotifyBess && rng.Intn(2) == 0 {
				w.DropNotifySocket() // ... and finds the notify socket it is configured for missing
			}

			if err := w.StartAgent(); err != nil {
				sum.Err = err.Error()
				closeWorld()

				return err
			}
		case rng.Intn(4) == 0:
			// fresh world with another configuration
			sum.Lines += w.Lines
			sum.Steps += w.Steps
			sum.Accepted += w.Accepted
			closeWorld()
			w = nil
		}
	}

	if w != nil {
		sum.Lines += w.Lines
		sum.Steps += w.Steps
		sum.Accepted += w.Accepted
		closeWorld()
	}

	return nil
}

package checks

import (
	"bufio"
	"encoding/json"
	"fmt"
	"math/rand"
	"os"
	"path/filepath"
	"strconv"
	"sync"
	"time"

	"github.com/omec-project/upf-epc/pfcpiface"

	"verif/harness/internal/core"
)

func init() {
	Checks["C17"] = C17
	Workers["c17"] = c17Worker
}

// ---------------------------------------------------------------------------------------------
// worker: calls the real expansion functions and records call + result, one JSON line per call

type c17Line struct {
	Op       string     `json:"op"`
	Strategy string     `json:"strategy,omitempty"`
	Lo       *int       `json:"lo,omitempty"`
	Hi       *int       `json:"hi,omitempty"`
	Slo      *int       `json:"slo,omitempty"`
	Shi      *int       `json:"shi,omitempty"`
	Dlo      *int       `json:"dlo,omitempty"`
	Dhi      *int       `json:"dhi,omitempty"`
	Ok       bool       `json:"ok"`
	Rules    [][]uint16 `json:"rules"`
	Side     string     `json:"side,omitempty"` // op parse: which endpoint of the flow description carried the port text
	Rlo      *int       `json:"rlo,omitempty"`  // op parse: the range the parser returned
	Rhi      *int       `json:"rhi,omitempty"`
}

func ip(i int) *int { return &i }

type c17Summary struct {
	Lines      int64 `json:"lines"`
	Accepted   int64 `json:"accepted"`
	Refused    int64 `json:"refused"`
	Nontrivial int64 `json:"nontrivial"` // accepted with >= 2 rules
}

func c17Boundary() []int {
	b := map[int]bool{0: true, 1: true, 2: true, 3: true, 98: true, 99: true, 100: true, 101: true, 102: true, 65534: true, 65535: true}
	for k := 1; k <= 15; k++ {
		b[(1<<k)-1], b[1<<k], b[(1<<k)+1] = true, true, true
	}

	out := make([]int, 0, len(b))
	for v := range b {
		if v >= 0 && v <= 65535 {
			out = append(out, v)
		}
	}

	sortInts(out)

	return out
}

func sortInts(a []int) {
	for i := 1; i < len(a); i++ {
		for j := i; j > 0 && a[j-1] > a[j]; j-- {
			a[j-1], a[j] = a[j], a[j-1]
		}
	}
}

// c17Worker args: <outfile> <tier> <seed> <shard> <nshards>
func c17Worker(args []string) error {
	if len(args) != 5 {
		return fmt.Errorf("c17 worker: want 5 args")
	}

	out, tier := args[0], args[1]
	seed, _ := strconv.ParseInt(args[2], 10, 64)
	shard, _ := strconv.Atoi(args[3])
	nshards, _ := strconv.Atoi(args[4])

	f, err := os.Create(out)
	if err != nil {
		return err
	}
	defer f.Close()

	w := bufio.NewWriterSize(f, 1<<20)
	defer w.Flush()

	enc := json.NewEncoder(w)
	sum := c17Summary{}
	idx := 0
	mine := func() bool { idx++; return idx%nshards == shard }
	emit := func(l c17Line) {
		if l.Rules == nil {
			l.Rules = [][]uint16{}
		}

		sum.Lines++
		if l.Ok {
			sum.Accepted++
			if len(l.Rules) >= 2 {
				sum.Nontrivial++
			}
		} else {
			sum.Refused++
		}

		_ = enc.Encode(l)
	}
	expand := func(lo, hi int, strat int) {
		if !mine() {
			return
		}

		name := "exact"
		if strat == 1 {
			name = "ternary"
		}

		rs, err := pfcpiface.VerifPortRangeExpand(uint16(lo), uint16(hi), strat)
		l := c17Line{Op: "expand", Strategy: name, Lo: ip(lo), Hi: ip(hi), Ok: err == nil}

		for _, r := range rs {
			l.Rules = append(l.Rules, []uint16{r.Port, r.Mask})
		}

		emit(l)
	}
	trivial := func(lo, hi int) {
		if !mine() {
			return
		}

		r, err := pfcpiface.VerifPortRangeTrivial(uint16(lo), uint16(hi))
		l := c17Line{Op: "trivial", Lo: ip(lo), Hi: ip(hi), Ok: err == nil}

		if err == nil {
			l.Rules = [][]uint16{{r.Port, r.Mask}}
		}

		emit(l)
	}
	product := func(slo, shi, dlo, dhi int) {
		if !mine() {
			return
		}

		rs, err := pfcpiface.VerifPortRangeProduct(uint16(slo), uint16(shi), uint16(dlo), uint16(dhi))
		l := c17Line{Op: "product", Slo: ip(slo), Shi: ip(shi), Dlo: ip(dlo), Dhi: ip(dhi), Ok: err == nil}

		for _, r := range rs {
			l.Rules = append(l.Rules, []uint16{r.SrcPort, r.SrcMask, r.DstPort, r.DstMask})
		}

		emit(l)
	}

	// the textual form of a range in a flow description ("lo-hi" after the address of one endpoint): what the parser
	// hands to the expansion functions.  lo > hi is sent too (it must be refused, not read as something else).
	parse := func(lo, hi int, side string) {
		if !mine() {
			return
		}

		txt := fmt.Sprintf("%d-%d", lo, hi)
		desc := "permit out udp from 10.1.0.0/16 " + txt + " to assigned"

		if side == "dst" {
			desc = "permit out udp from any to 10.2.0.0/16 " + txt
		}

		fd, err := pfcpiface.VerifParseFlowDesc(desc, "10.250.0.7")
		l := c17Line{Op: "parse", Lo: ip(lo), Hi: ip(hi), Ok: err == nil, Side: side, Rlo: ip(0), Rhi: ip(0)}

		if err == nil && fd != nil {
			if side == "dst" {
				l.Rlo, l.Rhi = ip(int(fd.DstLow)), ip(int(fd.DstHigh))
			} else {
				l.Rlo, l.Rhi = ip(int(fd.SrcLow)), ip(int(fd.SrcHigh))
			}
		}

		emit(l)
	}

	// (i) all pairs of boundary values, every function
	b := c17Boundary()
	for i, lo := range b {
		for j, hi := range b {
			parse(lo, hi, []string{"src", "dst"}[(i+j)%2])
		}
	}

	for _, lo := range b {
		for _, hi := range b {
			if lo <= hi {
				expand(lo, hi, 0)
				expand(lo, hi, 1)
				trivial(lo, hi)
			}
		}
	}

	// (ii) products over boundary ranges
	b2 := []int{0, 1, 2, 80, 99, 100, 101, 1023, 1024, 65534, 65535}
	type rg struct{ lo, hi int }

	var ranges []rg

	for _, lo := range b2 {
		for _, hi := range b2 {
			if lo <= hi {
				ranges = append(ranges, rg{lo, hi})
			}
		}
	}

	for _, s := range ranges {
		for _, d := range ranges {
			product(s.lo, s.hi, d.lo, d.hi)
		}
	}

	// (iii) seeded random ranges: small widths around the exact-strategy limit, and arbitrary ones
	rng := rand.New(rand.NewSource(seed))
	nRand := 4000

	if tier == "thorough" {
		nRand = 60000
	}

	randRange := func() (int, int) {
		switch rng.Intn(4) {
		case 0:
			lo := rng.Intn(65536)
			wd := 1 + rng.Intn(110)

			hi := lo + wd - 1
			if hi > 65535 {
				hi = 65535
			}

			return lo, hi
		case 1:
			p := rng.Intn(65536)
			return p, p
		default:
			a, c := rng.Intn(65536), rng.Intn(65536)
			if a > c {
				a, c = c, a
			}

			return a, c
		}
	}

	for i := 0; i < nRand; i++ {
		lo, hi := randRange()
		expand(lo, hi, rng.Intn(2))

		if i%2 == 0 {
			slo, shi := randRange()
			dlo, dhi := randRange()

			if rng.Intn(3) > 0 { // make most products representable: one side exact or wildcard
				switch rng.Intn(3) {
				case 0:
					dhi = dlo
				case 1:
					dlo, dhi = 0, 65535
				case 2:
					shi = slo
				}
			}

			product(slo, shi, dlo, dhi)
		}
	}

	// (iv) thorough: every low port x boundary widths; boundary lows x every width <= 102
	if tier == "thorough" {
		widths := []int{1, 2, 3, 50, 99, 100, 101, 102}
		for lo := 0; lo <= 65535; lo++ {
			for _, wd := range widths {
				hi := lo + wd - 1
				if hi > 65535 {
					continue
				}

				expand(lo, hi, 0)
				expand(lo, hi, 1)
			}
		}

		for _, lo := range b {
			for wd := 1; wd <= 102; wd++ {
				hi := lo + wd - 1
				if hi > 65535 {
					continue
				}

				expand(lo, hi, 0)
				expand(lo, hi, 1)
				product(lo, hi, 0, 65535)
				product(443, 443, lo, hi)
			}
		}
	}

	w.Flush()

	sb, _ := json.Marshal(sum)

	return os.WriteFile(out+".summary", sb, 0o644)
}

// ---------------------------------------------------------------------------------------------
// orchestration

// C17: port ranges are expanded exactly or refused.
func C17(c *core.Ctx) {
	c.Assume("the exported wrappers in pfcpiface/verif_on.go call the unexported functions unchanged")
	c.Assume("TLC and the CommunityModules Bitwise/Json modules are correct")
	c.SetCov("rule", "model: every (lo,hi) of a W-bit port space through the transcribed algorithms; implementation: every recorded call of "+
		"asComplexTernaryMatches / asTrivialTernaryMatch / CreatePortRangeCartesianProduct judged by ExactCover on the returned rules; "+
		"non-trivial = accepted call that returned at least two rules; distinct = distinct argument tuples (generated without repetition per family)")

	// 1. design level: the transcribed algorithms are exact for small widths (I-model against R predicates),
	//    and the R predicates agree with the naive set definition (oracle validation)
	type mc struct {
		module, cfg string
		workers     int
	}

	mcs := []mc{{"MCPortRange", "MCPortRange.cfg", 8}, {"MCPortRange", "MCPortRange6.cfg", 4}, {"MCPortRangePair", "MCPortRangePair.cfg", 4}}
	if c.Thorough() {
		mcs = append(mcs, mc{"MCPortRange", "MCPortRange8.cfg", 8})
	}

	var wg sync.WaitGroup

	for _, m := range mcs {
		wg.Add(1)

		go func(m mc) {
			defer wg.Done()

			r, err := c.RunTLC(core.TLCRun{Module: m.module, Cfg: m.cfg, Workers: m.workers, HeapMB: 2048, Timeout: 15 * time.Minute, Label: "mc"})
			if err != nil {
				c.Inconclusive("TLC could not run %s: %v", m.cfg, err)
				return
			}

			c.AddTLC("mc", r)

			if !r.OK() {
				// a counterexample on the transcription is a candidate only; the verdict comes from the traces below
				c.Inconclusive("model check %s did not pass (violated=%q err=%q timeout=%v): transcription or oracle needs attention",
					m.cfg, r.Violated, r.ErrorText, r.TimedOut)
			}
		}(m)
	}

	// 2. implementation level: record calls of the real functions, validate every line with TLC
	nshards := 8
	if c.Thorough() {
		nshards = 14
	}

	type shardRes struct {
		trace string
		wr    *core.WorkerResult
		tr    *core.TLCResult
		err   error
	}

	res := make([]shardRes, nshards)

	for s := 0; s < nshards; s++ {
		wg.Add(1)

		go func(s int) {
			defer wg.Done()

			trace := filepath.Join(c.Scratch, fmt.Sprintf("c17-%d.ndjson", s))
			res[s].trace = trace
			res[s].wr = c.RunWorker(10*time.Minute, "c17", trace, c.Tier, strconv.FormatInt(c.Seed, 10), strconv.Itoa(s), strconv.Itoa(nshards))

			if res[s].wr.Panic != "" && res[s].wr.Site != "unknown" {
				// the code under test died: append the observation; no action of the trace spec consumes it
				f, _ := os.OpenFile(trace, os.O_APPEND|os.O_WRONLY|os.O_CREATE, 0o644)
				fmt.Fprintf(f, "{\"op\":\"died\",\"site\":%q,\"panic\":%q}\n", res[s].wr.Site, res[s].wr.Panic)
				f.Close()
			} else if res[s].wr.ExitCode != 0 || res[s].wr.TimedOut {
				res[s].err = fmt.Errorf("worker failed: exit=%d timeout=%v: %s", res[s].wr.ExitCode, res[s].wr.TimedOut, tail(res[s].wr.Stderr, 400))
				return
			}

			res[s].tr, res[s].err = c.RunTLC(core.TLCRun{Module: "TraceC17", Workers: 1, HeapMB: 1500, Timeout: 25 * time.Minute,
				Env: map[string]string{"TRACE_FILE": trace}, Label: fmt.Sprintf("validate-%d", s)})
		}(s)
	}

	wg.Wait()

	for s := 0; s < nshards; s++ {
		r := res[s]
		if r.err != nil {
			c.Inconclusive("shard %d: %v", s, r.err)
			continue
		}

		if b, err := os.ReadFile(r.trace + ".summary"); err == nil {
			var sum c17Summary
			if json.Unmarshal(b, &sum) == nil {
				c.AddCount("evaluations", sum.Lines)
				c.AddCount("distinct_nontrivial", sum.Nontrivial)
				c.AddCount("accepted_calls", sum.Accepted)
				c.AddCount("refused_calls", sum.Refused)
			}
		}

		c.AddTLC("validate", r.tr)

		switch {
		case r.tr.Violated != "" || r.tr.PostFailed:
			lineNo := traceLineOfFailure(r.tr)
			line := readLine(r.trace, lineNo)
			what := r.tr.Violated

			if what == "" {
				what = "event not explained by the specification"
			}

			dir := c.SaveReplay(fmt.Sprintf("shard%d", s), map[string]string{"tlc.out": r.tr.OutputPath},
				map[string][]byte{"failing_line.ndjson": []byte(line + "\n"), "worker.stderr": []byte(r.wr.Stderr)})
			c.Violate(fmt.Sprintf("%s at trace line %d: %s", what, lineNo, trunc(line, 600)), dir)
		case !r.tr.OK():
			c.Inconclusive("shard %d: TLC validation did not complete (err=%q timeout=%v, output %s)", s, r.tr.ErrorText, r.tr.TimedOut, r.tr.OutputPath)
		default:
			c.AddCount("traces_validated_against_impl", 1)

			if s == 0 {
				for _, n := range []int{1, 2, 40, 2000} {
					if ln := readLine(r.trace, n); ln != "" {
						var v interface{}
						if json.Unmarshal([]byte(ln), &v) == nil {
							c.AddSample(v)
						}
					}
				}
			}
		}
	}

	c.SetCov("exhaustive", false)
	c.SetCov("model_exhaustive", "all (lo,hi) for W=5 (with oracle validation), W=6"+map[bool]string{true: ", W=8", false: ""}[c.Thorough()]+"; boundary-class pairs for the product at W=5")
}

// traceLineOfFailure: the line (1-based) whose consumption failed or produced the violating state.
func traceLineOfFailure(r *core.TLCResult) int {
	if r.Violated != "" {
		if v, ok := r.LastState["l"]; ok {
			if n, err := strconv.Atoi(v); err == nil {
				return n - 1
			}
		}
	}

	for _, p := range r.Printed {
		var hw, n int
		if _, err := fmt.Sscanf(p, "<<\"HW\", %d, %d>>", &hw, &n); err == nil {
			return hw
		}
	}

	return 0
}

func readLine(path string, n int) string {
	if n <= 0 {
		return ""
	}

	f, err := os.Open(path)
	if err != nil {
		return ""
	}
	defer f.Close()

	sc := bufio.NewScanner(f)
	sc.Buffer(make([]byte, 1<<20), 1<<28)

	for i := 1; sc.Scan(); i++ {
		if i == n {
			return sc.Text()
		}
	}

	return ""
}

func trunc(s string, n int) string {
	if len(s) > n {
		return s[:n] + "..."
	}

	return s
}

func tail(s string, n int) string {
	if len(s) > n {
		return "..." + s[len(s)-n:]
	}

	return s
}

package checks

import (
	"bytes"
	"fmt"
	"os"
	"os/exec"
	"path/filepath"
	"time"

	"verif/harness/internal/core"
)

func init() {
	Checks["C16"] = C16
}

// C16: every P4Runtime write is valid for the shipped pipeline; the compiled-in constants are the
// ones the generator derives from the shipped P4Info, deterministically.
func C16(c *core.Ctx) {
	shards, scen, steps := 6, 3, 30
	if c.Thorough() {
		shards, scen, steps = 14, 12, 60
	}

	c.SetCov("rule", "seeded randomised PFCP histories on the UP4 datapath with boundary values (precedences 0 / 65535 / beyond, any 32-bit TEID and address, "+
		"QFIs up to 63, port ranges touching 0 and 65535, prefix lengths 1..32, slice ids 0..15, traffic classes 0..3; one shard in six first establishes 530 sessions that drain both meter pools); every update the harness' P4Runtime "+
		"server received is judged by P4Valid!WriteValid against the P4Info parsed from the shipped file; the constants generator is run several times on the "+
		"shipped P4Info and its output compared byte for byte with itself and (after gofmt) with the committed constants; evaluations = script steps")

	res := runE2EShards(c, "e2e-up4", shards, "TraceE2E_C16.cfg", func(i int) interface{} {
		d, tr := shardDir(c, i)
		pr := Up4Params{Dir: d, Trace: tr, AgentBin: filepath.Join(c.BinDir, "verif-agent"), N4Addr: n4For(i), Seed: c.Seed*1000 + 500 + int64(i), Scenarios: scen, Steps: steps,
			Kill: i%3 == 0, AddFlows: true, Wide: true}
		if i%6 == 1 { // the meter pools are drained first: indices at the edge of the arrays
			pr.Drain, pr.Kill = 530, false
		}

		return pr
	})
	judgeE2E(c, res, map[string]bool{"InEnvelope": true})

	constantsCheck(c)
}

// constantsCheck regenerates internal/p4constants from the shipped P4Info.
func constantsCheck(c *core.Ctx) {
	// (the generator is built once and run many times: an order that depends on Go's map iteration shows in a fraction of
	// the runs only - with three enumerations in the shipped P4Info, in about one run out of four)
	runs := 48
	if c.Thorough() {
		runs = 300
	}

	dir := filepath.Join(c.Scratch, "constants")
	_ = os.MkdirAll(dir, 0o755)

	gen := filepath.Join(dir, "p4info_code_gen")
	bld := exec.Command("go", "build", "-o", gen, "./cmd/p4info_code_gen")
	bld.Dir = "/repo"
	bld.Env = append(os.Environ(), "GOFLAGS=-mod=mod", "GOPROXY=off")

	if outb, err := bld.CombinedOutput(); err != nil {
		c.Inconclusive("constants generator cannot be built: %v: %s", err, tail(string(outb), 400))
		return
	}

	var first []byte

	for i := 0; i < runs; i++ {
		out := filepath.Join(dir, fmt.Sprintf("gen%d.go", i))
		cmd := exec.Command(gen, "-p4info", "conf/p4/bin/p4info.txt", "-output", out)
		cmd.Dir = "/repo"

		done := make(chan error, 1)

		var stderr bytes.Buffer
		cmd.Stderr = &stderr

		if err := cmd.Start(); err != nil {
			c.Inconclusive("constants generator cannot be started: %v", err)
			return
		}

		go func() { done <- cmd.Wait() }()

		select {
		case err := <-done:
			if err != nil {
				c.Inconclusive("constants generator failed: %v: %s", err, tail(stderr.String(), 400))
				return
			}
		case <-time.After(5 * time.Minute):
			_ = cmd.Process.Kill()
			c.Inconclusive("constants generator timed out")

			return
		}

		b, err := os.ReadFile(out)
		if err != nil {
			c.Inconclusive("constants generator wrote nothing: %v", err)
			return
		}

		c.AddCount("generator_runs", 1)

		if first == nil {
			first = b
			continue
		}

		if !bytes.Equal(first, b) {
			d := c.SaveReplay("constants-nondeterministic", map[string]string{"a.go": filepath.Join(dir, "gen0.go"), "b.go": out}, nil)
			c.Violate("the constants generator produced two different outputs for the shipped P4Info", d)

			return
		}
	}

	// committed file = gofmt(generated)
	fm := exec.Command("gofmt")
	fm.Stdin = bytes.NewReader(first)

	formatted, err := fm.Output()
	if err != nil {
		c.Inconclusive("gofmt of the generated constants failed: %v", err)
		return
	}

	committed, err := os.ReadFile("/repo/internal/p4constants/p4constants.go")
	if err != nil {
		c.Inconclusive("committed constants unreadable: %v", err)
		return
	}

	if !bytes.Equal(formatted, committed) {
		d := c.SaveReplay("constants-differ", nil, map[string][]byte{"generated.go": formatted, "committed.go": committed})
		c.Violate("internal/p4constants/p4constants.go differs from what the generator derives from conf/p4/bin/p4info.txt", d)

		return
	}

	c.AddCount("constants_bytes_compared", int64(len(committed)))
}

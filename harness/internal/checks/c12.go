package checks

import (
	"encoding/json"
	"fmt"
	"io"
	"math/rand"
	"net/http"
	"os"
	"path/filepath"
	"strings"
	"sync"
	"time"

	"github.com/wmnsk/go-pfcp/ie"
	"github.com/wmnsk/go-pfcp/message"

	"verif/harness/internal/agent"
	"verif/harness/internal/core"
	"verif/harness/internal/e2e"
	"verif/harness/internal/pfcpx"
)

func init() {
	Checks["C12"] = C12
	Workers["e2e-retrans"] = e2eRetransWorker
}

// RetransParams parameterises the C12 driver.
type RetransParams struct {
	Dir      string `json:"dir"`
	Trace    string `json:"trace"`
	AgentBin string `json:"agentBin"`
	N4Addr   string `json:"n4"`
	Seed     int64  `json:"seed"`
	Mode     string `json:"mode"` // hb | initiate | connect
	N        int    `json:"n"`    // max_req_retries
	TMs      int    `json:"tMs"`  // resp_timeout
	IMs      int    `json:"iMs"`  // heart_beat_interval
	Rounds   int    `json:"rounds"`
	PeerIP   string `json:"peerIp"`   // initiate: address the agent dials
	Datapath string `json:"datapath"` // connect mode: bess (default) | up4
}

type rtPlan struct {
	mode string
	k    int
}

func e2eRetransWorker(args []string) error {
	var p RetransParams
	if err := json.Unmarshal([]byte(args[0]), &p); err != nil {
		return err
	}

	rng := rand.New(rand.NewSource(p.Seed))
	sum := E2ESummary{Stats: map[string]int{}}

	defer func() {
		b, _ := json.Marshal(sum)
		_ = os.WriteFile(p.Trace+".summary", b, 0o644)
	}()

	fail := func(format string, a ...interface{}) error {
		sum.Err = fmt.Sprintf(format, a...)
		return fmt.Errorf("%s", sum.Err)
	}

	cfg := agent.Cfg{N4Addr: p.N4Addr, Datapath: "bess", LogLevel: "warn", ReadTimeout: 60, RespTimeout: fmt.Sprintf("%dms", p.TMs), MaxReqRetries: p.N,
		HBTimer: p.Mode != "connect", HBInterval: fmt.Sprintf("%dms", p.IMs), UEIPAlloc: rng.Intn(2) == 0, UEPool: "10.250.0.0/24", EndMarker: rng.Intn(2) == 0}
	if p.Mode == "initiate" {
		cfg.Peers = []string{p.PeerIP}
	}

	if p.Datapath == "up4" {
		u := up4Cfg(rng, p.N4Addr)
		u.HBTimer, u.HBInterval, u.RespTimeout, u.MaxReqRetries, u.ReadTimeout = cfg.HBTimer, cfg.HBInterval, cfg.RespTimeout, cfg.MaxReqRetries, cfg.ReadTimeout
		cfg = u
	}

	w, err := e2e.NewWorld(filepath.Join(p.Dir, "w"), p.AgentBin, p.Trace, cfg, int(p.Seed%1000)*1000+1)
	if err != nil {
		return err
	}
	defer w.Close()

	w.SnapEvery = true
	T := time.Duration(p.TMs) * time.Millisecond
	I := time.Duration(p.IMs) * time.Millisecond

	// the scripted peer decides per sequence number (at its first transmission) what to do with it
	var pmu sync.Mutex

	curPlan := rtPlan{"kth", 1}
	planMap := map[uint32]rtPlan{}
	setCur := func(pl rtPlan) { pmu.Lock(); curPlan = pl; pmu.Unlock() }
	// the peer's reader records a request before it consults the policy: wait for the plan to be fixed
	planOf := func(seq uint32) rtPlan {
		for i := 0; ; i++ {
			pmu.Lock()
			pl, ok := planMap[seq]
			pmu.Unlock()

			if ok || i > 500 {
				return pl
			}

			time.Sleep(time.Millisecond)
		}
	}
	policy := func(d pfcpx.Dgram, nth int) []pfcpx.Answer {
		pmu.Lock()
		pl, ok := planMap[d.Seq]
		if !ok {
			pl = curPlan
			planMap[d.Seq] = pl
		}
		pmu.Unlock()

		switch pl.mode {
		case "kth":
			if nth == pl.k {
				return []pfcpx.Answer{{}}
			}
		case "dup":
			if nth == pl.k {
				return []pfcpx.Answer{{}, {}, {Delay: 3 * time.Millisecond}}
			}
		case "wrongseq":
			if nth == pl.k {
				return []pfcpx.Answer{{SeqDiff: 5}, {}}
			}

			return []pfcpx.Answer{{SeqDiff: 7}, {SeqDiff: -1}}
		case "late": // recorded as "none": the only answers come long after the budget ran out
			return []pfcpx.Answer{{Delay: time.Duration(p.N+3) * T}}
		case "nocause": // Association Setup Response without Cause
			return []pfcpx.Answer{{NoCause: true}}
		case "rejected":
			return []pfcpx.Answer{{Cause: 64}}
		}

		return nil
	}
	txOf := func(peer *pfcpx.Peer, seq uint32, typ uint8) []int {
		var out []int

		for _, d := range peer.Requests() {
			if d.Seq == seq && d.TypeNum == int(typ) {
				out = append(out, w.Ms(d.At))
			}
		}

		return out
	}
	// roundOver waits for the end of a round in which the peer answers the k-th transmission: until that transmission
	// has arrived (however late the agent's timer fires under load; a generous limit), then one and a half time-outs more,
	// in which a superfluous transmission would show
	roundOver := func(peer *pfcpx.Peer, seq uint32, typ uint8, k int) {
		for dl := time.Now().Add(time.Duration(k+8)*T + time.Second); time.Now().Before(dl) && len(txOf(peer, seq, typ)) < k; {
			time.Sleep(T / 10)
		}

		time.Sleep(T + T/2)
	}

	// first request with a sequence number not seen among the first `have` recorded requests
	nextReq := func(peer *pfcpx.Peer, have int, timeout time.Duration) (pfcpx.Dgram, bool) {
		deadline := time.Now().Add(timeout)
		for time.Now().Before(deadline) {
			rs := peer.Requests()
			seen := map[uint32]bool{}

			for _, d := range rs[:have] {
				seen[d.Seq] = true
			}

			for _, d := range rs[have:] {
				if !seen[d.Seq] {
					return d, true
				}
			}

			time.Sleep(time.Millisecond)
		}

		return pfcpx.Dgram{}, false
	}
	pick := func() rtPlan {
		switch rng.Intn(7) {
		case 0:
			return rtPlan{"dup", 1 + rng.Intn(p.N+1)}
		case 1:
			return rtPlan{"wrongseq", 1 + rng.Intn(p.N+1)}
		default:
			return rtPlan{"kth", 1 + rng.Intn(p.N+1)}
		}
	}
	gapDone := false // the first series of heartbeat rounds always has a forced gap round
	// drive the heartbeat rounds of an established association of peer `name`; ends with the peer going silent
	hbRounds := func(name string, withSession bool) error {
		peer := w.Peer(name)
		ue := uint32(0x0AD80000 + rng.Intn(1<<12)<<4)
		cp := uint64(rng.Int63())

		if withSession {
			w.Estab(name, simpleSession(cp, ue, 1))
		}

		// one round in which the answer arrives in the gap between the k-th time-out and the retransmission that follows
		// it (the requester is held at the scheduling point behind its timer while the peer answers): the request counts
		// as answered - at most the retransmission already decided on leaves, and the peer is not given up
		if (!gapDone || rng.Intn(2) == 0) && p.N >= 1 && !w.Died {
			gapDone = true
			k := 1 + rng.Intn(p.N)
			have := len(peer.Requests())
			before := w.TeardownCount(name)
			setCur(rtPlan{"gap", k})
			_ = w.Agent.Gate("conn.req.timeout", true)

			d, ok := nextReq(peer, have, 5*I+2*time.Second)
			if !ok {
				_ = w.Agent.Gate("conn.req.timeout", false)
				w.ReleaseParked()

				return fail("no heartbeat from the agent")
			}

			setCur(rtPlan{"kth", 1}) // the plan of this request is fixed; the heartbeats that follow are answered at once

			prefix := fmt.Sprintf("%s %d ", peer.LocalAddr(), d.Seq)
			held := 0

			for j := 1; j <= k; j++ {
				held = w.WaitParked("conn.req.timeout", prefix, j, time.Duration(8)*T+2*time.Second)
				if held == 0 {
					break
				}

				if j < k {
					_ = w.Agent.Go(held)
				}
			}

			if held != 0 {
				_ = peer.Send(message.NewHeartbeatResponse(d.Seq, ie.NewRecoveryTimeStamp(peer.TS)))
				time.Sleep(10 * time.Millisecond)
			}

			_ = w.Agent.Gate("conn.req.timeout", false)

			if held != 0 {
				_ = w.Agent.Go(held)
			}

			w.ReleaseParked()

			if held != 0 {
				time.Sleep(time.Duration(p.N-k+1)*T + T + T/2) // a requester that missed the answer goes on until its budget is used up
				dead := w.TeardownCount(name) > before
				w.Retrans(name, "hb", d.Seq, txOf(peer, d.Seq, message.MsgTypeHeartbeatRequest), "gap", k, dead, p.N, p.TMs)
				sum.Stats["round_gap"]++

				if dead {
					if withSession {
						w.RecordLost(name, "given up although answered")
					}

					return nil
				}
			} else {
				sum.Stats["round_gap_nogate"]++ // hooks absent or moved: no forced gap, nothing recorded
			}
		}

		for i := 0; i < 3+rng.Intn(3) && !w.Died; i++ {
			have := len(peer.Requests())
			before := w.TeardownCount(name)
			setCur(pick())

			d, ok := nextReq(peer, have, 5*I+2*time.Second)
			if !ok {
				return fail("no heartbeat from the agent")
			}

			pl := planOf(d.Seq)
			if pl.mode == "" {
				return fail("the scripted peer has no plan for sequence number %d", d.Seq)
			}

			roundOver(peer, d.Seq, message.MsgTypeHeartbeatRequest, pl.k)
			// whether the agent gave the peer up although it was answered is observed, not assumed
			dead := w.TeardownCount(name) > before
			w.Retrans(name, "hb", d.Seq, txOf(peer, d.Seq, message.MsgTypeHeartbeatRequest), pl.mode, pl.k, dead, p.N, p.TMs)
			sum.Stats["round_"+pl.mode]++

			if dead {
				if withSession {
					w.RecordLost(name, "given up although answered")
				}

				return nil
			}

			if withSession && rng.Intn(3) == 0 {
				w.Heartbeat(name) // the peer's heartbeats are answered with the same Recovery Time Stamp
			}
		}

		// the peer's own heartbeat in the middle of the interval postpones the agent's next one
		if p.IMs >= 80 && withSession {
			setCur(rtPlan{"kth", 1})

			if d0, ok := nextReq(peer, len(peer.Requests()), 5*I+2*time.Second); ok {
				time.Sleep(I / 2)
				at := time.Now()
				w.Heartbeat(name)

				if d1, ok := nextReq(peer, len(peer.Requests()), 5*I+2*time.Second); ok {
					w.Postpone(name, w.Ms(d0.At), w.Ms(at), w.Ms(d1.At), p.IMs)
					sum.Stats["postpone"]++
				}
			}
		}

		// finally the peer stops answering (or answers far too late): dead after 1 + N transmissions, sessions removed
		setCur(rtPlan{"none", 0})
		if rng.Intn(3) == 0 {
			setCur(rtPlan{"late", 0})
		}

		before := w.TeardownCount(name)

		d, ok := nextReq(peer, len(peer.Requests()), 5*I+2*time.Second)
		if !ok {
			return fail("no heartbeat from the agent")
		}

		dead := w.AwaitTeardown(name, before, time.Duration(p.N+2)*T+3*time.Second)
		w.Retrans(name, "hb", d.Seq, txOf(peer, d.Seq, message.MsgTypeHeartbeatRequest), "none", 0, dead, p.N, p.TMs)
		sum.Stats["round_none"]++

		if dead && withSession {
			w.RecordLost(name, "heartbeats unanswered")
		}

		time.Sleep(time.Duration(p.N+4) * T) // late answers arrive now: they must be inert
		setCur(rtPlan{"kth", 1})

		return nil
	}

	switch p.Mode {
	case "hb":
		if err := w.StartAgent(); err != nil {
			return fail("%v", err)
		}

		w.Peer("p1").SetPolicy(policy)

		for round := 0; round < p.Rounds && !w.Died; round++ {
			// a new association numbers its requests from 1 again: what the scripted peer remembers by sequence number is forgotten
			w.Peer("p1").ResetRequests()
			pmu.Lock()
			for k := range planMap {
				delete(planMap, k)
			}
			pmu.Unlock()

			w.Heartbeat("p1") // heartbeats before association are answered too

			setCur(rtPlan{"kth", 1})
			if ds := w.Assoc("p1"); len(ds) != 1 || ds[0].Cause != 1 {
				return fail("association not accepted")
			}

			if err := hbRounds("p1", true); err != nil {
				return err
			}
		}
	case "initiate":
		peer, err := w.PeerAt("cp", p.PeerIP+":8805")
		if err != nil {
			return fail("cannot bind %s:8805: %v", p.PeerIP, err)
		}

		peer.SetPolicy(policy)

		for round := 0; round < p.Rounds; round++ {
			switch rng.Intn(5) {
			case 0:
				setCur(rtPlan{"none", 0})
			case 1:
				setCur(rtPlan{"nocause", 1})
			case 2:
				setCur(rtPlan{"rejected", 1})
			default:
				setCur(pick())
			}

			pmu.Lock()
			first := curPlan
			pmu.Unlock()

			if w.Agent != nil {
				w.KillAgent()
			}

			// a new incarnation numbers its requests from 1 again
			peer.ResetRequests()
			pmu.Lock()
			for k := range planMap {
				delete(planMap, k)
			}
			pmu.Unlock()

			have := 0

			if err := w.StartAgent(); err != nil {
				return fail("%v", err)
			}

			d, ok := nextReq(peer, have, 3*time.Second)
			if !ok {
				return fail("the agent did not initiate an association")
			}

			if d.TypeNum != int(message.MsgTypeAssociationSetupRequest) {
				return fail("first agent-originated request is %s", d.Type)
			}

			switch first.mode {
			case "none":
				time.Sleep(time.Duration(p.N+2)*T + T/2)
				w.Retrans("cp", "assocreq", d.Seq, txOf(peer, d.Seq, message.MsgTypeAssociationSetupRequest), "none", 0, true, p.N, p.TMs)
			case "nocause", "rejected":
				time.Sleep(2 * T)
				w.Retrans("cp", "assocreq", d.Seq, txOf(peer, d.Seq, message.MsgTypeAssociationSetupRequest), "kth", 1, false, p.N, p.TMs)
			default:
				roundOver(peer, d.Seq, message.MsgTypeAssociationSetupRequest, first.k)
				w.Retrans("cp", "assocreq", d.Seq, txOf(peer, d.Seq, message.MsgTypeAssociationSetupRequest), first.mode, first.k, false, p.N, p.TMs)

				// the association is up: heartbeats follow the same contract
				if err := hbRounds("cp", false); err != nil {
					return err
				}
			}

			sum.Stats["initiate_"+first.mode]++
			w.CheckAlive()

			if w.Died {
				break
			}
		}
	case "connect":
		if err := w.StartAgent(); err != nil {
			return fail("%v", err)
		}

		connected := func() (bool, bool) {
			raw, err := w.Agent.Snapshot(time.Second)
			if err != nil {
				return false, false
			}

			var sn struct {
				Connected bool `json:"connected"`
			}

			return sn.Connected, json.Unmarshal([]byte(raw), &sn) == nil && true
		}
		waitConn := func(want bool, nudge bool) bool {
			deadline := time.Now().Add(6 * time.Second)
			for time.Now().Before(deadline) {
				raw, err := w.Agent.Snapshot(time.Second)
				if err == nil {
					var sn struct {
						Connected bool `json:"connected"`
					}

					if json.Unmarshal([]byte(raw), &sn) == nil && sn.Connected == want {
						return true
					}
				}

				if nudge && w.P4 != nil {
					// UP4: the plug-in looks at its channel again when it has something to write (or every two minutes); a
					// slice configuration request makes it try to connect
					doc := `{"sliceName":"s","sliceQos":{"uplinkMbr":10,"downlinkMbr":10,"bitrateUnit":"Mbps","uplinkBurstSize":1000,"downlinkBurstSize":1000}}`
					if resp, err := (&http.Client{Timeout: 3 * time.Second}).Post(w.Agent.HTTPBase()+"/v1/config/network-slices", "application/json", strings.NewReader(doc)); err == nil {
						_, _ = io.Copy(io.Discard, resp.Body)
						resp.Body.Close()
					}
				} else if nudge { // a metrics scrape makes the agent attempt an RPC, which lets the idle gRPC channel reconnect
					if resp, err := (&http.Client{Timeout: time.Second}).Get(w.Agent.HTTPBase() + "/metrics"); err == nil {
						_, _ = io.Copy(io.Discard, resp.Body)
						resp.Body.Close()
					}
				}

				time.Sleep(30 * time.Millisecond)
			}

			return false
		}
		_ = connected

		for round := 0; round < p.Rounds && !w.Died; round++ {
			a, b := fmt.Sprintf("a%d", round), fmt.Sprintf("b%d", round)

			w.Assoc(a)
			w.Heartbeat(a)

			if w.P4 != nil {
				w.P4.Stop()
			} else {
				w.Bess.Stop()
			}

			if w.P4 == nil {
				// BESS: the first attempt after the loss is judged by what the harness knows - it closed the server and every
				// connection of the agent 300 ms ago - and not by the agent's own view, which is asked only afterwards (asking
				// makes the agent look at its channel, and a channel that was merely parked would start to reconnect)
				time.Sleep(300 * time.Millisecond)

				w.ConnTruth = "down"
				w.Assoc(fmt.Sprintf("c%d", round))
				w.ConnTruth = ""
			}

			if !waitConn(false, true) {
				return fail("the agent never noticed that the datapath went away")
			}

			w.Heartbeat(a) // still answered
			w.Assoc(b)     // must be rejected, features still advertised
			w.Assoc(a)

			if w.P4 != nil {
				if err := w.P4.Restart(); err != nil {
					return fail("restart of the P4Runtime server: %v", err)
				}
			} else if err := w.Bess.Restart(); err != nil {
				return fail("restart of the BESS server: %v", err)
			}

			if !waitConn(true, true) {
				return fail("the agent never reconnected to the datapath")
			}

			// what the agent writes on reconnecting is not the next request's doing: a heartbeat step records the datapath first
			w.DpIdle(100*time.Millisecond, 3*time.Second)
			w.Heartbeat(a)

			// b's association was refused: whatever b sends next on the same connection, it is not associated
			w.Estab(b, simpleSession(uint64(rng.Int63()), uint32(0x0AD90001+round), 1))
			w.Assoc(b)
			w.Release(a)
			w.Release(b)
			sum.Stats["connect_round"]++
		}
	}

	sum.Scenarios = 1
	sum.Lines, sum.Steps, sum.Accepted, sum.Died = w.Lines, w.Steps, w.Accepted, w.Died

	return nil
}

// C12: association, heartbeat and retransmission contract.
func C12(c *core.Ctx) {
	c.SetCov("rule", "scripted lossy peer for agent-originated Heartbeat Requests and UPF-initiated Association Setup Requests: answer the k-th transmission (k = 1..N+1), none, late, twice, with wrong "+
		"sequence numbers, without Cause, rejected; N in {1,2,3}, response time-outs 40-60 ms; peer heartbeat at mid-interval; datapath (BESS server, and the P4Runtime switch of the UP4 plug-in) stopped / restarted around association attempts with the agent's "+
		"isConnected read from the guarded snapshot; random feature configurations; model: Retrans.tla (loop as coded, adversarial peer, N = 3); evaluations = script steps")
	c.Assume("timing is judged with one-sided 20 % tolerances on the harness' clock; 'connected' is the agent's own view (snapshot) immediately before the request")

	r, err := c.RunTLC(core.TLCRun{Module: "Retrans", Cfg: "MCRetrans.cfg", Workers: 4, HeapMB: 2048, Timeout: 5 * time.Minute, Label: "mc"})
	if err != nil || !r.OK() {
		c.Inconclusive("model check of Retrans did not pass")
	} else {
		c.AddTLC("mc", r)
	}

	type sp struct {
		mode       string
		n, t, i, r int
	}

	specs := []sp{{"hb", 1, 40, 100, 1}, {"hb", 2, 40, 100, 1}, {"initiate", 1, 40, 100, 3}, {"initiate", 2, 50, 120, 3}, {"connect", 5, 2000, 100, 1}, {"hb", 3, 40, 90, 1}, {"connect-up4", 5, 2000, 100, 1}}
	if c.Thorough() {
		specs = nil
		for n := 1; n <= 5; n++ {
			specs = append(specs, sp{"hb", n, 40, 100, 4}, sp{"hb", n, 60, 150, 3})
		}

		specs = append(specs, sp{"initiate", 1, 40, 100, 12}, sp{"initiate", 3, 50, 120, 12}, sp{"connect", 5, 2000, 100, 4}, sp{"connect", 5, 2000, 100, 4}, sp{"connect-up4", 5, 2000, 100, 4})
	}

	res := runE2EMixed(c, len(specs), "TraceE2E_C12.cfg", func(i int) (string, interface{}) {
		dir, trace := shardDir(c, i)
		s := specs[i]
		dp := ""

		if s.mode == "connect-up4" {
			s.mode, dp = "connect", "up4"
		}

		return "e2e-retrans", RetransParams{Datapath: dp, Dir: dir, Trace: trace, AgentBin: filepath.Join(c.BinDir, "verif-agent"), N4Addr: n4For(i), Seed: c.Seed*1000 + 120 + int64(i),
			Mode: s.mode, N: s.n, TMs: s.t, IMs: s.i, Rounds: s.r, PeerIP: fmt.Sprintf("127.%d.%d.%d", 130+(os.Getpid()/250)%100, 1+os.Getpid()%250, 100+i)}
	})
	judgeE2E(c, res, map[string]bool{"InEnvelope": true})
}

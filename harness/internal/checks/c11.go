package checks

import (
	"encoding/json"
	"fmt"
	"math/rand"
	"os"
	"path/filepath"
	"sync/atomic"
	"time"

	"verif/harness/internal/agent"
	"verif/harness/internal/core"
	"verif/harness/internal/e2e"
)

func init() {
	Workers["e2e-conc"] = e2eConcWorker
	Checks["C11"] = C11
}

// ConcParams parameterises one worker that drives several associations at the same time.
type ConcParams struct {
	Dir      string `json:"dir"`
	Trace    string `json:"trace"`
	AgentBin string `json:"agentBin"`
	N4Addr   string `json:"n4"`
	Seed     int64  `json:"seed"`
	Datapath string `json:"datapath"` // bess | up4
	Assocs   int    `json:"assocs"`
	Rounds   int    `json:"rounds"`
	Steps    int    `json:"steps"` // requests per association and round
	Race     bool   `json:"race"`
}

type stepper interface {
	Step() bool
	Finish()
	MarkAssoc(string)
}

func e2eConcWorker(args []string) error {
	if len(args) != 1 {
		return fmt.Errorf("e2e-conc: want one JSON argument")
	}

	var p ConcParams
	if err := json.Unmarshal([]byte(args[0]), &p); err != nil {
		return err
	}

	rng := rand.New(rand.NewSource(p.Seed))
	sum := E2ESummary{Stats: map[string]int{}}

	defer func() {
		b, _ := json.Marshal(sum)
		_ = os.WriteFile(p.Trace+".summary", b, 0o644)
	}()

	var cfg agent.Cfg
	if p.Datapath == "up4" {
		cfg = up4Cfg(rng, p.N4Addr)
	} else {
		cfg = agent.Cfg{N4Addr: p.N4Addr, Datapath: "bess", LogLevel: "warn", ReadTimeout: 120, RespTimeout: "2s", MaxReqRetries: 5}
		if rng.Intn(2) == 0 {
			cfg.UEIPAlloc, cfg.UEPool = true, "10.240.0.0/16"
		}
	}

	cfg.Race = p.Race

	w, err := e2e.NewWorld(filepath.Join(p.Dir, "w"), p.AgentBin, p.Trace, cfg, int(p.Seed%1000)*1000+1)
	if err != nil {
		sum.Err = err.Error()
		return err
	}

	defer func() {
		sum.Lines, sum.Steps, sum.Accepted, sum.Died = w.Lines, w.Steps, w.Accepted, w.Died
		w.Close()
	}()

	w.SnapEvery = true
	w.RespWait = 8 * 1e9 // the race detector slows the agent down

	if err := w.StartAgent(); err != nil {
		sum.Err = err.Error()
		return err
	}

	gens := make([]stepper, p.Assocs)
	stats := make([]map[string]int, p.Assocs)

	for i := 0; i < p.Assocs; i++ {
		name := fmt.Sprintf("p%d", i+1)
		w.Peer(name) // peers are created before the concurrent phases

		if p.Datapath == "up4" {
			g := e2e.NewUp4Gen(w, rng.Int63(), 1, 4, false)
			g.PeerBase, g.SessionOnly, g.UEAlloc, g.AddFlows = i, true, w.Cfg.UEIPAlloc, true
			g.Disjoint(i)

			if i > 0 {
				g.ShareFiltersOf(gens[0].(*e2e.Up4Gen))
			}

			gens[i], stats[i] = g, g.Stats
		} else {
			g := e2e.NewGen(w, rng.Int63(), e2e.GenOpt{Peers: 1, MaxSessions: 4, UEAlloc: w.Cfg.UEIPAlloc, PeerBase: i, SessionOnly: true})
			gens[i], stats[i] = g, g.Stats
		}

		if ds := w.Assoc(name); len(ds) == 1 && ds[0].Cause == 1 {
			gens[i].MarkAssoc(name)
		}
	}

	if w.P4 != nil {
		// the switch takes a little while to carry a write out (up to 2 ms): while one association's write is on its way,
		// what the others do must not build on it
		atomic.StoreInt64(&w.P4.WriteDelayMaxNs, int64(2*time.Millisecond))
	}

	// UP4: two associations whose sessions use ONE application filter (and one gNB) take turns: while the one deletes its session -
	// the last user of the filter - the other establishes a session with that filter; after every such pair (datapath quiet)
	// the tables are judged: the applications entry and the tunnel peer of the new session are there
	if w.P4 != nil && !w.Died && len(gens) >= 2 {
		ga, gb := gens[0].(*e2e.Up4Gen), gens[1].(*e2e.Up4Gen)
		ga.OneFilter, gb.OneFilter = true, true

		if ga.Establish("p1") {
			x, y, nx, ny := ga, gb, "p1", "p2"

			for k := 0; k < 16 && !w.Died; k++ {
				xs := x.Last()
				if xs == nil || !xs.Live() {
					break
				}

				lag := time.Duration(rng.Intn(12000)) * time.Microsecond // the establishment arrives somewhere in the middle of the deletion
				w.Concurrently([]func(){func() { x.DeleteAny(xs) }, func() { time.Sleep(lag); y.Establish(ny) }})
				sum.Scenarios++
				x, y, nx, ny = y, x, ny, nx
			}

			_ = nx

			if s := x.Last(); s != nil && s.Live() && !w.Died {
				x.DeleteAny(s)
			}
		}

		ga.OneFilter, gb.OneFilter = false, false
	}

	for r := 0; r < p.Rounds && !w.Died; r++ {
		fns := make([]func(), p.Assocs)

		for i := range gens {
			g := gens[i]
			fns[i] = func() {
				for k := 0; k < p.Steps; k++ {
					if !g.Step() {
						return
					}
				}
			}
		}

		w.Concurrently(fns)
		sum.Scenarios++

		// one request on its own: the image is judged in between as well
		if !w.Died {
			gens[rng.Intn(len(gens))].Step()
		}
	}

	// everything is deleted, again side by side: the pools must be back to their start
	if !w.Died {
		fns := make([]func(), p.Assocs)
		for i := range gens {
			fns[i] = gens[i].Finish
		}

		w.Concurrently(fns)
	}

	if p.Race {
		sum.Stats["race_reports"] += w.RecordRaces()
	}

	for _, st := range stats {
		for k, v := range st {
			sum.Stats[k] += v
		}
	}

	return nil
}

// C11: concurrent associations do not interfere.
func C11(c *core.Ctx) {
	nshards, rounds, steps := 8, 4, 12
	if c.Thorough() {
		nshards, rounds, steps = 16, 12, 25
	}

	c.SetCov("rule", "2-8 associations drive establishment / modification / deletion streams at the same time against the real agent process, on both datapaths "+
		"(harness BESS server, harness P4Runtime switch; sessions of different associations share gNB peers and application filters on UP4); half of the shards run the "+
		"-race build of the agent. The steps of a concurrent phase are recorded in the order their answers arrived and consumed one at a time by the reference state "+
		"machine; at the end of every phase (datapath quiet) TLC judges the tables by TablesAreImage of the union of all associations' sessions, the plug-in's identifier "+
		"pools and, after the final concurrent deletion of everything, pool occupancy (addresses, TEIDs, session records, gauge). A race report or a crash is an event nothing consumes; "+
		"evaluations = requests")

	res := runE2EShards(c, "e2e-conc", nshards, "TraceE2E_C11.cfg", func(i int) interface{} {
		d, tr := shardDir(c, i)
		dp := "bess"
		if i%2 == 1 {
			dp = "up4"
		}

		bin, race := "verif-agent", false
		if i%4 >= 2 {
			bin, race = "verif-agent-race", true
		}

		return ConcParams{Dir: d, Trace: tr, AgentBin: filepath.Join(c.BinDir, bin), N4Addr: n4For(i), Seed: c.Seed*1000 + 300 + int64(i), Datapath: dp,
			Assocs: 2 + (i*3)%7, Rounds: rounds, Steps: steps, Race: race}
	})
	judgeE2E(c, res, map[string]bool{"InEnvelope": true, "EnvDistinctMatchKeys": true, "Up4Envelope": true})
}

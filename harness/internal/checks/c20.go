package checks

import (
	"encoding/json"
	"fmt"
	"os"
	"os/exec"
	"path/filepath"
	"strconv"
	"sync"
	"time"

	"verif/harness/internal/core"
)

func init() {
	Checks["C20"] = C20
}

// C20: BESS route modules mirror the kernel's routes and neighbours.
func C20(c *core.Ctx) {
	c.SetCov("rule", "every kernel-consistent history (a route is added only when absent and deleted only when present, a neighbour resolves once) of RTM_NEWROUTE / RTM_DELROUTE / RTM_NEWNEIGH "+
		"over 4 routes, 3 next hops and 2 managed interfaces up to depth 5 (quick) / 7 (thorough), plus seeded longer histories with an unmanaged interface, replayed into the real "+
		"RouteController handlers of conf/route_control.py under stubs; the module graph of the recording pybess stand-in after every event is judged by TraceC20; "+
		"evaluations = events, distinct_nontrivial = histories")
	c.Assume("pyroute2, pybess and scapy are replaced by stand-ins (the real BessController wrapper runs on top of a recording BESS class with bessd's error semantics: EEXIST, ENOENT, EBUSY); retry sleeps are skipped")

	nshards := 8
	if c.Thorough() {
		nshards = 14
	}

	var wg sync.WaitGroup

	type res struct {
		trace  string
		tr     *core.TLCResult
		err    error
		stderr string
	}

	rs := make([]res, nshards)

	for i := 0; i < nshards; i++ {
		wg.Add(1)

		go func(i int) {
			defer wg.Done()

			trace := filepath.Join(c.Scratch, fmt.Sprintf("c20-%d.ndjson", i))
			rs[i].trace = trace
			cmd := exec.Command("python3", filepath.Join(c.VerifDir, "py", "c20_host.py"), c.RepoDir, trace, c.Tier, strconv.FormatInt(c.Seed, 10), strconv.Itoa(i), strconv.Itoa(nshards))
			out, err := cmd.CombinedOutput()
			rs[i].stderr = string(out)

			if err != nil {
				rs[i].err = fmt.Errorf("python host failed: %v: %s", err, tail(string(out), 500))
				return
			}

			rs[i].tr, rs[i].err = c.RunTLC(core.TLCRun{Module: "TraceC20", Workers: 1, HeapMB: 2000, Timeout: 30 * time.Minute,
				Env: map[string]string{"TRACE_FILE": trace}, Label: fmt.Sprintf("validate-%d", i)})
		}(i)
	}

	wg.Wait()

	for i, r := range rs {
		if r.err != nil {
			c.Inconclusive("shard %d: %v", i, r.err)
			continue
		}

		var sum map[string]int
		if b, err := os.ReadFile(r.trace + ".summary"); err == nil {
			_ = json.Unmarshal(b, &sum)
		}

		c.AddCount("evaluations", int64(sum["lines"]))
		c.AddCount("distinct_nontrivial", int64(sum["seqs"]))
		c.AddTLC("validate", r.tr)

		if i == 0 {
			for _, k := range []int{2, 3, 4} {
				var v interface{}
				if json.Unmarshal([]byte(readLine(r.trace, k)), &v) == nil {
					c.AddSample(v)
				}
			}
		}

		switch {
		case r.tr.Violated != "" || r.tr.PostFailed:
			lineNo := traceLineOfFailure(r.tr)
			line := readLine(r.trace, lineNo)
			what := r.tr.Violated

			if what == "" {
				what = "line not explained (a handler raised an exception?)"
			}

			// the history that leads to the failing line: from the last reset
			hist := ""
			for k := lineNo; k >= 1 && lineNo-k < 40; k-- {
				ln := readLine(r.trace, k)
				hist = trunc(ln, 160) + "\n" + hist

				if len(ln) > 12 && ln[:12] == `{"op": "rese` {
					break
				}
			}

			d := c.SaveReplay(fmt.Sprintf("shard%d", i), map[string]string{"tlc.out": r.tr.OutputPath}, map[string][]byte{"failing_line.ndjson": []byte(line + "\n"), "history.ndjson": []byte(hist)})
			c.Violate(fmt.Sprintf("%s at trace line %d; history since reset:\n%s", what, lineNo, hist), d)
		case !r.tr.OK():
			c.Inconclusive("shard %d: TLC validation did not complete (err=%q)", i, r.tr.ErrorText)
		default:
			c.AddCount("traces_validated_against_impl", 1)
		}
	}
}

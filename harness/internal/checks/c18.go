package checks

import (
	"encoding/json"
	"fmt"
	"math/rand"
	"net"
	"os"
	"path/filepath"
	"sort"
	"strconv"
	"strings"
	"time"

	"github.com/omec-project/upf-epc/pfcpiface"

	"verif/harness/internal/core"
)

func init() {
	Checks["C18"] = C18
	Workers["c18"] = c18Worker
}

// field -> class -> JSON text of the value ("" = omit the field). Paths use "." for nesting.
type c18Field struct {
	path    string
	classes map[string][]string
}

var c18Fields = []c18Field{
	{"mode", map[string][]string{"valid": {`"dpdk"`, `"sim"`, `"af_xdp"`, `"af_packet"`, `"cndp"`}, "invalid": {`"fast"`, `""`, `"DPDK"`, `" dpdk"`, `"af_xdp "`, `"Sim"`, `" "`, `"dpdk\n"`}, "wrongtype": {`7`}, "absent": {""}}},
	{"enable_p4rt", map[string][]string{"valid": {`false`}, "boundary": {`true`}, "wrongtype": {`"yes"`}, "absent": {""}}},
	{"resp_timeout", map[string][]string{"valid": {`"2s"`, `"750ms"`, `"1m"`}, "boundary": {`"0s"`, `"1ns"`}, "invalid": {`"2 s"`, `"fast"`, `"5"`}, "wrongtype": {`5`}, "absent": {""}}},
	{"max_req_retries", map[string][]string{"valid": {`5`, `1`}, "boundary": {`255`, `0`}, "invalid": {`256`, `-1`}, "wrongtype": {`"5"`}, "absent": {""}}},
	{"read_timeout", map[string][]string{"valid": {`15`, `1`}, "boundary": {`4294967295`, `0`}, "invalid": {`4294967296`, `-1`, `1.5`}, "wrongtype": {`"15s"`}, "absent": {""}}},
	{"enable_hbTimer", map[string][]string{"valid": {`false`}, "boundary": {`true`}, "wrongtype": {`1`}, "absent": {""}}},
	{"heart_beat_interval", map[string][]string{"valid": {`"5s"`, `"100ms"`}, "boundary": {`"0s"`}, "invalid": {`"soon"`, `""`}, "wrongtype": {`5`}, "absent": {""}}},
	{"log_level", map[string][]string{"valid": {`"info"`, `"debug"`, `"error"`}, "invalid": {`"chatty"`}, "wrongtype": {`3`}, "absent": {""}}},
	{"cpiface.enable_ue_ip_alloc", map[string][]string{"valid": {`false`}, "boundary": {`true`}, "wrongtype": {`"true"`}, "absent": {""}}},
	{"cpiface.ue_ip_pool", map[string][]string{"valid": {`"10.250.0.0/16"`, `"10.0.0.0/30"`}, "boundary": {`"10.0.0.1/32"`, `"0.0.0.0/0"`}, "invalid": {`"10.250.0.0"`, `"10.250.0.0/33"`, `"pool"`}, "wrongtype": {`10`}, "absent": {""}}},
	{"cpiface.peers", map[string][]string{"valid": {`["10.0.0.1"]`, `["10.0.0.1","10.0.0.2"]`, `[]`}, "invalid": {`["smf.example.org"]`, `["10.0.0.1:8805"]`, `[""]`}, "wrongtype": {`"10.0.0.1"`}, "absent": {""}}},
	{"p4rtciface.access_ip", map[string][]string{"valid": {`"172.17.0.1/32"`}, "boundary": {`"0.0.0.0/0"`}, "invalid": {`"172.17.0.1"`, `"access"`}, "wrongtype": {`1`}, "absent": {""}}},
	{"p4rtciface.default_tc", map[string][]string{"valid": {`3`, `0`, `1`}, "boundary": {`255`}, "invalid": {`256`, `-1`}, "wrongtype": {`"3"`}, "absent": {""}}},
	{"access.ifname", map[string][]string{"valid": {`"lo"`, `"ens803f2"`}, "wrongtype": {`1`}, "absent": {""}}},
}

type c18Doc map[string]string // path -> class

// c18Pick, when set for a path, selects the value of the class by index instead of at random (single-field variations
// go through every value of the class)
var c18Pick = map[string]int{}

func renderDoc(rng *rand.Rand, d c18Doc) string {
	top := map[string]string{}
	nested := map[string]map[string]string{}

	for _, f := range c18Fields {
		cls := d[f.path]
		vals := f.classes[cls]
		v := vals[rng.Intn(len(vals))]
		if k, ok := c18Pick[f.path]; ok {
			v = vals[k%len(vals)]
		}

		if v == "" {
			continue
		}

		parts := strings.SplitN(f.path, ".", 2)
		if len(parts) == 1 {
			top[f.path] = v
		} else {
			if nested[parts[0]] == nil {
				nested[parts[0]] = map[string]string{}
			}

			nested[parts[0]][parts[1]] = v
		}
	}

	var items []string
	for k, v := range top {
		items = append(items, fmt.Sprintf("%q: %s", k, v))
	}

	for k, m := range nested {
		var sub []string
		for kk, v := range m {
			sub = append(sub, fmt.Sprintf("%q: %s", kk, v))
		}

		sort.Strings(sub)
		items = append(items, fmt.Sprintf("%q: {%s}", k, strings.Join(sub, ", ")))
	}

	sort.Strings(items)

	return "{\n  " + strings.Join(items, ",\n  ") + "\n}\n"
}

// insertComments puts // and single-line /* */ comments at token gaps (after commas, braces and line starts), never
// inside a string.
func insertComments(rng *rand.Rand, doc string) string {
	var sb strings.Builder

	inStr := false
	lineCmts := []string{"// note", "// \"quoted\": 1, }", "//", "// /* not a block */"}
	blockCmts := []string{"/* note */", "/* \"k\": 2 */", "/**/", "/* // */"}

	for i := 0; i < len(doc); i++ {
		ch := doc[i]
		sb.WriteByte(ch)

		if ch == '"' && (i == 0 || doc[i-1] != '\\') {
			inStr = !inStr
		}

		if inStr {
			continue
		}

		switch ch {
		case ',', '{', '}', '[', ']':
			switch rng.Intn(5) {
			case 0:
				sb.WriteString(" " + blockCmts[rng.Intn(len(blockCmts))] + " ")
			case 1:
				if i+1 < len(doc) && doc[i+1] == '\n' {
					sb.WriteString(" " + lineCmts[rng.Intn(len(lineCmts))])
				}
			}
		case '\n':
			if rng.Intn(4) == 0 {
				sb.WriteString(lineCmts[rng.Intn(len(lineCmts))] + "\n")
			}
		}
	}

	return sb.String()
}

func c18Facts(conf pfcpiface.Conf) map[string]interface{} {
	_, e1 := time.ParseDuration(conf.RespTimeout)
	_, e2 := time.ParseDuration(conf.HeartBeatInterval)
	_, _, e3 := net.ParseCIDR(conf.P4rtcIface.AccessIP)
	_, _, e4 := net.ParseCIDR(conf.CPIface.UEIPPool)
	peersOK := true

	for _, p := range conf.CPIface.Peers {
		if net.ParseIP(p) == nil {
			peersOK = false
		}
	}

	rt := int(conf.ReadTimeout)
	if conf.ReadTimeout > 65535 {
		rt = 65535
	}

	return map[string]interface{}{
		"respTimeoutParses": e1 == nil, "respTimeout": conf.RespTimeout, "maxRetries": int(conf.MaxReqRetries), "readTimeout": rt,
		"hbEnabled": conf.EnableHBTimer, "hbIntervalParses": e2 == nil, "hbInterval": conf.HeartBeatInterval, "logLevel": conf.LogLevel.String(),
		"defaultTc": int(conf.P4rtcIface.DefaultTC), "mode": conf.Mode, "p4": conf.EnableP4rt, "accessIpParses": e3 == nil, "uePoolParses": e4 == nil,
		"ueAlloc": conf.CPIface.EnableUeIPAlloc, "peersParse": peersOK,
	}
}

func emptyFacts() map[string]interface{} { return c18Facts(pfcpiface.Conf{}) }

// c18Worker args: <outfile> <tier> <seed> <repo>
func c18Worker(args []string) error {
	out, tier, repo := args[0], args[1], args[3]
	seed, _ := strconv.ParseInt(args[2], 10, 64)
	rng := rand.New(rand.NewSource(seed))

	f, err := os.Create(out)
	if err != nil {
		return err
	}
	defer f.Close()

	enc := json.NewEncoder(f)
	dir := filepath.Dir(out)
	lines, loaded := 0, 0
	load := func(text string) (pfcpiface.Conf, bool) {
		p := filepath.Join(dir, "conf.jsonc")
		_ = os.WriteFile(p, []byte(text), 0o644)
		c, err := pfcpiface.LoadConfigFile(p)

		return c, err == nil
	}
	canon := func(c pfcpiface.Conf) string {
		b, _ := json.Marshal(c)
		return string(b)
	}
	emitDoc := func(d c18Doc) {
		plain := renderDoc(rng, d)
		cp, okp := load(plain)
		cc, okc := load(insertComments(rng, plain))
		facts := emptyFacts()

		if okc {
			facts = c18Facts(cc)
			loaded++
		}

		doc := map[string]string{}
		for k, v := range d {
			doc[strings.ReplaceAll(strings.ReplaceAll(k, "cpiface.", ""), "p4rtciface.", "")] = v
		}

		_ = enc.Encode(map[string]interface{}{"op": "load", "doc": doc, "ok": okc, "facts": facts, "plainOk": okp, "sameAsPlain": okc && okp && canon(cc) == canon(cp)})
		lines++
	}

	bases := []c18Doc{}
	bess := c18Doc{}

	for _, fl := range c18Fields {
		bess[fl.path] = "valid"
	}

	p4 := c18Doc{}
	for k, v := range bess {
		p4[k] = v
	}

	p4["enable_p4rt"], p4["mode"] = "boundary", "absent"
	alloc := c18Doc{}

	for k, v := range bess {
		alloc[k] = v
	}

	alloc["cpiface.enable_ue_ip_alloc"], alloc["enable_hbTimer"] = "boundary", "boundary"
	minimal := c18Doc{}

	for _, fl := range c18Fields {
		minimal[fl.path] = "absent"
	}

	minimal["mode"] = "valid"
	bases = append(bases, bess, p4, alloc, minimal)

	// every single-field variation of the base documents, every pair of variations of the first two
	reps := 2
	if tier == "thorough" {
		reps = 12
	}

	for _, b := range bases {
		for r := 0; r < reps; r++ {
			emitDoc(b)
		}

		for _, fl := range c18Fields {
			for cls := range fl.classes {
				d := c18Doc{}
				for k, v := range b {
					d[k] = v
				}

				d[fl.path] = cls

				n := reps
				if len(fl.classes[cls]) > n {
					n = len(fl.classes[cls])
				}

				for r := 0; r < n; r++ {
					c18Pick[fl.path] = r
					emitDoc(d)
				}

				delete(c18Pick, fl.path)
			}
		}
	}

	for bi, b := range bases[:3] {
		for i, f1 := range c18Fields {
			for _, f2 := range c18Fields[i+1:] {
				for c1 := range f1.classes {
					for c2 := range f2.classes {
						if tier != "thorough" && rng.Intn(4) != 0 && bi > 0 {
							continue
						}

						d := c18Doc{}
						for k, v := range b {
							d[k] = v
						}

						d[f1.path], d[f2.path] = c1, c2
						emitDoc(d)
					}
				}
			}
		}
	}

	// arbitrary bytes and adversarial comment forms: only crash freedom and validity of what is returned
	adversarial := []string{"", "{", "}", "null", "[]", "{}", `{"mode":"dpdk" /* multi
line */}`, `{"mode":"dp//dk"}`, `{"mode":"sim","cpiface":{"dnn":"a/*b*/c"}}`, `{"mode":"sim"} // trailing`, `// only a comment`, `/* */{"mode":"sim"}/* */`,
		`{"mode":"sim","resp_timeout":"2s" // "x"` + "\n}", "\x00\x01\x02", `{"mode":"sim","read_timeout":1e2}`, `{"mode":"sim","max_req_retries":5.0}`, `{"mode":"sim","log_level":null}`,
		`{"mode":"sim","qci_qos_config":[{"qci":300}]}`, `{"mode":"sim","cpiface":null}`, `{"mode":"sim","cpiface":{"peers":null}}`, `{"mode":"sim","p4rtciface":{"qfi_tc_mapping":{"x":1}}}`}
	n := 200

	if tier == "thorough" {
		n = 20000
	}

	for i := 0; i < n; i++ {
		b := make([]byte, rng.Intn(120))
		for k := range b {
			const charset = "{}[]\":,/* \n0123456789aeimodrtus_-\\"
			b[k] = charset[rng.Intn(len(charset))]
		}

		adversarial = append(adversarial, string(b))
	}

	for _, a := range adversarial {
		c, ok := load(a)
		facts := emptyFacts()

		if ok {
			facts = c18Facts(c)
		}

		_ = enc.Encode(map[string]interface{}{"op": "bytes", "ok": ok, "facts": facts})
		lines++
	}

	// every configuration file shipped in the repository
	var samples []string

	_ = filepath.Walk(repo, func(p string, info os.FileInfo, err error) error {
		// agent configurations are the upf*.jsonc files; conf/cndp_upf_*.jsonc configure the CNDP library, not the agent
		if err == nil && !info.IsDir() && strings.HasSuffix(p, ".jsonc") && strings.HasPrefix(filepath.Base(p), "upf") && !strings.Contains(p, "/.git/") {
			samples = append(samples, p)
		}

		return nil
	})

	for _, s := range samples {
		_, err := pfcpiface.LoadConfigFile(s)
		_ = enc.Encode(map[string]interface{}{"op": "sample", "file": strings.TrimPrefix(s, repo+"/"), "ok": err == nil})
		lines++
	}

	sb, _ := json.Marshal(map[string]int{"lines": lines, "loaded": loaded, "samples": len(samples)})

	return os.WriteFile(out+".summary", sb, 0o644)
}

// C18: configuration loading yields a validated configuration or an error.
func C18(c *core.Ctx) {
	c.SetCov("rule", "documents generated from the configuration schema (14 fields x classes absent / valid / boundary / invalid / wrong JSON type): every single-field variation of four base documents "+
		"(BESS, P4, UE-IP-alloc + heartbeat, minimal) and pairs of variations, each rendered with and without // and single-line /* */ comments at token gaps; seeded byte strings and adversarial comment "+
		"forms; every *.jsonc shipped in the repository; the real LoadConfigFile is called for each and TLC judges the outcome; distinct_nontrivial = documents that loaded")
	c.Assume("atomic facts about the returned struct (does a string parse as a duration / CIDR / IP) are computed by the worker with the Go standard library")

	trace := filepath.Join(c.Scratch, "c18.ndjson")
	wr := c.RunWorker(20*time.Minute, "c18", trace, c.Tier, strconv.FormatInt(c.Seed, 10), c.RepoDir)

	if wr.Panic != "" && wr.Site != "unknown" {
		f, _ := os.OpenFile(trace, os.O_APPEND|os.O_WRONLY|os.O_CREATE, 0o644)
		fmt.Fprintf(f, "{\"op\":\"died\",\"site\":%q,\"panic\":%q}\n", wr.Site, wr.Panic)
		f.Close()
	} else if wr.ExitCode != 0 || wr.TimedOut {
		c.Inconclusive("worker failed: exit=%d timeout=%v: %s", wr.ExitCode, wr.TimedOut, tail(wr.Stderr, 500))
		return
	}

	var sum map[string]int
	if b, err := os.ReadFile(trace + ".summary"); err == nil {
		_ = json.Unmarshal(b, &sum)
	}

	c.AddCount("evaluations", int64(sum["lines"]))
	c.AddCount("distinct_nontrivial", int64(sum["loaded"]))
	c.AddCount("shipped_samples", int64(sum["samples"]))

	tr, err := c.RunTLC(core.TLCRun{Module: "TraceC18", Workers: 1, HeapMB: 2000, Timeout: 20 * time.Minute, Env: map[string]string{"TRACE_FILE": trace}, Label: "validate"})
	if err != nil {
		c.Inconclusive("TLC: %v", err)
		return
	}

	c.AddTLC("validate", tr)

	for _, k := range []int{1, 30} {
		var v interface{}
		if json.Unmarshal([]byte(readLine(trace, k)), &v) == nil {
			c.AddSample(v)
		}
	}

	switch {
	case tr.Violated != "" || tr.PostFailed:
		lineNo := traceLineOfFailure(tr)
		line := readLine(trace, lineNo)
		what := tr.Violated

		if what == "" {
			what = "line not explained (the loader panicked?)"
		}

		d := c.SaveReplay("c18", map[string]string{"tlc.out": tr.OutputPath}, map[string][]byte{"failing_line.ndjson": []byte(line + "\n"), "worker.stderr": []byte(wr.Stderr)})
		c.Violate(fmt.Sprintf("%s at trace line %d: %s", what, lineNo, trunc(line, 600)), d)
	case !tr.OK():
		c.Inconclusive("TLC validation did not complete (err=%q)", tr.ErrorText)
	default:
		c.AddCount("traces_validated_against_impl", 1)
	}
}

// Package mutate implements IE-level mutations of PFCP messages independently of go-pfcp's message
// structs: a datagram is decoded into a plain tree (type, payload, children), a mutation is applied
// at one position and the tree is re-encoded with consistent outer lengths.
package mutate

import (
	"encoding/binary"
	"fmt"
)

// Node is one information element.
type Node struct {
	Type     uint16
	Payload  []byte // for leaf IEs
	Children []*Node
	Grouped  bool
}

// Msg is a decoded PFCP message.
type Msg struct {
	Flags   byte
	Type    byte
	SEID    uint64
	HasSEID bool
	Seq     uint32
	IEs     []*Node
}

// grouped IE types whose payload is a list of IEs.
var grouped = map[uint16]bool{
	1: true, 2: true, 3: true, 4: true, 5: true, 6: true, 7: true, 8: true, 9: true, 10: true, 11: true, 13: true, 14: true,
	15: true, 16: true, 17: true, 18: true, 58: true, 59: true, 83: true,
}

func parseIEs(b []byte, depth int) ([]*Node, bool) {
	var out []*Node

	for len(b) > 0 {
		if len(b) < 4 {
			return nil, false
		}

		t := binary.BigEndian.Uint16(b[0:2])
		l := int(binary.BigEndian.Uint16(b[2:4]))

		if len(b) < 4+l {
			return nil, false
		}

		n := &Node{Type: t, Payload: append([]byte(nil), b[4:4+l]...)}
		if grouped[t] && depth < 4 {
			if ch, ok := parseIEs(n.Payload, depth+1); ok {
				n.Children, n.Grouped = ch, true
			}
		}

		out = append(out, n)
		b = b[4+l:]
	}

	return out, true
}

// Parse decodes a well-formed datagram.
func Parse(b []byte) (*Msg, error) {
	if len(b) < 8 {
		return nil, fmt.Errorf("short")
	}

	m := &Msg{Flags: b[0], Type: b[1]}
	m.HasSEID = b[0]&0x01 != 0
	off := 4

	if m.HasSEID {
		if len(b) < 16 {
			return nil, fmt.Errorf("short")
		}

		m.SEID = binary.BigEndian.Uint64(b[4:12])
		off = 12
	}

	m.Seq = uint32(b[off])<<16 | uint32(b[off+1])<<8 | uint32(b[off+2])
	off += 4

	ies, ok := parseIEs(b[off:], 0)
	if !ok {
		return nil, fmt.Errorf("IEs do not parse")
	}

	m.IEs = ies

	return m, nil
}

func encodeIEs(ns []*Node) []byte {
	var out []byte

	for _, n := range ns {
		p := n.Payload
		if n.Grouped {
			p = encodeIEs(n.Children)
		}

		h := make([]byte, 4)
		binary.BigEndian.PutUint16(h[0:2], n.Type)
		binary.BigEndian.PutUint16(h[2:4], uint16(len(p)))
		out = append(out, h...)
		out = append(out, p...)
	}

	return out
}

// Bytes encodes the message with consistent lengths.
func (m *Msg) Bytes() []byte {
	body := encodeIEs(m.IEs)

	var hdr []byte

	if m.HasSEID {
		hdr = make([]byte, 16)
		binary.BigEndian.PutUint64(hdr[4:12], m.SEID)
		hdr[12], hdr[13], hdr[14] = byte(m.Seq>>16), byte(m.Seq>>8), byte(m.Seq)
	} else {
		hdr = make([]byte, 8)
		hdr[4], hdr[5], hdr[6] = byte(m.Seq>>16), byte(m.Seq>>8), byte(m.Seq)
	}

	hdr[0], hdr[1] = m.Flags, m.Type
	binary.BigEndian.PutUint16(hdr[2:4], uint16(len(hdr)-4+len(body)))

	return append(hdr, body...)
}

func cloneNodes(ns []*Node) []*Node {
	out := make([]*Node, len(ns))
	for i, n := range ns {
		c := &Node{Type: n.Type, Payload: append([]byte(nil), n.Payload...), Grouped: n.Grouped}
		c.Children = cloneNodes(n.Children)
		out[i] = c
	}

	return out
}

// Clone returns a deep copy.
func (m *Msg) Clone() *Msg {
	c := *m
	c.IEs = cloneNodes(m.IEs)

	return &c
}

// Path addresses a node: indices from the top-level IE list downwards.
type Path []int

// Paths lists every node position of the message in pre-order.
func (m *Msg) Paths() []Path {
	var out []Path

	var walk func(ns []*Node, prefix Path)

	walk = func(ns []*Node, prefix Path) {
		for i, n := range ns {
			p := append(append(Path(nil), prefix...), i)
			out = append(out, p)

			if n.Grouped {
				walk(n.Children, p)
			}
		}
	}

	walk(m.IEs, nil)

	return out
}

func (m *Msg) listAt(p Path) (*[]*Node, int) {
	lst := &m.IEs

	for _, i := range p[:len(p)-1] {
		lst = &(*lst)[i].Children
	}

	return lst, p[len(p)-1]
}

// At returns the node at the path.
func (m *Msg) At(p Path) *Node {
	lst, i := m.listAt(p)
	return (*lst)[i]
}

// TypePath renders the types along a path, e.g. "1/2/21".
func (m *Msg) TypePath(p Path) string {
	s := ""
	ns := m.IEs

	for k, i := range p {
		if k > 0 {
			s += "/"
		}

		s += fmt.Sprint(ns[i].Type)
		ns = ns[i].Children
	}

	return s
}

// Kinds of single mutations.
var Kinds = []string{"drop", "drop-all-of-type", "dup", "empty", "retype-unknown", "retype-cause", "truncate1", "truncate-half", "v6only", "inner-length", "move-last", "zero-fill",
	"ff-fill", "enum-next", "fqdn-bytes"}

func v6Payload(t uint16, old []byte) []byte {
	v6 := []byte{0x20, 0x01, 0x0d, 0xb8, 0, 0, 0, 0, 0, 0, 0, 0, 0, 0, 0, 1}

	switch t {
	case 57: // F-SEID: flags V6, SEID, address
		out := []byte{0x01}
		if len(old) >= 9 {
			out = append(out, old[1:9]...)
		} else {
			out = append(out, make([]byte, 8)...)
		}

		return append(out, v6...)
	case 21: // F-TEID: flags V6, TEID, address
		out := []byte{0x02}
		if len(old) >= 5 {
			out = append(out, old[1:5]...)
		} else {
			out = append(out, 0, 0, 0, 9)
		}

		return append(out, v6...)
	case 84: // Outer Header Creation: GTP-U/UDP/IPv6
		out := []byte{0x02, 0x00}
		if len(old) >= 6 {
			out = append(out, old[2:6]...)
		} else {
			out = append(out, 0, 0, 0, 9)
		}

		return append(out, v6...)
	case 93: // UE IP Address: V6 only
		return append([]byte{0x01}, v6...)
	case 60: // Node ID: IPv6
		return append([]byte{0x01}, v6...)
	}

	return nil
}

// Apply applies the mutation kind at path p to a copy of the message. ok=false if the mutation does not apply there.
func (m *Msg) Apply(p Path, kind string) (*Msg, bool) {
	c := m.Clone()
	lst, i := c.listAt(p)
	n := (*lst)[i]

	switch kind {
	case "drop":
		*lst = append((*lst)[:i:i], (*lst)[i+1:]...)
	case "drop-all-of-type":
		// every sibling of the same type goes (e.g. an establishment without any Create PDR); only offered at the first one
		cnt := 0
		for k, x := range *lst {
			if x.Type == n.Type {
				cnt++
				if k < i {
					return nil, false
				}
			}
		}

		if cnt < 2 {
			return nil, false
		}

		var keep []*Node
		for _, x := range *lst {
			if x.Type != n.Type {
				keep = append(keep, x)
			}
		}

		*lst = keep
	case "dup":
		d := cloneNodes([]*Node{n})[0]
		*lst = append((*lst)[:i+1:i+1], append([]*Node{d}, (*lst)[i+1:]...)...)
	case "empty":
		n.Payload, n.Children, n.Grouped = nil, nil, false
	case "retype-unknown":
		n.Type = 0x7ABC
		if n.Grouped {
			n.Payload = encodeIEs(n.Children)
			n.Grouped, n.Children = false, nil
		}
	case "retype-cause":
		if n.Type == 19 {
			return nil, false
		}

		n.Type = 19
		if n.Grouped {
			n.Payload = encodeIEs(n.Children)
			n.Grouped, n.Children = false, nil
		}
	case "truncate1":
		if n.Grouped {
			n.Payload = encodeIEs(n.Children)
			n.Grouped, n.Children = false, nil
		}

		if len(n.Payload) < 2 {
			return nil, false
		}

		n.Payload = n.Payload[:1]
	case "truncate-half":
		if n.Grouped {
			n.Payload = encodeIEs(n.Children)
			n.Grouped, n.Children = false, nil
		}

		if len(n.Payload) < 4 {
			return nil, false
		}

		n.Payload = n.Payload[:len(n.Payload)/2]
	case "v6only":
		np := v6Payload(n.Type, n.Payload)
		if np == nil {
			return nil, false
		}

		n.Payload = np
	case "inner-length":
		// IEs with embedded length fields: SDF Filter (23), PFD Contents (61): make the embedded length exceed the payload
		if (n.Type != 23 && n.Type != 61) || len(n.Payload) < 4 {
			return nil, false
		}

		n.Payload[2], n.Payload[3] = 0xFF, 0xF0
	case "move-last":
		if i == len(*lst)-1 {
			return nil, false
		}

		*lst = append(append((*lst)[:i:i], (*lst)[i+1:]...), n)
	case "zero-fill":
		if n.Grouped || len(n.Payload) == 0 {
			return nil, false
		}

		for k := range n.Payload {
			n.Payload[k] = 0
		}
	case "ff-fill": // every value byte at its maximum: enumerations and indices far out of range
		if n.Grouped || len(n.Payload) == 0 {
			return nil, false
		}

		for k := range n.Payload {
			n.Payload[k] = 0xFF
		}
	case "fqdn-bytes": // Node ID of type FQDN whose label is not text (the bytes are copied verbatim into a string)
		if n.Type != 60 {
			return nil, false
		}

		n.Payload = []byte{0x02, 0x03, 0xFF, 0xFE, 0xFD, 0x02, 0xC3, 0x28, 0x00}
	case "enum-next": // short IEs (enumerations, flag octets): the first value a table sized for the defined ones does not have
		if n.Grouped || len(n.Payload) == 0 || len(n.Payload) > 2 {
			return nil, false
		}

		n.Payload[0] = n.Payload[0]&0xF0 | 0x06
	default:
		return nil, false
	}

	return c, true
}

package core

import (
	"encoding/json"
	"os"
)

// Finding is one entry of /verif/known_findings.json.
type Finding struct {
	ID          string            `json:"id"`
	Property    string            `json:"property"`
	Also        []string          `json:"also,omitempty"` // further properties the same defect violates
	Status      string            `json:"status"`         // open | fixed
	Matcher     map[string]string `json:"matcher"`        // what identifies the failing input / call site / history
	Description string            `json:"description"`
	Commit      string            `json:"commit,omitempty"` // for fixed entries
}

// KnownFindings is the committed list of genuine defects that are recorded rather than repaired
// (status open) or that were repaired by a "fix:" commit (status fixed; suppresses nothing).
type KnownFindings struct {
	Findings []Finding `json:"findings"`
	Fixed    []string  `json:"fixed"` // lines "fixed: property=<id> <commit> <what failed>"
}

func LoadKnownFindings(path string) (*KnownFindings, error) {
	kf := &KnownFindings{}

	b, err := os.ReadFile(path)
	if err != nil {
		if os.IsNotExist(err) {
			return kf, nil
		}

		return nil, err
	}

	if err := json.Unmarshal(b, kf); err != nil {
		return nil, err
	}

	return kf, nil
}

// Open returns the open findings of a property whose matcher has kind == k (k "" = all).
func (k *KnownFindings) Open(prop, kind string) []Finding {
	var out []Finding

	for _, f := range k.Findings {
		if f.Status != "open" || !f.concerns(prop) {
			continue
		}

		if kind != "" && f.Matcher["kind"] != kind {
			continue
		}

		out = append(out, f)
	}

	return out
}

func (f Finding) concerns(prop string) bool {
	if f.Property == prop {
		return true
	}

	for _, a := range f.Also {
		if a == prop {
			return true
		}
	}

	return false
}

// OpenIDs returns the ids of open findings of a property (any kind).
func (k *KnownFindings) OpenIDs(prop string) []string {
	var out []string
	for _, f := range k.Open(prop, "") {
		out = append(out, f.ID)
	}

	return out
}

// Describe returns the one-line description of a finding.
func (k *KnownFindings) Describe(id string) string {
	for _, f := range k.Findings {
		if f.ID == id {
			return f.Description
		}
	}

	return "(not listed)"
}

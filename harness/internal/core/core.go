// Package core holds what every check shares: run context, TLC runner, evidence and verdicts.
package core

import (
	"encoding/json"
	"fmt"
	"os"
	"path/filepath"
	"sort"
	"strconv"
	"strings"
	"sync"
	"time"
)

// Exit codes (DESIGN 2.3).
const (
	ExitHeld         = 0
	ExitViolation    = 1
	ExitInconclusive = 2
)

// Ctx is the context of one check run.
type Ctx struct {
	Prop      string // property id, e.g. "C17"
	Tier      string // quick | thorough
	Seed      int64
	VerifDir  string // /verif
	RepoDir   string // /repo
	SpecDir   string // /verif/spec
	Scratch   string // private scratch directory, removed at the end
	BinDir    string // where the freshly built binaries live
	OutDir    string // /verif/out/<prop>-<tier>-<seed>: replay directories of violations
	Self      string // path of this binary (for re-exec of workers)
	Start     time.Time
	Verbose   bool
	ReplayDir string // when set: re-execute the script stored in this replay directory

	mu       sync.Mutex
	logf     *os.File
	Ev       Evidence
	viol     []Violation
	known    map[string]string
	inconcl  []string
	Findings *KnownFindings
}

// Violation is one reported violation.
type Violation struct {
	Prop   string
	Replay string
	Detail string
}

// Evidence mirrors EVIDENCE.schema.json.
type Evidence struct {
	PropertyID  string                 `json:"property_id"`
	Tier        string                 `json:"tier"`
	Seed        int64                  `json:"seed"`
	Level       string                 `json:"level"`
	Coverage    map[string]interface{} `json:"coverage"`
	Assumptions []string               `json:"assumptions"`
	WallS       float64                `json:"wall_s"`
	Violations  int                    `json:"violations"`
}

func NewCtx(prop, tier string) (*Ctx, error) {
	seed := int64(1)
	if s := os.Getenv("VERIF_SEED"); s != "" {
		if v, err := strconv.ParseInt(s, 10, 64); err == nil {
			seed = v
		}
	}

	verif := os.Getenv("VERIF_DIR")
	if verif == "" {
		verif = "/verif"
	}

	repo := os.Getenv("VERIF_REPO")
	if repo == "" {
		repo = "/repo"
	}

	scratchBase := filepath.Join(verif, ".scratch")
	if err := os.MkdirAll(scratchBase, 0o755); err != nil {
		return nil, err
	}

	scratch, err := os.MkdirTemp(scratchBase, prop+"-")
	if err != nil {
		return nil, err
	}

	self, _ := os.Executable()
	c := &Ctx{
		Prop: prop, Tier: tier, Seed: seed, VerifDir: verif, RepoDir: repo,
		SpecDir: filepath.Join(verif, "spec"), Scratch: scratch,
		BinDir: filepath.Join(verif, ".build"),
		OutDir: filepath.Join(verif, "out", fmt.Sprintf("%s-%s-%d", prop, tier, seed)),
		Self:   self, Start: time.Now(), Verbose: os.Getenv("VERIF_VERBOSE") != "",
		known: map[string]string{},
	}
	c.Ev = Evidence{PropertyID: prop, Tier: tier, Seed: seed, Level: "model_checking", Coverage: map[string]interface{}{}}
	c.logf, _ = os.Create(filepath.Join(scratch, "check.log"))

	kf, err := LoadKnownFindings(filepath.Join(verif, "known_findings.json"))
	if err != nil {
		return nil, err
	}

	c.Findings = kf

	return c, nil
}

func (c *Ctx) Thorough() bool { return c.Tier == "thorough" }

func (c *Ctx) Logf(format string, a ...interface{}) {
	c.mu.Lock()
	defer c.mu.Unlock()

	msg := fmt.Sprintf(format, a...)
	if c.logf != nil {
		fmt.Fprintf(c.logf, "[%7.2f] %s\n", time.Since(c.Start).Seconds(), msg)
	}

	if c.Verbose {
		fmt.Fprintf(os.Stderr, "[%7.2f] %s\n", time.Since(c.Start).Seconds(), msg)
	}
}

// AddCount adds to an integer coverage counter.
func (c *Ctx) AddCount(key string, n int64) {
	c.mu.Lock()
	defer c.mu.Unlock()

	cur, _ := c.Ev.Coverage[key].(int64)
	c.Ev.Coverage[key] = cur + n
}

func (c *Ctx) SetCov(key string, v interface{}) {
	c.mu.Lock()
	defer c.mu.Unlock()
	c.Ev.Coverage[key] = v
}

func (c *Ctx) AddSample(v interface{}) {
	c.mu.Lock()
	defer c.mu.Unlock()

	s, _ := c.Ev.Coverage["samples"].([]interface{})
	if len(s) < 8 {
		c.Ev.Coverage["samples"] = append(s, v)
	}
}

func (c *Ctx) Assume(s string) {
	c.mu.Lock()
	defer c.mu.Unlock()

	for _, a := range c.Ev.Assumptions {
		if a == s {
			return
		}
	}

	c.Ev.Assumptions = append(c.Ev.Assumptions, s)
}

// AddTLC accumulates states/transitions of a TLC run into the evidence.
func (c *Ctx) AddTLC(kind string, r *TLCResult) {
	c.AddCount("states", r.Distinct)
	c.AddCount("transitions", r.Generated)
	c.AddCount("tlc_runs_"+kind, 1)
}

// Violate records a violation (exit 1).
func (c *Ctx) Violate(detail string, replay string) {
	c.mu.Lock()
	defer c.mu.Unlock()
	c.viol = append(c.viol, Violation{Prop: c.Prop, Replay: replay, Detail: detail})
}

// Known records that a listed known finding manifested.
func (c *Ctx) Known(id, what string) {
	c.mu.Lock()
	defer c.mu.Unlock()
	c.known[id] = what
}

// Inconclusive records a reason for exit 2.
func (c *Ctx) Inconclusive(format string, a ...interface{}) {
	c.mu.Lock()
	defer c.mu.Unlock()
	c.inconcl = append(c.inconcl, fmt.Sprintf(format, a...))
}

func (c *Ctx) HasViolation() bool {
	c.mu.Lock()
	defer c.mu.Unlock()

	return len(c.viol) > 0
}

// SaveReplay copies files into a fresh replay directory under OutDir and returns its path.
func (c *Ctx) SaveReplay(name string, files map[string]string, inline map[string][]byte) string {
	dir := filepath.Join(c.OutDir, name)
	_ = os.MkdirAll(dir, 0o755)

	for dst, src := range files {
		if b, err := os.ReadFile(src); err == nil {
			// a trace is only useful whole (the replay validates it again); other files are cut in the middle
			if len(b) > 8<<20 && !(strings.HasSuffix(dst, ".ndjson") && len(b) <= 160<<20) {
				b = append(b[:4<<20], b[len(b)-(4<<20):]...)
			}

			_ = os.WriteFile(filepath.Join(dir, dst), b, 0o644)
		}
	}

	for dst, b := range inline {
		_ = os.WriteFile(filepath.Join(dir, dst), b, 0o644)
	}

	return dir
}

// Finish writes the evidence file, prints the verdict lines and returns the exit code.
func (c *Ctx) Finish() int {
	c.mu.Lock()
	defer c.mu.Unlock()

	c.Ev.WallS = time.Since(c.Start).Seconds()
	c.Ev.Violations = len(c.viol)

	cov := c.Ev.Coverage
	for _, k := range []string{"states", "transitions", "traces_validated_against_impl", "evaluations", "distinct_nontrivial"} {
		if _, ok := cov[k]; !ok {
			cov[k] = int64(0)
		}
	}

	if _, ok := cov["samples"]; !ok {
		cov["samples"] = []interface{}{}
	}

	kn := make([]string, 0, len(c.known))
	for id := range c.known {
		kn = append(kn, id)
	}

	sort.Strings(kn)
	cov["known_findings_seen"] = kn

	if len(c.inconcl) > 0 {
		cov["inconclusive"] = c.inconcl
	}

	if c.Ev.Assumptions == nil {
		c.Ev.Assumptions = []string{}
	}

	evDir := filepath.Join(c.VerifDir, "evidence")
	_ = os.MkdirAll(evDir, 0o755)

	b, _ := json.MarshalIndent(c.Ev, "", " ")
	_ = os.WriteFile(filepath.Join(evDir, c.Prop+".json"), append(b, '\n'), 0o644)

	for _, id := range kn {
		fmt.Printf("KNOWN-FINDING: property=%s %s %s\n", c.Prop, id, c.known[id])
	}

	code := ExitHeld

	if len(c.viol) > 0 {
		code = ExitViolation

		for _, v := range c.viol {
			fmt.Printf("VIOLATION property=%s replay=%s\n", v.Prop, v.Replay)
			fmt.Printf("  detail: %s\n", strings.ReplaceAll(v.Detail, "\n", "\n  "))
		}
	} else if len(c.inconcl) > 0 {
		code = ExitInconclusive

		for _, s := range c.inconcl {
			fmt.Printf("INCONCLUSIVE property=%s %s\n", c.Prop, s)
		}
	}

	fmt.Printf("%s %s seed=%d: exit %d in %.1fs (states=%v transitions=%v traces=%v evaluations=%v)\n", c.Prop, c.Tier, c.Seed, code,
		c.Ev.WallS, cov["states"], cov["transitions"], cov["traces_validated_against_impl"], cov["evaluations"])

	if c.logf != nil {
		c.logf.Close()
	}

	if code != ExitHeld {
		// keep the log with the replay material
		_ = os.MkdirAll(c.OutDir, 0o755)
		if b, err := os.ReadFile(filepath.Join(c.Scratch, "check.log")); err == nil {
			_ = os.WriteFile(filepath.Join(c.OutDir, "check.log"), b, 0o644)
		}
	}

	if os.Getenv("VERIF_KEEP") == "" {
		_ = os.RemoveAll(c.Scratch)
	}

	return code
}

package core

import (
	"bufio"
	"context"
	"fmt"
	"os"
	"os/exec"
	"path/filepath"
	"regexp"
	"strconv"
	"strings"
	"time"
)

const tlcClasspath = "/opt/veriftools/tla/tla2tools.jar:/opt/veriftools/tla/CommunityModules-deps.jar"

// TLCRun describes one TLC invocation.
type TLCRun struct {
	Module    string            // module file name without .tla (in SpecDir)
	Cfg       string            // cfg file name (in SpecDir); default Module+".cfg"
	Env       map[string]string // extra environment (TRACE_FILE etc; read via IOEnv)
	Workers   int               // default 1
	HeapMB    int               // default 1024
	Timeout   time.Duration     // default 10 min
	DFS       bool              // use StateDeque (depth-first) queue
	Simulate  string            // e.g. "num=100" -> -simulate num=100
	Depth     int               // -depth for simulation
	Seed      int64             // -seed (simulation) when != 0
	Coverage  bool              // -coverage 1
	ExtraArgs []string
	Label     string   // for logs
	KnownDevs []string // when non-nil: the cfg's line "KnownDevs = {...}" is rewritten with these names
}

// TLCResult is what was parsed from TLC's output.
type TLCResult struct {
	ExitCode   int
	TimedOut   bool
	Generated  int64
	Distinct   int64
	Depth      int
	Violated   string // name of violated invariant / property ("" if none)
	PostFailed bool   // POSTCONDITION evaluated to FALSE
	Deadlock   bool
	ErrorText  string // first "Error:" line that is not one of the above
	LastState  map[string]string
	Printed    []string // lines produced by PrintT / Print (heuristic: lines starting with "<<" or '"')
	OutputPath string
	Wall       time.Duration
	ZeroCov    []string // coverage lines with count 0 (when Coverage)
	ActionCov  map[string]int64
}

func (r *TLCResult) OK() bool {
	return !r.TimedOut && r.ExitCode == 0 && r.Violated == "" && !r.PostFailed && !r.Deadlock && r.ErrorText == ""
}

var (
	reStates    = regexp.MustCompile(`^(\d+) states generated, (\d+) distinct states found`)
	reDepth     = regexp.MustCompile(`^The depth of the complete state graph search is (\d+)`)
	reInv       = regexp.MustCompile(`^Error: Invariant (\S+) is violated`)
	reActProp   = regexp.MustCompile(`^Error: Action property (\S+) is violated`)
	reTemporal  = regexp.MustCompile(`^Error: Temporal properties were violated`)
	reStateVar  = regexp.MustCompile(`^/\\ (\w+) = (.*)$`)
	reStateHead = regexp.MustCompile(`^State \d+: `)
	reCovAction = regexp.MustCompile(`^<(\w+) line (\d+), col (\d+) to line (\d+), col (\d+) of module (\w+)>: (\d+):(\d+)`)
)

var tlcCounter int

// RunTLC copies the spec directory into a scratch directory and runs TLC there.
func (c *Ctx) RunTLC(run TLCRun) (*TLCResult, error) {
	c.mu.Lock()
	tlcCounter++
	n := tlcCounter
	c.mu.Unlock()

	dir := filepath.Join(c.Scratch, fmt.Sprintf("tlc-%d", n))
	if err := os.MkdirAll(dir, 0o755); err != nil {
		return nil, err
	}

	if err := copySpecs(c.SpecDir, dir); err != nil {
		return nil, err
	}

	if run.Cfg == "" {
		run.Cfg = run.Module + ".cfg"
	}

	if run.KnownDevs != nil {
		if err := rewriteKnownDevs(filepath.Join(dir, run.Cfg), run.KnownDevs); err != nil {
			return nil, err
		}
	}

	if run.Workers <= 0 {
		run.Workers = 1
	}

	if run.HeapMB <= 0 {
		run.HeapMB = 1024
	}

	if run.Timeout <= 0 {
		run.Timeout = 10 * time.Minute
	}

	args := []string{
		fmt.Sprintf("-Xmx%dm", run.HeapMB), "-Xss64m", "-XX:+UseParallelGC",
		"-Djava.io.tmpdir=" + dir,
	}
	if run.DFS {
		args = append(args, "-Dtlc2.tool.queue.IStateQueue=StateDeque")
	}

	args = append(args, "-cp", tlcClasspath, "tlc2.TLC",
		"-metadir", filepath.Join(dir, "md"), "-noGenerateSpecTE",
		"-workers", strconv.Itoa(run.Workers), "-config", run.Cfg)
	if run.Simulate != "" {
		args = append(args, "-simulate", run.Simulate)
		if run.Depth > 0 {
			args = append(args, "-depth", strconv.Itoa(run.Depth))
		}

		if run.Seed != 0 {
			args = append(args, "-seed", strconv.FormatInt(run.Seed, 10))
		}
	}

	if run.Coverage {
		args = append(args, "-coverage", "1")
	}

	args = append(args, run.ExtraArgs...)
	args = append(args, run.Module+".tla")

	ctx, cancel := context.WithTimeout(context.Background(), run.Timeout)
	defer cancel()

	cmd := exec.CommandContext(ctx, "java", args...)
	cmd.Dir = dir
	cmd.Env = os.Environ()

	for k, v := range run.Env {
		cmd.Env = append(cmd.Env, k+"="+v)
	}

	outPath := filepath.Join(dir, "tlc.out")

	outf, err := os.Create(outPath)
	if err != nil {
		return nil, err
	}

	cmd.Stdout = outf
	cmd.Stderr = outf
	start := time.Now()
	runErr := cmd.Run()
	outf.Close()

	res := &TLCResult{OutputPath: outPath, Wall: time.Since(start), LastState: map[string]string{}, ActionCov: map[string]int64{}}
	if ctx.Err() == context.DeadlineExceeded {
		res.TimedOut = true
	}

	if runErr != nil {
		if ee, ok := runErr.(*exec.ExitError); ok {
			res.ExitCode = ee.ExitCode()
		} else if !res.TimedOut {
			return res, runErr
		}
	}

	parseTLCOutput(outPath, res)

	if res.ExitCode != 0 && res.Violated == "" && !res.PostFailed && !res.Deadlock && res.ErrorText == "" && !res.TimedOut {
		res.ErrorText = fmt.Sprintf("TLC exit code %d (see %s)", res.ExitCode, outPath)
	}

	c.Logf("tlc[%s %s] wall=%.1fs gen=%d distinct=%d violated=%q post=%v err=%q", run.Label, run.Cfg, res.Wall.Seconds(),
		res.Generated, res.Distinct, res.Violated, res.PostFailed, res.ErrorText)

	return res, nil
}

func parseTLCOutput(path string, res *TLCResult) {
	f, err := os.Open(path)
	if err != nil {
		return
	}
	defer f.Close()

	sc := bufio.NewScanner(f)
	sc.Buffer(make([]byte, 1<<20), 1<<28)

	inState := false

	for sc.Scan() {
		line := sc.Text()

		switch {
		case reStates.MatchString(line):
			m := reStates.FindStringSubmatch(line)
			res.Generated, _ = strconv.ParseInt(m[1], 10, 64)
			res.Distinct, _ = strconv.ParseInt(m[2], 10, 64)
		case reDepth.MatchString(line):
			m := reDepth.FindStringSubmatch(line)
			res.Depth, _ = strconv.Atoi(m[1])
		case reInv.MatchString(line):
			if res.Violated == "" {
				res.Violated = reInv.FindStringSubmatch(line)[1]
			}
		case reActProp.MatchString(line):
			if res.Violated == "" {
				res.Violated = reActProp.FindStringSubmatch(line)[1]
			}
		case reTemporal.MatchString(line):
			if res.Violated == "" {
				res.Violated = "TemporalProperty"
			}
		case strings.HasPrefix(line, "Error: Deadlock reached"):
			res.Deadlock = true
		case strings.Contains(line, "The postcondition") || strings.Contains(line, "Postcondition"):
			if strings.Contains(line, "violated") || strings.Contains(line, "false") || strings.Contains(line, "FALSE") {
				res.PostFailed = true
			}
		case strings.HasPrefix(line, "Error: The behavior up to this point is"),
			strings.HasPrefix(line, "Error: The following behavior constitutes a counter-example"):
			// part of a violation report
		case strings.HasPrefix(line, "Error:") || strings.HasPrefix(line, "***Parse Error***") || strings.Contains(line, "TLC threw an unexpected exception") || strings.Contains(line, "Fatal errors while parsing"):
			if res.ErrorText == "" && res.Violated == "" && !res.PostFailed && !res.Deadlock {
				res.ErrorText = line
			} else if strings.Contains(line, "evaluating") && res.ErrorText == "" {
				res.ErrorText = line
			}
		case reStateHead.MatchString(line):
			inState = true
			res.LastState = map[string]string{}
		case inState && reStateVar.MatchString(line):
			m := reStateVar.FindStringSubmatch(line)
			res.LastState[m[1]] = m[2]
		case line == "":
			inState = false
		case strings.HasPrefix(line, "<<") || strings.HasPrefix(line, "\""):
			if len(res.Printed) < 100000 {
				res.Printed = append(res.Printed, line)
			}
		case reCovAction.MatchString(line):
			m := reCovAction.FindStringSubmatch(line)
			cnt, _ := strconv.ParseInt(m[8], 10, 64)
			res.ActionCov[m[1]] += cnt
			if cnt == 0 {
				res.ZeroCov = append(res.ZeroCov, m[1])
			}
		}
	}
}

var reKnownDevs = regexp.MustCompile(`KnownDevs\s*=\s*\{[^}]*\}`)

func rewriteKnownDevs(cfgPath string, devs []string) error {
	b, err := os.ReadFile(cfgPath)
	if err != nil {
		return err
	}

	q := make([]string, 0, len(devs))
	for _, d := range devs {
		q = append(q, strconv.Quote(d))
	}

	out := reKnownDevs.ReplaceAll(b, []byte("KnownDevs = {"+strings.Join(q, ", ")+"}"))

	return os.WriteFile(cfgPath, out, 0o644)
}

// UsedFindings returns the ids printed by the trace specification as <<"USED", {...}>>.
func (r *TLCResult) UsedFindings() []string {
	var out []string

	for _, p := range r.Printed {
		if !strings.HasPrefix(p, "<<\"USED\"") {
			continue
		}

		for _, m := range regexp.MustCompile(`"([^"]+)"`).FindAllStringSubmatch(p, -1) {
			if m[1] != "USED" {
				out = append(out, m[1])
			}
		}
	}

	return out
}

func copySpecs(src, dst string) error {
	ents, err := os.ReadDir(src)
	if err != nil {
		return err
	}

	for _, e := range ents {
		if e.IsDir() {
			continue
		}

		n := e.Name()
		if !(strings.HasSuffix(n, ".tla") || strings.HasSuffix(n, ".cfg") || strings.HasSuffix(n, ".json")) {
			continue
		}

		b, err := os.ReadFile(filepath.Join(src, n))
		if err != nil {
			return err
		}

		if err := os.WriteFile(filepath.Join(dst, n), b, 0o644); err != nil {
			return err
		}
	}

	return nil
}

package core

import (
	"bytes"
	"context"
	"fmt"
	"os"
	"os/exec"
	"regexp"
	"strings"
	"time"
)

// WorkerResult is the outcome of a worker subprocess (the code under test runs inside it, so a
// panic there is an observation, not a harness failure).
type WorkerResult struct {
	ExitCode int
	TimedOut bool
	Stderr   string
	Panic    string // first line of a Go panic / fatal error, "" if none
	Site     string // first repository frame of the panic trace ("file.go:line")
	Wall     time.Duration
}

var (
	rePanic = regexp.MustCompile(`(?m)^(panic: .*|fatal error: .*)$`)
	reFrame = regexp.MustCompile(`(?m)^\s+(/repo/[^\s:]+):(\d+)`)
)

// PanicSite extracts the panic headline and the first frame inside the repository.
func PanicSite(stderr string) (string, string) {
	m := rePanic.FindStringIndex(stderr)
	if m == nil {
		return "", ""
	}

	head := stderr[m[0]:m[1]]
	rest := stderr[m[1]:]

	for _, fm := range reFrame.FindAllStringSubmatch(rest, -1) {
		file := fm[1]
		if strings.Contains(file, "verif_on.go") || strings.Contains(file, "verif_off.go") {
			continue
		}

		return head, strings.TrimPrefix(file, "/repo/") + ":" + fm[2]
	}

	return head, "unknown"
}

// RunWorker re-executes this binary as "worker <args...>".
func (c *Ctx) RunWorker(timeout time.Duration, args ...string) *WorkerResult {
	return c.RunWorkerBin(c.Self, nil, timeout, args...)
}

// RunWorkerBin runs another build of this binary (e.g. the one with the race detector) as "worker <args...>".
func (c *Ctx) RunWorkerBin(bin string, env []string, timeout time.Duration, args ...string) *WorkerResult {
	ctx, cancel := context.WithTimeout(context.Background(), timeout)
	defer cancel()

	cmd := exec.CommandContext(ctx, bin, append([]string{"worker"}, args...)...)
	cmd.Env = append(append(os.Environ(), "GOTRACEBACK=all"), env...)

	var stderr bytes.Buffer
	cmd.Stderr = &stderr
	cmd.Stdout = &stderr
	start := time.Now()
	err := cmd.Run()
	res := &WorkerResult{Wall: time.Since(start)}
	res.Stderr = stderr.String()

	if len(res.Stderr) > 1<<20 {
		res.Stderr = res.Stderr[:1<<19] + "\n...\n" + res.Stderr[len(res.Stderr)-(1<<19):]
	}

	if ctx.Err() == context.DeadlineExceeded {
		res.TimedOut = true
	}

	if err != nil {
		if ee, ok := err.(*exec.ExitError); ok {
			res.ExitCode = ee.ExitCode()
		} else {
			res.ExitCode = -1
			res.Stderr += fmt.Sprintf("\nworker start error: %v", err)
		}
	}

	res.Panic, res.Site = PanicSite(res.Stderr)

	return res
}

// Package fakep4 is the harness' own P4Runtime server (DESIGN 3.3): it serves the P4Info shipped in
// /repo/conf/p4/bin/p4info.txt, keeps table / meter / counter state with the semantics of the
// P4Runtime specification (INSERT of an existing entry is ALREADY_EXISTS, MODIFY and DELETE of a
// missing one NOT_FOUND, a batch continues after a failed update and reports one status per update),
// records every update it receives in the order of arrival, and can be told to fail chosen writes.
// It contains no expectation about what the agent ought to write.
package fakep4

import (
	"context"
	"encoding/hex"
	"fmt"
	"math/rand"
	"net"
	"os"
	"sort"
	"strings"
	"sync"
	"sync/atomic"
	"time"

	//nolint:staticcheck // the P4Runtime stubs are built on the deprecated package
	"github.com/golang/protobuf/proto"
	p4cfg "github.com/p4lang/p4runtime/go/p4/config/v1"
	p4 "github.com/p4lang/p4runtime/go/p4/v1"
	spb "google.golang.org/genproto/googleapis/rpc/status"
	"google.golang.org/grpc"
	"google.golang.org/grpc/codes"
	"google.golang.org/grpc/status"
	"google.golang.org/protobuf/protoadapt"
)

// Update is one received update in plain form.
type Update struct {
	Rpc    int    // index of the Write RPC (1-based)
	Idx    int    // position inside the RPC
	Op     string // INSERT | MODIFY | DELETE
	Kind   string // table | meter | counter | other
	Raw    *p4.Update
	Result codes.Code // what the server answered for this update
	Forced bool       // the failure was injected by the harness
}

// Fault decides the fate of one update (or of a whole RPC when Idx = -1 is asked first).
type Fault struct {
	Code codes.Code // codes.OK = no fault
	// RPC: fail the whole RPC with a plain gRPC status (no per-update details); nothing of the RPC is applied
	RPC bool
}

// Server is the P4Runtime server.
type Server struct {
	p4.UnimplementedP4RuntimeServer

	mu              sync.Mutex
	WriteDelayMaxNs int64 // > 0: every Write RPC is delayed by a random time below this many nanoseconds before it takes effect (atomic)
	Info            *p4cfg.P4Info
	tables          map[uint32]map[string]*p4.TableEntry
	meters          map[uint32]map[int64]*p4.MeterConfig
	counters        map[uint32]map[int64]*p4.CounterData
	log             []Update
	rpcs            int
	reads           int
	pktOut          [][]byte
	pktOutAt        []time.Time
	writeEnd        time.Time // when the last Write RPC was answered
	last            time.Time
	streams         map[int]p4.P4Runtime_StreamChannelServer
	nstream         int
	arbs            int

	// FaultFn is consulted under the server lock for every RPC (idx = -1) and every update
	// n: number of updates of the RPC
	FaultFn func(rpc, idx, n int, u *p4.Update) Fault

	gs   *grpc.Server
	lis  net.Listener
	addr string
}

// LoadInfo parses a P4Info text file.
func LoadInfo(path string) (*p4cfg.P4Info, error) {
	b, err := os.ReadFile(path)
	if err != nil {
		return nil, err
	}

	info := &p4cfg.P4Info{}
	if err := proto.UnmarshalText(string(b), info); err != nil {
		return nil, err
	}

	return info, nil
}

// New creates a server for the given P4Info.
func New(info *p4cfg.P4Info) *Server {
	s := &Server{Info: info, streams: map[int]p4.P4Runtime_StreamChannelServer{}}
	s.reset()

	return s
}

func (s *Server) reset() {
	s.tables = map[uint32]map[string]*p4.TableEntry{}
	s.meters = map[uint32]map[int64]*p4.MeterConfig{}
	s.counters = map[uint32]map[int64]*p4.CounterData{}
}

// Start listens on addr ("127.0.0.1:0") and serves.
func (s *Server) Start(addr string) (string, error) {
	lis, err := net.Listen("tcp", addr)
	if err != nil {
		return "", err
	}

	s.lis = lis
	s.addr = lis.Addr().String()
	s.gs = grpc.NewServer()
	p4.RegisterP4RuntimeServer(s.gs, s)

	go func() { _ = s.gs.Serve(lis) }()

	return s.addr, nil
}

// Stop stops serving (state is kept).
func (s *Server) Stop() {
	if s.gs != nil {
		s.gs.Stop()
		s.gs = nil
	}
}

// Restart serves again on the same address with the state it had.
func (s *Server) Restart() error {
	var err error

	for i := 0; i < 50; i++ {
		if _, err = s.Start(s.addr); err == nil {
			return nil
		}

		time.Sleep(20 * time.Millisecond)
	}

	return err
}

// Addr returns host:port.
func (s *Server) Addr() string { return s.addr }

// ---------------------------------------------------------------------------------------------

func (s *Server) touch() { s.last = time.Now() }

// WaitIdle waits until no RPC arrived for the quiet period.
func (s *Server) WaitIdle(quiet, max time.Duration) {
	deadline := time.Now().Add(max)

	for time.Now().Before(deadline) {
		s.mu.Lock()
		idle := time.Since(s.last) >= quiet
		s.mu.Unlock()

		if idle {
			return
		}

		time.Sleep(quiet / 4)
	}
}

func (s *Server) tableKnown(id uint32) bool {
	for _, t := range s.Info.Tables {
		if t.Preamble.Id == id {
			return true
		}
	}

	return false
}

func (s *Server) meterSize(id uint32) int64 {
	for _, m := range s.Info.Meters {
		if m.Preamble.Id == id {
			return m.Size
		}
	}

	return -1
}

func (s *Server) counterSize(id uint32) int64 {
	for _, m := range s.Info.Counters {
		if m.Preamble.Id == id {
			return m.Size
		}
	}

	return -1
}

// canonical form of a byte string value: without leading zero bytes
func canon(b []byte) string {
	i := 0
	for i < len(b)-1 && b[i] == 0 {
		i++
	}

	if len(b) == 0 {
		return ""
	}

	return hex.EncodeToString(b[i:])
}

// EntryKey identifies a table entry: the set of its matches (in field order) and its priority.
func EntryKey(e *p4.TableEntry) string {
	parts := []string{}

	for _, m := range e.Match {
		switch x := m.FieldMatchType.(type) {
		case *p4.FieldMatch_Exact_:
			parts = append(parts, fmt.Sprintf("%d=e:%s", m.FieldId, canon(x.Exact.Value)))
		case *p4.FieldMatch_Lpm:
			parts = append(parts, fmt.Sprintf("%d=l:%s/%d", m.FieldId, canon(x.Lpm.Value), x.Lpm.PrefixLen))
		case *p4.FieldMatch_Ternary_:
			parts = append(parts, fmt.Sprintf("%d=t:%s&%s", m.FieldId, canon(x.Ternary.Value), canon(x.Ternary.Mask)))
		case *p4.FieldMatch_Range_:
			parts = append(parts, fmt.Sprintf("%d=r:%s-%s", m.FieldId, canon(x.Range.Low), canon(x.Range.High)))
		default:
			parts = append(parts, fmt.Sprintf("%d=?", m.FieldId))
		}
	}

	sort.Strings(parts)

	return fmt.Sprintf("%s|p%d", strings.Join(parts, ","), e.Priority)
}

func opName(t p4.Update_Type) string {
	switch t {
	case p4.Update_INSERT:
		return "INSERT"
	case p4.Update_MODIFY:
		return "MODIFY"
	case p4.Update_DELETE:
		return "DELETE"
	}

	return "UNSPECIFIED"
}

// apply one update to the state; returns the canonical code
func (s *Server) apply(u *p4.Update) (string, codes.Code) {
	if u == nil || u.Entity == nil {
		return "other", codes.InvalidArgument
	}

	switch e := u.Entity.Entity.(type) {
	case *p4.Entity_TableEntry:
		te := e.TableEntry
		if te == nil || !s.tableKnown(te.TableId) {
			return "table", codes.InvalidArgument
		}

		tbl := s.tables[te.TableId]
		if tbl == nil {
			tbl = map[string]*p4.TableEntry{}
			s.tables[te.TableId] = tbl
		}

		k := EntryKey(te)
		_, exists := tbl[k]

		switch u.Type {
		case p4.Update_INSERT:
			if exists {
				return "table", codes.AlreadyExists
			}

			tbl[k] = proto.Clone(te).(*p4.TableEntry)
		case p4.Update_MODIFY:
			if !exists {
				return "table", codes.NotFound
			}

			tbl[k] = proto.Clone(te).(*p4.TableEntry)
		case p4.Update_DELETE:
			if !exists {
				return "table", codes.NotFound
			}

			delete(tbl, k)
		default:
			return "table", codes.InvalidArgument
		}

		return "table", codes.OK
	case *p4.Entity_MeterEntry:
		me := e.MeterEntry
		if me == nil {
			return "meter", codes.InvalidArgument
		}

		size := s.meterSize(me.MeterId)
		if size < 0 || u.Type != p4.Update_MODIFY {
			return "meter", codes.InvalidArgument
		}

		cells := s.meters[me.MeterId]
		if cells == nil {
			cells = map[int64]*p4.MeterConfig{}
			s.meters[me.MeterId] = cells
		}

		if me.Index == nil { // all cells
			if me.Config == nil {
				s.meters[me.MeterId] = map[int64]*p4.MeterConfig{}
			} else {
				for i := int64(0); i < size; i++ {
					cells[i] = proto.Clone(me.Config).(*p4.MeterConfig)
				}
			}

			return "meter", codes.OK
		}

		if me.Index.Index < 0 || me.Index.Index >= size {
			return "meter", codes.OutOfRange
		}

		if me.Config == nil { // reset to the default (unconfigured) state
			delete(cells, me.Index.Index)
		} else {
			cells[me.Index.Index] = proto.Clone(me.Config).(*p4.MeterConfig)
		}

		return "meter", codes.OK
	case *p4.Entity_CounterEntry:
		ce := e.CounterEntry
		if ce == nil {
			return "counter", codes.InvalidArgument
		}

		size := s.counterSize(ce.CounterId)
		if size < 0 || u.Type != p4.Update_MODIFY {
			return "counter", codes.InvalidArgument
		}

		if ce.Index != nil && (ce.Index.Index < 0 || ce.Index.Index >= size) {
			return "counter", codes.OutOfRange
		}

		cells := s.counters[ce.CounterId]
		if cells == nil {
			cells = map[int64]*p4.CounterData{}
			s.counters[ce.CounterId] = cells
		}

		if ce.Index != nil && ce.Data != nil {
			cells[ce.Index.Index] = proto.Clone(ce.Data).(*p4.CounterData)
		}

		return "counter", codes.OK
	}

	return "other", codes.Unimplemented
}

func firstUpdate(req *p4.WriteRequest) *p4.Update {
	if len(req.Updates) == 0 {
		return nil
	}

	return req.Updates[0]
}

// KindOf names the entity kind of an update: table | meter | counter | other.
func KindOf(u *p4.Update) string {
	if u == nil || u.Entity == nil {
		return "other"
	}

	switch u.Entity.Entity.(type) {
	case *p4.Entity_TableEntry:
		return "table"
	case *p4.Entity_MeterEntry:
		return "meter"
	case *p4.Entity_CounterEntry:
		return "counter"
	}

	return "other"
}

// Write implements the RPC.
func (s *Server) Write(ctx context.Context, req *p4.WriteRequest) (*p4.WriteResponse, error) {
	// the latency of a switch: the request is on its way for a while before it takes effect (concurrent phases: what the
	// agent does meanwhile must not depend on a write that has not been answered yet)
	if d := atomic.LoadInt64(&s.WriteDelayMaxNs); d > 0 {
		time.Sleep(time.Duration(rand.Int63n(d)))
	}

	s.mu.Lock()
	defer s.mu.Unlock()

	s.touch()
	defer func() { s.touch(); s.writeEnd = time.Now() }()

	s.rpcs++
	rpc := s.rpcs

	if s.FaultFn != nil {
		if f := s.FaultFn(rpc, -1, len(req.Updates), firstUpdate(req)); f.Code != codes.OK && f.RPC {
			for i, u := range req.Updates {
				kind := "other"
				if u != nil && u.Entity != nil {
					switch u.Entity.Entity.(type) {
					case *p4.Entity_TableEntry:
						kind = "table"
					case *p4.Entity_MeterEntry:
						kind = "meter"
					case *p4.Entity_CounterEntry:
						kind = "counter"
					}
				}

				var op string
				if u != nil {
					op = opName(u.Type)
				}

				s.log = append(s.log, Update{Rpc: rpc, Idx: i, Op: op, Kind: kind, Raw: u, Result: f.Code, Forced: true})
			}

			return nil, status.Error(f.Code, "injected failure of the whole write")
		}
	}

	results := make([]codes.Code, len(req.Updates))
	failed := false

	for i, u := range req.Updates {
		var (
			kind   string
			code   codes.Code
			forced bool
		)

		if s.FaultFn != nil && u != nil {
			if f := s.FaultFn(rpc, i, len(req.Updates), u); f.Code != codes.OK && !f.RPC {
				code, forced = f.Code, true
				kind = "table"

				if u.Entity != nil {
					switch u.Entity.Entity.(type) {
					case *p4.Entity_MeterEntry:
						kind = "meter"
					case *p4.Entity_CounterEntry:
						kind = "counter"
					}
				}
			}
		}

		if !forced {
			kind, code = s.apply(u)
		}

		var op string
		if u != nil {
			op = opName(u.Type)
		}

		s.log = append(s.log, Update{Rpc: rpc, Idx: i, Op: op, Kind: kind, Raw: u, Result: code, Forced: forced})
		results[i] = code

		if code != codes.OK {
			failed = true
		}
	}

	if !failed {
		return &p4.WriteResponse{}, nil
	}

	// P4Runtime error reporting: status UNKNOWN with one p4.Error per update
	st := &spb.Status{Code: int32(codes.Unknown), Message: "write failed"}
	pst := status.FromProto(st)

	details := make([]protoadapt.MessageV1, 0, len(results))
	for _, c := range results {
		details = append(details, &p4.Error{CanonicalCode: int32(c), Message: c.String()})
	}

	withDetails, err := pst.WithDetails(details...)
	if err != nil {
		return nil, status.Error(codes.Internal, err.Error())
	}

	return nil, withDetails.Err()
}

// Read implements the RPC: wildcard reads of tables (by table id, 0 = all), meters and counters.
func (s *Server) Read(req *p4.ReadRequest, srv p4.P4Runtime_ReadServer) error {
	s.mu.Lock()
	defer s.mu.Unlock()

	s.touch()
	s.reads++

	resp := &p4.ReadResponse{}

	for _, ent := range req.Entities {
		switch e := ent.Entity.(type) {
		case *p4.Entity_TableEntry:
			ids := []uint32{}
			if e.TableEntry.TableId == 0 {
				for id := range s.tables {
					ids = append(ids, id)
				}
			} else {
				ids = append(ids, e.TableEntry.TableId)
			}

			sort.Slice(ids, func(i, j int) bool { return ids[i] < ids[j] })

			for _, id := range ids {
				keys := []string{}
				for k := range s.tables[id] {
					keys = append(keys, k)
				}

				sort.Strings(keys)

				for _, k := range keys {
					te := s.tables[id][k]
					if len(e.TableEntry.Match) > 0 && EntryKey(e.TableEntry) != k {
						continue
					}

					resp.Entities = append(resp.Entities, &p4.Entity{Entity: &p4.Entity_TableEntry{TableEntry: proto.Clone(te).(*p4.TableEntry)}})
				}
			}
		case *p4.Entity_CounterEntry:
			ce := e.CounterEntry
			if ce.Index != nil {
				d := s.counters[ce.CounterId][ce.Index.Index]
				if d == nil {
					d = &p4.CounterData{}
				}

				resp.Entities = append(resp.Entities, &p4.Entity{Entity: &p4.Entity_CounterEntry{CounterEntry: &p4.CounterEntry{
					CounterId: ce.CounterId, Index: ce.Index, Data: d}}})
			}
		case *p4.Entity_MeterEntry:
			me := e.MeterEntry
			if me.Index != nil {
				resp.Entities = append(resp.Entities, &p4.Entity{Entity: &p4.Entity_MeterEntry{MeterEntry: &p4.MeterEntry{
					MeterId: me.MeterId, Index: me.Index, Config: s.meters[me.MeterId][me.Index.Index]}}})
			}
		}
	}

	return srv.Send(resp)
}

// SetForwardingPipelineConfig is accepted and ignored (the agent never calls it in this mode).
func (s *Server) SetForwardingPipelineConfig(ctx context.Context, req *p4.SetForwardingPipelineConfigRequest) (*p4.SetForwardingPipelineConfigResponse, error) {
	return &p4.SetForwardingPipelineConfigResponse{}, nil
}

// GetForwardingPipelineConfig serves the P4Info.
func (s *Server) GetForwardingPipelineConfig(ctx context.Context, req *p4.GetForwardingPipelineConfigRequest) (*p4.GetForwardingPipelineConfigResponse, error) {
	s.mu.Lock()
	defer s.mu.Unlock()

	s.touch()

	return &p4.GetForwardingPipelineConfigResponse{Config: &p4.ForwardingPipelineConfig{
		P4Info: s.Info, Cookie: &p4.ForwardingPipelineConfig_Cookie{Cookie: 1}}}, nil
}

// StreamChannel answers arbitration (the client becomes primary) and records packet-outs.
func (s *Server) StreamChannel(srv p4.P4Runtime_StreamChannelServer) error {
	s.mu.Lock()
	s.nstream++
	id := s.nstream
	s.streams[id] = srv
	s.mu.Unlock()

	defer func() {
		s.mu.Lock()
		delete(s.streams, id)
		s.mu.Unlock()
	}()

	for {
		in, err := srv.Recv()
		if err != nil {
			return nil
		}

		switch x := in.Update.(type) {
		case *p4.StreamMessageRequest_Arbitration:
			s.mu.Lock()
			s.arbs++
			s.touch()
			s.mu.Unlock()

			_ = srv.Send(&p4.StreamMessageResponse{Update: &p4.StreamMessageResponse_Arbitration{Arbitration: &p4.MasterArbitrationUpdate{
				DeviceId: x.Arbitration.DeviceId, ElectionId: x.Arbitration.ElectionId, Status: &spb.Status{Code: int32(codes.OK)}}}})
		case *p4.StreamMessageRequest_Packet:
			s.mu.Lock()
			s.pktOut = append(s.pktOut, append([]byte(nil), x.Packet.Payload...))
			s.pktOutAt = append(s.pktOutAt, time.Now())
			s.touch()
			s.mu.Unlock()
		}
	}
}

// Capabilities implements the RPC.
func (s *Server) Capabilities(ctx context.Context, req *p4.CapabilitiesRequest) (*p4.CapabilitiesResponse, error) {
	return &p4.CapabilitiesResponse{P4RuntimeApiVersion: "1.3.0"}, nil
}

// SendDigest sends one digest (the UE address of a buffered downlink packet) on every open stream.
func (s *Server) SendDigest(ueAddr uint32) int {
	s.mu.Lock()
	defer s.mu.Unlock()

	n := 0
	b := []byte{byte(ueAddr >> 24), byte(ueAddr >> 16), byte(ueAddr >> 8), byte(ueAddr)}

	for _, srv := range s.streams {
		if err := srv.Send(&p4.StreamMessageResponse{Update: &p4.StreamMessageResponse_Digest{Digest: &p4.DigestList{
			Data: []*p4.P4Data{{Data: &p4.P4Data_Bitstring{Bitstring: b}}}}}}); err == nil {
			n++
		}
	}

	return n
}

// ---------------------------------------------------------------------------------------------
// observation

// State is a copy of the server state.
type State struct {
	Tables   map[uint32][]*p4.TableEntry
	Meters   map[uint32]map[int64]*p4.MeterConfig
	Counters map[uint32]map[int64]*p4.CounterData
	Updates  int // number of updates received so far
	Rpcs     int
	Reads    int
	PktOut   [][]byte
	PktOutAt []time.Time
	WriteEnd time.Time
	Streams  int
}

// Snapshot copies the state.
func (s *Server) Snapshot() State {
	s.mu.Lock()
	defer s.mu.Unlock()

	st := State{Tables: map[uint32][]*p4.TableEntry{}, Meters: map[uint32]map[int64]*p4.MeterConfig{},
		Counters: map[uint32]map[int64]*p4.CounterData{}, Updates: len(s.log), Rpcs: s.rpcs, Reads: s.reads, Streams: len(s.streams)}

	for id, t := range s.tables {
		keys := []string{}
		for k := range t {
			keys = append(keys, k)
		}

		sort.Strings(keys)

		for _, k := range keys {
			st.Tables[id] = append(st.Tables[id], proto.Clone(t[k]).(*p4.TableEntry))
		}
	}

	for id, m := range s.meters {
		st.Meters[id] = map[int64]*p4.MeterConfig{}
		for i, c := range m {
			st.Meters[id][i] = proto.Clone(c).(*p4.MeterConfig)
		}
	}

	for id, m := range s.counters {
		st.Counters[id] = map[int64]*p4.CounterData{}
		for i, c := range m {
			st.Counters[id][i] = proto.Clone(c).(*p4.CounterData)
		}
	}

	st.PktOut = append(st.PktOut, s.pktOut...)
	st.PktOutAt = append(st.PktOutAt, s.pktOutAt...)
	st.WriteEnd = s.writeEnd

	return st
}

// UpdatesSince returns the updates received after the first n.
func (s *Server) UpdatesSince(n int) []Update {
	s.mu.Lock()
	defer s.mu.Unlock()

	if n > len(s.log) {
		n = len(s.log)
	}

	return append([]Update(nil), s.log[n:]...)
}

// RpcCount returns the number of Write RPCs so far.
func (s *Server) RpcCount() int {
	s.mu.Lock()
	defer s.mu.Unlock()

	return s.rpcs
}

// SetFault installs (or removes, with nil) the fault function.
func (s *Server) SetFault(f func(rpc, idx, n int, u *p4.Update) Fault) {
	s.mu.Lock()
	defer s.mu.Unlock()

	s.FaultFn = f
}

// Wipe clears all state (a switch that lost its state).
func (s *Server) Wipe() {
	s.mu.Lock()
	defer s.mu.Unlock()

	s.reset()
}

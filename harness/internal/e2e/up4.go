package e2e

import (
	"fmt"
	"net"
	"sort"

	p4cfg "github.com/p4lang/p4runtime/go/p4/config/v1"
	p4 "github.com/p4lang/p4runtime/go/p4/v1"
	"google.golang.org/grpc/codes"

	"verif/harness/internal/fakep4"
	"verif/harness/internal/pfcpx"
)

// P4InfoPath is the P4Info the harness' switch serves: the one shipped with the code under test.
const P4InfoPath = "/repo/conf/p4/bin/p4info.txt"

// names of the pipeline objects the projections look at (resolved through the served P4Info, not
// through the agent's compiled-in constants)
const (
	tblInterfaces = "PreQosPipe.interfaces"
	tblSessUL     = "PreQosPipe.sessions_uplink"
	tblSessDL     = "PreQosPipe.sessions_downlink"
	tblTermUL     = "PreQosPipe.terminations_uplink"
	tblTermDL     = "PreQosPipe.terminations_downlink"
	tblApps       = "PreQosPipe.applications"
	tblPeers      = "PreQosPipe.tunnel_peers"
	mtrApp        = "PreQosPipe.app_meter"
	mtrSess       = "PreQosPipe.session_meter"
	mtrSlice      = "PreQosPipe.slice_tc_meter"
)

// p4names indexes a P4Info by id.
type p4names struct {
	tables  map[uint32]*p4cfg.Table
	actions map[uint32]*p4cfg.Action
	meters  map[uint32]*p4cfg.Meter
	ctrs    map[uint32]*p4cfg.Counter
	byName  map[string]uint32
}

func indexInfo(info *p4cfg.P4Info) *p4names {
	n := &p4names{tables: map[uint32]*p4cfg.Table{}, actions: map[uint32]*p4cfg.Action{}, meters: map[uint32]*p4cfg.Meter{},
		ctrs: map[uint32]*p4cfg.Counter{}, byName: map[string]uint32{}}

	for _, t := range info.Tables {
		n.tables[t.Preamble.Id] = t
		n.byName[t.Preamble.Name] = t.Preamble.Id
	}

	for _, a := range info.Actions {
		n.actions[a.Preamble.Id] = a
		n.byName[a.Preamble.Name] = a.Preamble.Id
	}

	for _, m := range info.Meters {
		n.meters[m.Preamble.Id] = m
		n.byName[m.Preamble.Name] = m.Preamble.Id
	}

	for _, c := range info.Counters {
		n.ctrs[c.Preamble.Id] = c
		n.byName[c.Preamble.Name] = c.Preamble.Id
	}

	return n
}

// beUint reads a big-endian byte string; ok=false if it does not fit 64 bits.
func beUint(b []byte) (uint64, bool) {
	for len(b) > 8 {
		if b[0] != 0 {
			return 0, false
		}

		b = b[1:]
	}

	var v uint64
	for _, x := range b {
		v = v<<8 | uint64(x)
	}

	return v, true
}

// small integer for the trace: -2 = does not fit 31 bits, -1 = absent
func smallInt(b []byte, present bool) int {
	if !present {
		return -1
	}

	v, ok := beUint(b)
	if !ok || v > 0x7FFFFFFF {
		return -2
	}

	return int(v)
}

func v32Of(b []byte, present bool) []int {
	if !present {
		return pfcpx.V32(0)
	}

	v, ok := beUint(b)
	if !ok || v > 0xFFFFFFFF {
		return pfcpx.V32(0xFFFFFFFF)
	}

	return pfcpx.V32(v)
}

type flatEntry struct {
	exact   map[string][]byte
	lpmVal  map[string][]byte
	lpmLen  map[string]int
	rngLo   map[string][]byte
	rngHi   map[string][]byte
	terVal  map[string][]byte
	terMask map[string][]byte
	action  string
	params  map[string][]byte
	prio    int
}

func (n *p4names) flatten(e *p4.TableEntry) flatEntry {
	f := flatEntry{exact: map[string][]byte{}, lpmVal: map[string][]byte{}, lpmLen: map[string]int{}, rngLo: map[string][]byte{},
		rngHi: map[string][]byte{}, terVal: map[string][]byte{}, terMask: map[string][]byte{}, params: map[string][]byte{}, prio: int(e.Priority)}

	t := n.tables[e.TableId]
	fname := func(id uint32) string {
		if t != nil {
			for _, mf := range t.MatchFields {
				if mf.Id == id {
					return mf.Name
				}
			}
		}

		return fmt.Sprintf("#%d", id)
	}

	for _, m := range e.Match {
		nm := fname(m.FieldId)

		switch x := m.FieldMatchType.(type) {
		case *p4.FieldMatch_Exact_:
			f.exact[nm] = x.Exact.Value
		case *p4.FieldMatch_Lpm:
			f.lpmVal[nm], f.lpmLen[nm] = x.Lpm.Value, int(x.Lpm.PrefixLen)
		case *p4.FieldMatch_Range_:
			f.rngLo[nm], f.rngHi[nm] = x.Range.Low, x.Range.High
		case *p4.FieldMatch_Ternary_:
			f.terVal[nm], f.terMask[nm] = x.Ternary.Value, x.Ternary.Mask
		}
	}

	if a := e.GetAction().GetAction(); a != nil {
		act := n.actions[a.ActionId]
		if act != nil {
			f.action = act.Preamble.Name
		} else {
			f.action = fmt.Sprintf("#%d", a.ActionId)
		}

		for _, p := range a.Params {
			nm := fmt.Sprintf("#%d", p.ParamId)

			if act != nil {
				for _, ap := range act.Params {
					if ap.Id == p.ParamId {
						nm = ap.Name
					}
				}
			}

			f.params[nm] = p.Value
		}
	}

	return f
}

func has(m map[string][]byte, k string) ([]byte, bool) {
	v, ok := m[k]
	return v, ok
}

func actShort(a string) string {
	switch a {
	case "PreQosPipe.set_session_uplink", "PreQosPipe.set_session_downlink", "PreQosPipe.uplink_term_fwd", "PreQosPipe.downlink_term_fwd":
		return "fwd"
	case "PreQosPipe.set_session_uplink_drop", "PreQosPipe.set_session_downlink_drop", "PreQosPipe.uplink_term_drop", "PreQosPipe.downlink_term_drop":
		return "drop"
	case "PreQosPipe.set_session_downlink_buff":
		return "buff"
	case "PreQosPipe.set_app_id", "PreQosPipe.load_tunnel_param", "PreQosPipe.set_source_iface":
		return "set"
	}

	return "other"
}

func meterCells(cells map[int64]*p4.MeterConfig) []map[string]interface{} {
	idx := []int64{}
	for i := range cells {
		idx = append(idx, i)
	}

	sort.Slice(idx, func(a, b int) bool { return idx[a] < idx[b] })

	out := []map[string]interface{}{}

	for _, i := range idx {
		c := cells[i]
		big := func(v int64) []int {
			if v < 0 {
				return pfcpx.Big(0)
			}

			return pfcpx.Big(uint64(v))
		}
		out = append(out, map[string]interface{}{"idx": int(i), "cir": big(c.Cir), "cbs": big(c.Cburst), "pir": big(c.Pir), "pbs": big(c.Pburst),
			"neg": c.Cir < 0 || c.Cburst < 0 || c.Pir < 0 || c.Pburst < 0})
	}

	return out
}

// p4JSON projects the switch state (DESIGN 3.9, UP4 form).
func (w *World) p4JSON() map[string]interface{} {
	st := w.P4.Snapshot()
	n := w.p4n

	if w.LightDp { // the tables are not part of what this history is judged by: an empty switch is recorded
		st = fakep4.State{}
	}

	list := func(table string, mk func(f flatEntry) map[string]interface{}) []map[string]interface{} {
		out := []map[string]interface{}{}

		for _, e := range st.Tables[n.byName[table]] {
			out = append(out, mk(n.flatten(e)))
		}

		return out
	}

	pInt := func(f flatEntry, k string) int { v, ok := has(f.params, k); return smallInt(v, ok) }
	pV32 := func(f flatEntry, k string) []int { v, ok := has(f.params, k); return v32Of(v, ok) }
	mInt := func(f flatEntry, k string) int { v, ok := has(f.exact, k); return smallInt(v, ok) }
	mV32 := func(f flatEntry, k string) []int { v, ok := has(f.exact, k); return v32Of(v, ok) }

	return map[string]interface{}{
		"sessUL": list(tblSessUL, func(f flatEntry) map[string]interface{} {
			return map[string]interface{}{"n3": mV32(f, "n3_address"), "teid": mV32(f, "teid"), "act": actShort(f.action), "smeter": pInt(f, "session_meter_idx")}
		}),
		"sessDL": list(tblSessDL, func(f flatEntry) map[string]interface{} {
			return map[string]interface{}{"ue": mV32(f, "ue_address"), "act": actShort(f.action), "peer": pInt(f, "tunnel_peer_id"), "smeter": pInt(f, "session_meter_idx")}
		}),
		"termUL": list(tblTermUL, func(f flatEntry) map[string]interface{} {
			return map[string]interface{}{"ue": mV32(f, "ue_address"), "app": mInt(f, "app_id"), "act": actShort(f.action), "ctr": pInt(f, "ctr_idx"),
				"tc": pInt(f, "tc"), "ameter": pInt(f, "app_meter_idx")}
		}),
		"termDL": list(tblTermDL, func(f flatEntry) map[string]interface{} {
			return map[string]interface{}{"ue": mV32(f, "ue_address"), "app": mInt(f, "app_id"), "act": actShort(f.action), "ctr": pInt(f, "ctr_idx"),
				"teid": pV32(f, "teid"), "qfi": pInt(f, "qfi"), "tc": pInt(f, "tc"), "ameter": pInt(f, "app_meter_idx")}
		}),
		"apps": list(tblApps, func(f flatEntry) map[string]interface{} {
			ipv, ipok := has(f.lpmVal, "app_ip_addr")
			lo, lok := has(f.rngLo, "app_l4_port")
			hi, _ := has(f.rngHi, "app_l4_port")
			pv, pok := has(f.terVal, "app_ip_proto")
			pm, _ := has(f.terMask, "app_ip_proto")
			m := map[string]interface{}{"slice": mInt(f, "slice_id"), "ip": v32Of(ipv, ipok), "plen": f.lpmLen["app_ip_addr"], "lo": 0, "hi": 65535,
				"proto": 0, "pmask": 0, "prio": f.prio, "app": pInt(f, "app_id")}
			if lok {
				m["lo"], m["hi"] = smallInt(lo, true), smallInt(hi, true)
			}
			if pok {
				m["proto"], m["pmask"] = smallInt(pv, true), smallInt(pm, true)
			}

			return m
		}),
		"peers": list(tblPeers, func(f flatEntry) map[string]interface{} {
			return map[string]interface{}{"id": mInt(f, "tunnel_peer_id"), "src": pV32(f, "src_addr"), "dst": pV32(f, "dst_addr"), "sport": pInt(f, "sport")}
		}),
		"ifaces": list(tblInterfaces, func(f flatEntry) map[string]interface{} {
			ipv, ipok := has(f.lpmVal, "ipv4_dst_prefix")
			return map[string]interface{}{"ip": v32Of(ipv, ipok), "plen": f.lpmLen["ipv4_dst_prefix"], "iface": pInt(f, "src_iface"), "dir": pInt(f, "direction"),
				"slice": pInt(f, "slice_id")}
		}),
		"appMeters":   meterCells(st.Meters[n.byName[mtrApp]]),
		"sessMeters":  meterCells(st.Meters[n.byName[mtrSess]]),
		"sliceMeters": meterCells(st.Meters[n.byName[mtrSlice]]),
	}
}

// P4CounterUsed says whether a terminations entry of the switch counts into the given cell of the pre-QoS counter.
func (w *World) P4CounterUsed(idx int) bool {
	dp := w.p4JSON()

	for _, t := range []string{"termUL", "termDL"} {
		for _, e := range dp[t].([]map[string]interface{}) {
			if e["ctr"] == idx {
				return true
			}
		}
	}

	return false
}

// writeJSON renders one received update for the validity specification (C16): ids and byte values as
// sent, nothing resolved through the P4Info.
func writeJSON(u fakep4.Update) map[string]interface{} {
	val := func(b []byte) map[string]interface{} {
		v, ok := beUint(b)
		big := !ok || v > 0xFFFFFFFF

		if big {
			v = 0
		}

		return map[string]interface{}{"v": pfcpx.V32(v), "big": big, "len": len(b)}
	}

	m := map[string]interface{}{"rpc": u.Rpc, "idx": u.Idx, "op": u.Op, "kind": u.Kind, "result": int(u.Result), "forced": u.Forced,
		"table": pfcpx.V32(0), "match": []interface{}{}, "action": pfcpx.V32(0), "hasAction": false, "params": []interface{}{}, "prio": 0,
		"obj": pfcpx.V32(0), "index": -1, "hasIndex": false}

	if u.Raw == nil || u.Raw.Entity == nil {
		return m
	}

	switch e := u.Raw.Entity.Entity.(type) {
	case *p4.Entity_TableEntry:
		te := e.TableEntry
		m["table"] = pfcpx.V32(uint64(te.TableId))
		m["prio"] = int(te.Priority)
		match := []interface{}{}

		for _, f := range te.Match {
			fm := map[string]interface{}{"id": int(f.FieldId), "kind": "other", "a": val(nil), "b": val(nil), "plen": 0}

			switch x := f.FieldMatchType.(type) {
			case *p4.FieldMatch_Exact_:
				fm["kind"], fm["a"] = "EXACT", val(x.Exact.Value)
			case *p4.FieldMatch_Lpm:
				fm["kind"], fm["a"], fm["plen"] = "LPM", val(x.Lpm.Value), int(x.Lpm.PrefixLen)
			case *p4.FieldMatch_Range_:
				fm["kind"], fm["a"], fm["b"] = "RANGE", val(x.Range.Low), val(x.Range.High)
			case *p4.FieldMatch_Ternary_:
				fm["kind"], fm["a"], fm["b"] = "TERNARY", val(x.Ternary.Value), val(x.Ternary.Mask)
			}

			match = append(match, fm)
		}

		m["match"] = match

		if a := te.GetAction().GetAction(); a != nil {
			m["hasAction"] = true
			m["action"] = pfcpx.V32(uint64(a.ActionId))
			ps := []interface{}{}

			for _, p := range a.Params {
				ps = append(ps, map[string]interface{}{"id": int(p.ParamId), "a": val(p.Value)})
			}

			m["params"] = ps
		}
	case *p4.Entity_MeterEntry:
		m["obj"] = pfcpx.V32(uint64(e.MeterEntry.MeterId))
		if e.MeterEntry.Index != nil {
			m["hasIndex"] = true
			m["index"] = clampIdx(e.MeterEntry.Index.Index)
		}
	case *p4.Entity_CounterEntry:
		m["obj"] = pfcpx.V32(uint64(e.CounterEntry.CounterId))
		if e.CounterEntry.Index != nil {
			m["hasIndex"] = true
			m["index"] = clampIdx(e.CounterEntry.Index.Index)
		}
	}

	return m
}

func clampIdx(i int64) int {
	if i < 0 {
		return -2
	}

	if i > 0x7FFFFFFF {
		return 0x7FFFFFFF
	}

	return int(i)
}

// InfoJSON renders the served P4Info for the validity specification.
func InfoJSON(info *p4cfg.P4Info) map[string]interface{} {
	tables := []interface{}{}

	for _, t := range info.Tables {
		fields := []interface{}{}
		needPrio := false

		for _, f := range t.MatchFields {
			k := f.GetMatchType().String()
			if k == "TERNARY" || k == "RANGE" || k == "OPTIONAL" {
				needPrio = true
			}

			fields = append(fields, map[string]interface{}{"id": int(f.Id), "kind": k, "width": int(f.Bitwidth)})
		}

		acts := []interface{}{}

		for _, a := range t.ActionRefs {
			acts = append(acts, map[string]interface{}{"id": pfcpx.V32(uint64(a.Id)), "defaultOnly": a.Scope == p4cfg.ActionRef_DEFAULT_ONLY})
		}

		tables = append(tables, map[string]interface{}{"id": pfcpx.V32(uint64(t.Preamble.Id)), "name": t.Preamble.Name, "fields": fields, "actions": acts,
			"needPrio": needPrio, "size": int(t.Size)})
	}

	actions := []interface{}{}

	for _, a := range info.Actions {
		ps := []interface{}{}
		for _, p := range a.Params {
			ps = append(ps, map[string]interface{}{"id": int(p.Id), "width": int(p.Bitwidth)})
		}

		actions = append(actions, map[string]interface{}{"id": pfcpx.V32(uint64(a.Preamble.Id)), "name": a.Preamble.Name, "params": ps})
	}

	arrs := func(kind string) []interface{} {
		out := []interface{}{}

		if kind == "meter" {
			for _, m := range info.Meters {
				out = append(out, map[string]interface{}{"id": pfcpx.V32(uint64(m.Preamble.Id)), "size": int(m.Size)})
			}
		} else {
			for _, m := range info.Counters {
				out = append(out, map[string]interface{}{"id": pfcpx.V32(uint64(m.Preamble.Id)), "size": int(m.Size)})
			}
		}

		return out
	}

	return map[string]interface{}{"tables": tables, "actions": actions, "meters": arrs("meter"), "counters": arrs("counter")}
}

// P4FaultPlan fails one write of the next request: the K-th Write RPC counted from the moment the request is sent.
// Mode "rpc": the whole RPC fails with a plain gRPC status and nothing of it is applied; mode "update": update number
// Upd (clamped to the last one) of that RPC is not applied and reported with the code in the per-update error details.
type P4FaultPlan struct {
	K    int
	Mode string
	Upd  int
	Code codes.Code
	// OnKind, when set, counts only the RPCs whose first update is of that kind (table | meter | counter): K is the
	// K-th such RPC of the request
	OnKind string
	hit    bool
	base   int
	seen   map[int]bool
	target int
}

func (w *World) armP4Fault() {
	pl := w.P4Fault
	if pl == nil || w.P4 == nil {
		return
	}

	pl.base = w.P4.RpcCount()
	pl.seen = map[int]bool{}

	w.P4.SetFault(func(rpc, idx, n int, u *p4.Update) fakep4.Fault {
		if idx == -1 { // once per RPC: is this the one?
			if pl.OnKind == "" {
				if rpc-pl.base == pl.K {
					pl.target = rpc
				}
			} else if fakep4.KindOf(u) == pl.OnKind && !pl.seen[rpc] {
				pl.seen[rpc] = true
				if len(pl.seen) == pl.K {
					pl.target = rpc
				}
			}

			if rpc == pl.target && pl.Mode == "rpc" {
				pl.hit = true
				return fakep4.Fault{Code: pl.Code, RPC: true}
			}

			return fakep4.Fault{}
		}

		if rpc != pl.target || pl.Mode == "rpc" || n == 0 {
			return fakep4.Fault{}
		}

		if idx == pl.Upd%n {
			pl.hit = true
			return fakep4.Fault{Code: pl.Code}
		}

		return fakep4.Fault{}
	})
}

// disarmP4Fault removes the fault and returns its description for the trace line.
func (w *World) disarmP4Fault() map[string]interface{} {
	pl := w.P4Fault
	if pl == nil || w.P4 == nil {
		return nil
	}

	w.P4.SetFault(nil)
	w.P4Fault = nil

	return map[string]interface{}{"k": pl.K, "mode": pl.Mode, "upd": pl.Upd, "code": int(pl.Code), "hit": pl.hit, "rpcs": w.P4.RpcCount() - pl.base, "onKind": pl.OnKind}
}

// p4Cmds summarises the update log: number of updates received, number that were not OK.
func (w *World) p4Counts() (int, int) {
	us := w.P4.UpdatesSince(0)
	bad := 0

	for _, u := range us {
		if u.Result != codes.OK {
			bad++
		}
	}

	return len(us), bad
}

// up4CfgJSON is the UP4 part of the configuration as the specification sees it.
func (w *World) up4CfgJSON() map[string]interface{} {
	tcmap := []map[string]interface{}{}

	keys := []string{}
	for k := range w.Cfg.P4QfiToTC {
		keys = append(keys, k)
	}

	sort.Strings(keys)

	for _, k := range keys {
		q := 0
		fmt.Sscan(k, &q)
		tcmap = append(tcmap, map[string]interface{}{"qfi": q, "tc": w.Cfg.P4QfiToTC[k]})
	}

	dtc := 0
	if w.Cfg.P4DefaultTC != nil {
		dtc = *w.Cfg.P4DefaultTC
	}

	_, an, _ := net.ParseCIDR(w.Cfg.P4AccessIP)
	aip, _, _ := net.ParseCIDR(w.Cfg.P4AccessIP)
	alen := 32

	if an != nil {
		alen, _ = an.Mask.Size()
	}

	pnet, plen := uint32(0), 32
	if _, n, err := net.ParseCIDR(w.Cfg.UEPool); err == nil {
		pnet = pfcpx.IP4(n.IP)
		plen, _ = n.Mask.Size()
	}

	return map[string]interface{}{"slice": w.Cfg.P4SliceID, "qfiTc": tcmap, "defaultTc": dtc, "n3": pfcpx.V32(uint64(pfcpx.IP4(aip))), "n3len": alen,
		"uePoolNet": pfcpx.V32(uint64(pnet)), "uePoolLen": plen, "clearOnRestart": w.Cfg.P4ClearState}
}

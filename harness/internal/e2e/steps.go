package e2e

import (
	p4 "github.com/p4lang/p4runtime/go/p4/v1"
	"google.golang.org/grpc/codes"
	"net"
	"regexp"
	"sort"
	"strings"
	"sync"
	"time"
	"verif/harness/internal/fakep4"

	"github.com/google/gopacket"
	"github.com/google/gopacket/layers"
	"github.com/wmnsk/go-pfcp/ie"
	"github.com/wmnsk/go-pfcp/message"

	"verif/harness/internal/fakebess"
	"verif/harness/internal/pfcpx"
)

var (
	rePanic = regexp.MustCompile(`(?m)^(panic: .*|fatal error: .*)$`)
	reFrame = regexp.MustCompile(`(?m)^\s+(/repo/[^\s:]+):(\d+)`)
)

func panicSite(stderr string) (string, string) {
	m := rePanic.FindStringIndex(stderr)
	if m == nil {
		return "", "exit-without-panic"
	}

	head := stderr[m[0]:m[1]]

	for _, fm := range reFrame.FindAllStringSubmatch(stderr[m[1]:], -1) {
		if strings.Contains(fm[1], "verif_on.go") || strings.Contains(fm[1], "verif_off.go") {
			continue
		}

		return head, strings.TrimPrefix(fm[1], "/repo/") + ":" + fm[2]
	}

	return head, "unknown"
}

// SessReq is an abstract session request.
type SessReq struct {
	NodeID string // node id announced in an establishment ("" = the peer's own)
	CP     uint64 // CP SEID (CP F-SEID IE of an establishment)
	Hdr    uint64 // header SEID (UP SEID for modification / deletion)
	NewCP  uint64 // modification: new CP F-SEID (0 = none)
	CPDR   []pfcpx.PDR
	UPDR   []pfcpx.PDR
	CFAR   []pfcpx.FAR
	UFAR   []pfcpx.FAR
	CQER   []pfcpx.QER
	UQER   []pfcpx.QER
	RPDR   []uint16
	RFAR   []uint32
	RQER   []uint32
	Seq    uint32 // 0 = next of the peer
}

func (w *World) sessReqJSON(p *pfcpx.Peer, r *SessReq, seq uint32) map[string]interface{} {
	node := r.NodeID
	if node == "" {
		node = p.NodeID
	}

	lp := func(xs []pfcpx.PDR) []map[string]interface{} {
		out := []map[string]interface{}{}
		for _, x := range xs {
			out = append(out, x.JSON())
		}

		return out
	}
	lf := func(xs []pfcpx.FAR) []map[string]interface{} {
		out := []map[string]interface{}{}
		for _, x := range xs {
			out = append(out, x.JSON())
		}

		return out
	}
	lq := func(xs []pfcpx.QER) []map[string]interface{} {
		out := []map[string]interface{}{}
		for _, x := range xs {
			out = append(out, x.JSON())
		}

		return out
	}
	rp := []int{}

	for _, x := range r.RPDR {
		rp = append(rp, int(x))
	}

	r32 := func(xs []uint32) [][]int {
		out := [][]int{}
		for _, x := range xs {
			out = append(out, pfcpx.V32(uint64(x)))
		}

		return out
	}

	newcp := "-"
	if r.NewCP != 0 {
		newcp = w.CpTok.Reg(r.NewCP)
	}

	return map[string]interface{}{
		"seq": pfcpx.V32(uint64(seq)), "node": "n:" + node, "cp": w.CpTok.Reg(r.CP), "hdr": w.UpTok.Reg(r.Hdr), "newcp": newcp,
		"cpdr": lp(r.CPDR), "updr": lp(r.UPDR), "cfar": lf(r.CFAR), "ufar": lf(r.UFAR), "cqer": lq(r.CQER), "uqer": lq(r.UQER),
		"rpdr": rp, "rfar": r32(r.RFAR), "rqer": r32(r.RQER),
	}
}

// settle waits for the datapath to go quiet and a short silence window for further datagrams.
func (w *World) settle(p *pfcpx.Peer, got bool, extraQuiet time.Duration) {
	w.dpIdle(w.Quiet/2+extraQuiet, 3*time.Second)

	time.Sleep(w.Quiet + extraQuiet)
}

// collectMarkers decodes the end markers received since the last step. programmedAt is the time the last
// farLookup add of this step was acknowledged (zero if none): "afterProg" records whether the marker
// arrived after it.
func (w *World) collectMarkers(programmedAt time.Time) []map[string]interface{} {
	out := []map[string]interface{}{}

	if w.P4 != nil {
		// UP4: end markers leave as packet-outs on the P4Runtime stream; "programmed" = the last Write RPC was answered
		st := w.P4.Snapshot()

		for i := w.p4PktSeen; i < len(st.PktOut); i++ {
			m := markerJSON(st.PktOut[i])
			m["afterProg"] = !st.PktOutAt[i].Before(st.WriteEnd)
			out = append(out, m)
		}

		w.p4PktSeen = len(st.PktOut)

		return out
	}

	for {
		select {
		case mk := <-w.markers:
			m := markerJSON(mk.b)
			m["afterProg"] = programmedAt.IsZero() || !mk.at.Before(programmedAt)
			out = append(out, m)
		default:
			return out
		}
	}
}

// markerJSON decodes an end-marker packet (Ethernet / IPv4 / UDP / GTPv1-U).
func markerJSON(b []byte) map[string]interface{} {
	pkt := gopacket.NewPacket(b, layers.LayerTypeEthernet, gopacket.Default)
	m := map[string]interface{}{"peer": pfcpx.V32(0), "teid": pfcpx.V32(0), "src": pfcpx.V32(0), "sport": 0, "dport": 0, "gtpType": 0, "ok": false}

	ip4, _ := pkt.Layer(layers.LayerTypeIPv4).(*layers.IPv4)
	udp, _ := pkt.Layer(layers.LayerTypeUDP).(*layers.UDP)
	gtp, _ := pkt.Layer(layers.LayerTypeGTPv1U).(*layers.GTPv1U)

	if ip4 != nil {
		m["peer"] = pfcpx.V32(uint64(pfcpx.IP4(ip4.DstIP)))
		m["src"] = pfcpx.V32(uint64(pfcpx.IP4(ip4.SrcIP)))
	}

	if udp != nil {
		m["sport"], m["dport"] = int(udp.SrcPort), int(udp.DstPort)
	}

	if gtp != nil {
		m["teid"] = pfcpx.V32(uint64(gtp.TEID))
		m["gtpType"] = int(gtp.MessageType)
	}

	m["ok"] = ip4 != nil && udp != nil && gtp != nil

	return m
}

// exchange sends one request and records everything observed for it.
func (w *World) exchange(p *pfcpx.Peer, kind string, req map[string]interface{}, raw []byte, expectResp bool, extraQuiet time.Duration) []pfcpx.Dgram {
	if w.conc != nil {
		return w.concExchange(p, kind, req, raw, expectResp)
	}

	p.Drain()

	cmds0, _, _ := w.Bess.Counts()
	logMark := w.dropLogCount()
	rpcs0 := 0

	if w.P4 != nil {
		rpcs0 = w.P4.RpcCount()
		w.armP4Fault()
	}

	killAt := w.KillAtWrite
	if killAt > 0 {
		w.armKill(killAt)
	}

	_ = p.SendRaw(raw)

	got := false
	drops := 0

	if expectResp && killAt > 0 {
		// the agent may die before it answers: do not sit out the whole response time-out
		for dl := time.Now().Add(w.RespWait); !got && time.Now().Before(dl) && w.Agent.Alive(); {
			got = p.WaitN(1, 15*time.Millisecond)
		}

		if !got {
			got = p.WaitN(1, 30*time.Millisecond)
		}
	} else if expectResp {
		got = p.WaitN(1, w.RespWait)

		if !got && w.dropLogCount() > logMark && w.Agent != nil && w.Agent.Alive() {
			// the agent logged "drop packet for existing PFCPconn": the kernel handed the datagram of an associated
			// peer to the node's listening socket and the node dropped it (listed known finding F-LISTENER-DROP).
			// Like a control plane would, the peer transmits the request again.
			drops = w.dropLogCount() - logMark
			_ = p.SendRaw(raw)
			got = p.WaitN(1, w.RespWait)
		}
	}

	if w.pendingWait != nil {
		if got {
			w.pendingWait()
		}

		w.pendingWait = nil
	}

	w.settle(p, got, extraQuiet)

	ds := p.Drain()
	resps := []map[string]interface{}{}

	for _, d := range ds {
		resps = append(resps, w.respJSON(d))
	}

	if drops > 0 {
		w.emit(map[string]interface{}{"ev": "listenerdrop", "peer": p.Name, "n": drops})
	}

	ev := map[string]interface{}{"ev": "req", "kind": kind, "peer": p.Name, "req": req, "resps": resps}
	if killAt > 0 {
		w.disarmKill()
		ev["killAt"], ev["killed"] = killAt, w.killHit
	}

	if w.P4 != nil {
		w.LastRpcs = w.P4.RpcCount() - rpcs0
		ev["rpcs"] = w.LastRpcs

		if f := w.disarmP4Fault(); f != nil {
			ev["fault"] = f
		}
	}

	w.dpObs(ev)

	var programmedAt time.Time

	for _, c := range w.Bess.CmdsSince(cmds0) {
		if c.Module == "farLookup" && c.Cmd == "add" && c.DoneAt.After(programmedAt) {
			programmedAt = c.DoneAt
		}
	}

	if w.connBefore != "" {
		ev["connBefore"] = w.connBefore
	}

	ev["markers"] = w.collectMarkers(programmedAt)
	if w.SnapEvery {
		ev["snap"] = w.snapJSON()
	}

	w.emit(ev)
	w.Steps++

	if (kind == "estab" || kind == "mod" || kind == "del") && len(ds) >= 1 && ds[0].Cause == 1 {
		w.Accepted++
	}

	if !(killAt > 0 && w.killHit) { // a process the harness killed did not die on its own
		w.CheckAlive()
	}

	return ds
}

func marshal(m message.Message) []byte {
	b := make([]byte, m.MarshalLen())
	_ = m.MarshalTo(b)

	return b
}

// Assoc sends an Association Setup Request.
func (w *World) Assoc(peer string) []pfcpx.Dgram {
	p := w.Peer(peer)
	seq := p.NextSeq()
	m := message.NewAssociationSetupRequest(seq, ie.NewNodeID(p.NodeID, "", ""), ie.NewRecoveryTimeStamp(p.TS))

	w.connBefore = "unknown"
	if w.SnapEvery && w.ConnTruth == "" {
		// the agent's own view of datapath connectivity immediately before the request (C12)
		if sn := w.snapJSON(); sn["has"] == true {
			w.connBefore = map[bool]string{true: "yes", false: "no"}[sn["connected"] == true]
		}
	}

	if w.ConnTruth == "down" {
		// what the harness knows: it closed the datapath server (and with it every connection of the agent) itself
		w.connBefore = "no"
	}

	defer func() { w.connBefore = "" }()

	return w.exchange(p, "assoc", map[string]interface{}{"seq": pfcpx.V32(uint64(seq)), "node": "n:" + p.NodeID}, marshal(m), true, 0)
}

// Heartbeat sends a Heartbeat Request.
func (w *World) Heartbeat(peer string) []pfcpx.Dgram {
	p := w.Peer(peer)
	seq := p.NextSeq()
	m := message.NewHeartbeatRequest(seq, ie.NewRecoveryTimeStamp(p.TS), nil)

	return w.exchange(p, "hb", map[string]interface{}{"seq": pfcpx.V32(uint64(seq))}, marshal(m), true, 0)
}

// Release sends an Association Release Request; the teardown runs after the response.
func (w *World) Release(peer string) []pfcpx.Dgram {
	p := w.Peer(peer)
	seq := p.NextSeq()
	m := message.NewAssociationReleaseRequest(seq, ie.NewNodeID(p.NodeID, "", ""))

	before := w.EventCount("conn.shutdown.done", p.LocalAddr())
	w.pendingWait = func() {
		// the teardown runs after the response was sent: wait for its end (hook event), else for an idle datapath
		if !w.WaitEventCount("conn.shutdown.done", p.LocalAddr(), before+1, w.teardownWait()) {
			time.Sleep(40 * time.Millisecond)
		}
	}

	return w.exchange(p, "release", map[string]interface{}{"seq": pfcpx.V32(uint64(seq)), "node": "n:" + p.NodeID}, marshal(m), true, 0)
}

// App is one application of a PFD Management Request.
type App struct {
	ID    string
	Flows []pfcpx.Flow
	Texts []string // raw descriptions sent instead of Flows[i].Text() when non-empty at that index
}

// Pfd sends a PFD Management Request that provisions the given applications.
func (w *World) Pfd(peer string, apps []App) []pfcpx.Dgram { return w.PfdRaw(peer, apps, false) }

// PfdRaw is Pfd; with allowEmpty an empty text in Texts is sent as an empty flow description (a request the agent rejects).
func (w *World) PfdRaw(peer string, apps []App, allowEmpty bool) []pfcpx.Dgram {
	p := w.Peer(peer)
	seq := p.NextSeq()

	var ies []*ie.IE

	aj := []map[string]interface{}{}

	for _, a := range apps {
		var ctx []*ie.IE

		fj := []map[string]interface{}{}

		for i, f := range a.Flows {
			txt := f.Text()
			ok := true

			if i < len(a.Texts) && (a.Texts[i] != "" || allowEmpty) {
				txt = a.Texts[i]
				ok = false
			}

			ctx = append(ctx, ie.NewPFDContents(txt, "", "", "", "", nil, nil, nil))
			fj = append(fj, map[string]interface{}{"ok": ok, "ast": f.JSON()})
		}

		ies = append(ies, ie.NewApplicationIDsPFDs(ie.NewApplicationID(a.ID), ie.NewPFDContext(ctx...)))
		aj = append(aj, map[string]interface{}{"id": a.ID, "flows": fj})
	}

	m := message.NewPFDManagementRequest(seq, ies...)

	return w.exchange(p, "pfd", map[string]interface{}{"seq": pfcpx.V32(uint64(seq)), "apps": aj}, marshal(m), true, 0)
}

func (w *World) seqOf(p *pfcpx.Peer, r *SessReq) uint32 {
	if r.Seq != 0 {
		return r.Seq
	}

	return p.NextSeq()
}

// Estab sends a Session Establishment Request.
func (w *World) Estab(peer string, r *SessReq) []pfcpx.Dgram {
	p := w.Peer(peer)
	seq := w.seqOf(p, r)
	node := r.NodeID

	if node == "" {
		node = p.NodeID
	}

	ies := []*ie.IE{ie.NewNodeID(node, "", ""), ie.NewFSEID(r.CP, net.ParseIP(p.NodeID).To4(), nil)}
	for _, x := range r.CPDR {
		ies = append(ies, x.CreateIE())
	}

	for _, x := range r.CFAR {
		ies = append(ies, x.CreateIE())
	}

	for _, x := range r.CQER {
		ies = append(ies, x.CreateIE())
	}

	m := message.NewSessionEstablishmentRequest(0, 0, r.Hdr, seq, 0, ies...)

	return w.exchange(p, "estab", w.sessReqJSON(p, r, seq), marshal(m), true, 0)
}

// Mod sends a Session Modification Request.
func (w *World) Mod(peer string, r *SessReq) []pfcpx.Dgram {
	p := w.Peer(peer)
	seq := w.seqOf(p, r)

	var ies []*ie.IE
	if r.NewCP != 0 {
		ies = append(ies, ie.NewFSEID(r.NewCP, net.ParseIP(p.NodeID).To4(), nil))
	}

	for _, x := range r.CPDR {
		ies = append(ies, x.CreateIE())
	}

	for _, x := range r.CFAR {
		ies = append(ies, x.CreateIE())
	}

	for _, x := range r.CQER {
		ies = append(ies, x.CreateIE())
	}

	for _, x := range r.UPDR {
		ies = append(ies, x.UpdateIE())
	}

	for _, x := range r.UFAR {
		ies = append(ies, x.UpdateIE())
	}

	for _, x := range r.UQER {
		ies = append(ies, x.UpdateIE())
	}

	for _, x := range r.RPDR {
		ies = append(ies, ie.NewRemovePDR(ie.NewPDRID(x)))
	}

	for _, x := range r.RFAR {
		ies = append(ies, ie.NewRemoveFAR(ie.NewFARID(x)))
	}

	for _, x := range r.RQER {
		ies = append(ies, ie.NewRemoveQER(ie.NewQERID(x)))
	}

	m := message.NewSessionModificationRequest(0, 0, r.Hdr, seq, 0, ies...)

	extra := time.Duration(0)
	if w.Cfg.EndMarker {
		for _, f := range r.UFAR {
			if f.SNDEM {
				extra = 10 * time.Millisecond // markers travel through a channel and a socket after the response
			}
		}
	}

	if extra > 0 && w.HoldFar > 0 {
		// hold the programming of the new FAR: a marker emitted before the datapath acknowledged it would arrive early
		hold := w.HoldFar
		w.Bess.FaultFn = func(seq int, module, cmd string) fakebess.Fault {
			if module == "farLookup" && cmd == "add" {
				return fakebess.Fault{Delay: hold}
			}

			return fakebess.Fault{}
		}

		defer func() { w.Bess.FaultFn = nil }()
	}

	return w.exchange(p, "mod", w.sessReqJSON(p, r, seq), marshal(m), true, extra)
}

// Del sends a Session Deletion Request.
func (w *World) Del(peer string, r *SessReq) []pfcpx.Dgram {
	p := w.Peer(peer)
	seq := w.seqOf(p, r)
	m := message.NewSessionDeletionRequest(0, 0, r.Hdr, seq, 0)

	return w.exchange(p, "del", w.sessReqJSON(p, r, seq), marshal(m), true, 0)
}

// InjectResp sends a response-type message; nothing may come back.
func (w *World) InjectResp(peer string, which int, seid uint64) []pfcpx.Dgram {
	p := w.Peer(peer)
	seq := (p.NextSeq() + 0x10000) & 0xFFFFFF

	var m message.Message

	names := []string{"HeartbeatResponse", "AssociationSetupResponse", "SessionEstablishmentResponse", "SessionModificationResponse",
		"SessionDeletionResponse", "PFDManagementResponse", "AssociationReleaseResponse", "SessionReportResponse"}
	which %= len(names)

	switch which {
	case 0:
		m = message.NewHeartbeatResponse(seq, ie.NewRecoveryTimeStamp(p.TS))
	case 1:
		m = message.NewAssociationSetupResponse(seq, ie.NewNodeID(p.NodeID, "", ""), ie.NewCause(ie.CauseRequestAccepted), ie.NewRecoveryTimeStamp(p.TS))
	case 2:
		m = message.NewSessionEstablishmentResponse(0, 0, seid, seq, 0, ie.NewNodeID(p.NodeID, "", ""), ie.NewCause(ie.CauseRequestAccepted))
	case 3:
		m = message.NewSessionModificationResponse(0, 0, seid, seq, 0, ie.NewCause(ie.CauseRequestAccepted))
	case 4:
		m = message.NewSessionDeletionResponse(0, 0, seid, seq, 0, ie.NewCause(ie.CauseRequestAccepted))
	case 5:
		m = message.NewPFDManagementResponse(seq, ie.NewCause(ie.CauseRequestAccepted), nil)
	case 6:
		m = message.NewAssociationReleaseResponse(seq, ie.NewNodeID(p.NodeID, "", ""), ie.NewCause(ie.CauseRequestAccepted))
	case 7:
		m = message.NewSessionReportResponse(0, 0, seid, seq, 0, ie.NewCause(ie.CauseRequestAccepted))
	}

	return w.exchange(p, "injectResp", map[string]interface{}{"seq": pfcpx.V32(uint64(seq)), "type": names[which]}, marshal(m), false, 6*time.Millisecond)
}

// AwaitTeardown waits until the agent has torn the association of the peer down on its own (hook event).
func (w *World) AwaitTeardown(peer string, before int, timeout time.Duration) bool {
	p := w.Peer(peer)
	ok := w.WaitEventCount("conn.shutdown.done", p.LocalAddr(), before+1, timeout)
	w.settle(p, true, 5*time.Millisecond)

	return ok
}

// TeardownCount returns how many teardowns of the peer's association have completed so far.
func (w *World) TeardownCount(peer string) int {
	return w.EventCount("conn.shutdown.done", w.Peer(peer).LocalAddr())
}

// RecordLost records the "lost" event with what the datapath holds now.
func (w *World) RecordLost(peer, why string) {
	p := w.Peer(peer)
	ev := map[string]interface{}{"ev": "lost", "peer": p.Name, "why": why}
	t := w.Bess.Snapshot()
	ev["dp"] = w.dpJSON()
	ev["cmds"] = t.Writes
	ev["errs"] = t.Errs

	if w.SnapEvery {
		ev["snap"] = w.snapJSON()
	}

	p.Drain()
	w.emit(ev)
	w.Steps++
	w.CheckAlive()
}

// WaitLost waits until the agent has torn the association of the peer down on its own (read time-out or
// unanswered heartbeats) and records the "lost" event with what the datapath holds afterwards.
func (w *World) WaitLost(peer string, why string, timeout time.Duration) bool {
	before := w.TeardownCount(peer)
	if !w.AwaitTeardown(peer, before, timeout) {
		w.LastErr = "association of " + peer + " was not torn down within the time limit (" + why + ")"
		return false
	}

	w.RecordLost(peer, why)

	return true
}

// Report makes the datapath report downlink data for the session (BESS notify socket), records the Session
// Report Request the agent sends (if any) and answers it with the given cause (0 = do not answer).
func (w *World) Report(peer string, upSeid uint64, cause uint8) []pfcpx.Dgram {
	p := w.Peer(peer)
	p.Drain()

	if w.P4 == nil && w.NotifyC == nil {
		w.LastErr = "notify socket not connected"
		return nil
	}

	b := make([]byte, 8)
	for i := 0; i < 8; i++ {
		b[i] = byte(upSeid >> (8 * i))
	}

	tms := int(time.Since(w.t0) / time.Millisecond)

	if w.P4 != nil {
		// UP4: the switch reports the UE address of a buffered downlink packet in a digest; an unknown session is
		// reported as an address no session has
		ue, ok := w.UeBySeid[upSeid]
		if !ok {
			ue = 0x0AFE0000 | uint32(upSeid&0xFFFF)
		}

		w.P4.SendDigest(ue)
	} else {
		_, _ = w.NotifyC.Write(b)

		// the datapath reports every buffered packet: several messages for one session in quick succession are one
		// burst of reports, far inside a notification interval
		for i := 1; i < w.ReportCopies; i++ {
			_, _ = w.NotifyC.Write(b)
		}
	}
	got := p.WaitN(1, 150*time.Millisecond)
	ds := p.Drain()
	srr := []map[string]interface{}{}

	for _, d := range ds {
		m := w.respJSON(d)
		m["dldr"] = maxInt(d.DLDRPdr, 0)
		m["hasDldr"] = d.DLDRPdr >= 0
		m["report"] = maxInt(d.Report, 0)
		srr = append(srr, m)
	}

	if got && cause != 0 && len(ds) > 0 {
		_ = p.Send(message.NewSessionReportResponse(0, 0, upSeid, ds[0].Seq, 0, ie.NewCause(cause)))
	}

	w.settle(p, got, 5*time.Millisecond)

	late := p.Drain()
	for _, d := range late {
		m := w.respJSON(d)
		m["dldr"], m["hasDldr"], m["report"] = maxInt(d.DLDRPdr, 0), d.DLDRPdr >= 0, maxInt(d.Report, 0)
		srr = append(srr, m)
	}

	ev := map[string]interface{}{"ev": "report", "peer": p.Name, "u": w.UpTok.Reg(upSeid), "srr": srr, "cause": int(cause), "t": tms}
	w.dpObs(ev)

	if w.SnapEvery {
		ev["snap"] = w.snapJSON()
	}

	w.emit(ev)
	w.Steps++
	w.CheckAlive()

	return ds
}

// ReportMany makes the BESS datapath report downlink data for many sessions at once (one message each, written back
// to back), collects the Session Report Requests the agent sends for up to `wait`, answers them, and records one "report"
// event per session with the request that carried that session's CP SEID (cps[i] belongs to ups[i]).
func (w *World) ReportMany(peer string, ups, cps []uint64, wait time.Duration) int {
	p := w.Peer(peer)
	p.Drain()

	if w.NotifyC == nil {
		w.LastErr = "notify socket not connected"
		return 0
	}

	tms := int(time.Since(w.t0) / time.Millisecond)

	for _, up := range ups {
		b := make([]byte, 8)
		for i := 0; i < 8; i++ {
			b[i] = byte(up >> (8 * i))
		}

		_, _ = w.NotifyC.Write(b)
	}

	byCp := map[uint64][]pfcpx.Dgram{}
	got := 0
	deadline := time.Now().Add(wait)
	quietSince := time.Now()

	for time.Now().Before(deadline) && (got < len(ups) || time.Since(quietSince) < 200*time.Millisecond) {
		ds := p.Drain()
		if len(ds) == 0 {
			if got >= len(ups) && time.Since(quietSince) >= 200*time.Millisecond {
				break
			}

			time.Sleep(2 * time.Millisecond)

			continue
		}

		quietSince = time.Now()

		for _, d := range ds {
			byCp[d.SEID] = append(byCp[d.SEID], d)
			got++

			for i, cp := range cps {
				if cp == d.SEID {
					_ = p.Send(message.NewSessionReportResponse(0, 0, ups[i], d.Seq, 0, ie.NewCause(ie.CauseRequestAccepted)))
					break
				}
			}
		}
	}

	for i, up := range ups {
		srr := []map[string]interface{}{}

		for _, d := range byCp[cps[i]] {
			m := w.respJSON(d)
			m["dldr"], m["hasDldr"], m["report"] = maxInt(d.DLDRPdr, 0), d.DLDRPdr >= 0, maxInt(d.Report, 0)
			srr = append(srr, m)
		}

		ev := map[string]interface{}{"ev": "report", "peer": p.Name, "u": w.UpTok.Reg(up), "srr": srr, "cause": 1, "t": tms}
		w.dpObs(ev)
		w.emit(ev)
		w.Steps++
	}

	w.CheckAlive()

	return got
}

// EstabBurst sends one establishment per peer at the same time and records them one after the other (in the
// order the answers arrived) with the tables as they are after the whole burst.
func (w *World) EstabBurst(peers []string, reqs []*SessReq) [][]pfcpx.Dgram {
	type sent struct {
		p   *pfcpx.Peer
		req map[string]interface{}
		raw []byte
	}

	var ss []sent

	for i, name := range peers {
		p := w.Peer(name)
		p.Drain()

		r := reqs[i]
		seq := w.seqOf(p, r)
		ies := []*ie.IE{ie.NewNodeID(p.NodeID, "", ""), ie.NewFSEID(r.CP, net.ParseIP(p.NodeID).To4(), nil)}

		for _, x := range r.CPDR {
			ies = append(ies, x.CreateIE())
		}

		for _, x := range r.CFAR {
			ies = append(ies, x.CreateIE())
		}

		for _, x := range r.CQER {
			ies = append(ies, x.CreateIE())
		}

		ss = append(ss, sent{p, w.sessReqJSON(p, r, seq), marshal(message.NewSessionEstablishmentRequest(0, 0, 0, seq, 0, ies...))})
	}

	for _, s := range ss {
		_ = s.p.SendRaw(s.raw)
	}

	for _, s := range ss {
		s.p.WaitN(1, w.RespWait)
	}

	w.settle(ss[0].p, true, 3*time.Millisecond)

	out := make([][]pfcpx.Dgram, len(ss))
	allResps := make([][]map[string]interface{}, len(ss))

	for i, s := range ss { // decode the answers first: the UP SEIDs they carry name the table entries
		out[i] = s.p.Drain()
		allResps[i] = []map[string]interface{}{}

		for _, d := range out[i] {
			allResps[i] = append(allResps[i], w.respJSON(d))
		}
	}

	t := w.Bess.Snapshot()
	dp := w.dpJSON()

	var snap map[string]interface{}
	if w.SnapEvery {
		snap = w.snapJSON()
	}

	for i, s := range ss {
		ds := out[i]
		resps := allResps[i]

		ev := map[string]interface{}{"ev": "req", "kind": "estab", "peer": s.p.Name, "req": s.req, "resps": resps, "dp": dp, "cmds": t.Writes, "errs": t.Errs,
			"markers": []interface{}{}, "burst": i < len(ss)-1}
		if snap != nil {
			ev["snap"] = snap
		}

		w.emit(ev)
		w.Steps++

		if len(ds) >= 1 && ds[0].Cause == 1 {
			w.Accepted++
		}
	}

	w.CheckAlive()

	return out
}

// newToks registers every session token that appears in the tables but was never reported in a response
// (entries a mutated message may have created) and returns them.
func (w *World) newToks() []string {
	out := []string{}
	t := w.Bess.Snapshot()
	seen := map[uint64]bool{}
	add := func(v uint64) {
		if v == 0 || seen[v] {
			return
		}

		seen[v] = true

		if len(w.UpTok.Get(v)) > 6 && w.UpTok.Get(v)[:6] == "alien:" {
			out = append(out, w.UpTok.Reg(v))
		}
	}

	for _, e := range t.Pdr {
		add(e.Valuesv[1])
	}

	for _, e := range t.Far {
		add(e.Fields[1])
	}

	for _, e := range t.AppQer {
		add(e.Fields[2])
	}

	for _, e := range t.SessQer {
		add(e.Fields[1])
	}

	return out
}

// Inject sends arbitrary bytes from the peer, followed by a valid Heartbeat Request that doubles as a barrier: the
// agent handles the datagrams of one peer in order, so everything that arrives before the answer to the
// heartbeat is the answer to the injected datagram. Two lines are recorded: the injection and the heartbeat (C01).
func (w *World) Inject(peer, what string, raw []byte) []pfcpx.Dgram {
	p := w.Peer(peer)
	p.Drain()

	before := w.EventCount("conn.shutdown.done", p.LocalAddr())
	_ = p.SendRaw(raw)

	if p.WaitN(1, 15*time.Millisecond) {
		for _, d := range p.Peek() {
			// the datagram was (still) a valid Association Release Request: the teardown runs after the response;
			// a datagram sent into the closing socket would be lost, so wait for its end like the Release step does
			if d.TypeNum == int(message.MsgTypeAssociationReleaseResponse) {
				if !w.WaitEventCount("conn.shutdown.done", p.LocalAddr(), before+1, 400*time.Millisecond) {
					time.Sleep(40 * time.Millisecond)
				}
			}
		}
	}

	seq := p.NextSeq()
	logMark := w.dropLogCount()
	_ = p.Send(message.NewHeartbeatRequest(seq, ie.NewRecoveryTimeStamp(p.TS), nil))

	deadline := time.Now().Add(w.RespWait)
	barrier := -1
	resent := false

	for barrier < 0 && (time.Now().Before(deadline) || !resent) {
		if !time.Now().Before(deadline) {
			// no answer to the barrier heartbeat: transmit it again once if the agent logged a listener drop
			resent = true

			if w.dropLogCount() > logMark && w.Agent != nil && w.Agent.Alive() {
				w.emit(map[string]interface{}{"ev": "listenerdrop", "peer": p.Name, "n": w.dropLogCount() - logMark})
				_ = p.Send(message.NewHeartbeatRequest(seq, ie.NewRecoveryTimeStamp(p.TS), nil))
				deadline = time.Now().Add(w.RespWait)

				continue
			}

			// the injected datagram was (still) a valid Association Release Request whose answer came later than the 15 ms
			// above (a loaded machine): the barrier went into the socket that the teardown then closed. The teardown is over
			// by now; the barrier is transmitted again, once.
			for _, d := range p.Peek() {
				if d.TypeNum == int(message.MsgTypeAssociationReleaseResponse) && w.Agent != nil && w.Agent.Alive() {
					if !w.WaitEventCount("conn.shutdown.done", p.LocalAddr(), before+1, 400*time.Millisecond) {
						time.Sleep(40 * time.Millisecond)
					}

					_ = p.Send(message.NewHeartbeatRequest(seq, ie.NewRecoveryTimeStamp(p.TS), nil))
					deadline = time.Now().Add(w.RespWait)

					break
				}
			}

			continue
		}

		for i, d := range p.Peek() {
			if d.TypeNum == int(message.MsgTypeHeartbeatResponse) && d.Seq == seq {
				barrier = i
			}
		}

		if barrier < 0 {
			if w.Agent != nil && !w.Agent.Alive() {
				break
			}

			time.Sleep(300 * time.Microsecond)
		}
	}

	w.settle(p, true, 2*time.Millisecond)

	all := p.Drain()

	var ds, hb []pfcpx.Dgram

	for i, d := range all {
		if barrier >= 0 && i >= barrier {
			hb = append(hb, d)
		} else {
			ds = append(ds, d)
		}
	}

	proj := func(xs []pfcpx.Dgram) []map[string]interface{} {
		out := []map[string]interface{}{}
		for _, d := range xs {
			out = append(out, w.respJSON(d))
		}

		return out
	}

	toks := w.newToks()
	t := w.Bess.Snapshot()
	dp := w.dpJSON()
	w.collectMarkers(time.Time{})
	w.emit(map[string]interface{}{"ev": "inject", "peer": p.Name, "what": what, "len": len(raw), "resps": proj(ds), "newToks": toks, "dp": dp, "cmds": t.Writes, "errs": t.Errs})
	w.emit(map[string]interface{}{"ev": "req", "kind": "hb", "peer": p.Name, "req": map[string]interface{}{"seq": pfcpx.V32(uint64(seq))}, "resps": proj(hb),
		"dp": dp, "cmds": t.Writes, "errs": t.Errs, "markers": []interface{}{}})
	w.Steps += 2
	w.CheckAlive()

	return ds
}

// Cleanup releases the association of a peer after an injection; nothing is asserted about it.
func (w *World) Cleanup(peer string) {
	p := w.Peer(peer)
	p.Drain()

	before := w.EventCount("conn.shutdown.done", p.LocalAddr())
	_ = p.Send(message.NewAssociationReleaseRequest(p.NextSeq(), ie.NewNodeID(p.NodeID, "", "")))

	// (a generous limit: on a loaded machine the answer has been seen to take longer than 300 ms, and a late answer would be
	// attributed to the next step)
	if p.WaitN(1, 2*time.Second) {
		if !w.WaitEventCount("conn.shutdown.done", p.LocalAddr(), before+1, 400*time.Millisecond) {
			time.Sleep(40 * time.Millisecond)
		}
	}

	w.settle(p, true, 2*time.Millisecond)
	p.Drain()

	toks := w.newToks()
	t := w.Bess.Snapshot()
	w.collectMarkers(time.Time{})
	w.emit(map[string]interface{}{"ev": "cleanup", "peer": p.Name, "newToks": toks, "dp": w.dpJSON(), "cmds": t.Writes, "errs": t.Errs})
	w.CheckAlive()
}

// Retrans records one agent-originated request as the scripted peer saw it (C12).
func (w *World) Retrans(peer, kind string, seq uint32, txMs []int, mode string, k int, dead bool, n, tMs int) {
	if txMs == nil {
		txMs = []int{}
	}

	// slow: the scripted peer's own answer left later than half a time-out after the request had arrived (this process
	// was not scheduled in time): whether the agent stopped on that answer cannot be judged
	lat := w.Peer(peer).AnswerLatency(seq)
	slow := lat > time.Duration(tMs)*time.Millisecond/2

	w.emit(map[string]interface{}{"ev": "retrans", "peer": peer, "kind": kind, "seq": pfcpx.V32(uint64(seq)), "tx": txMs, "mode": mode, "k": k, "dead": dead, "n": n, "tMs": tMs,
		"slow": slow, "latUs": int(lat / time.Microsecond)})
	w.Steps++
}

// Postpone records the heartbeat-postponement observation (C12): times in ms since the start of the world.
func (w *World) Postpone(peer string, prevAgentHb, peerHb, nextAgentHb, intervalMs int) {
	w.emit(map[string]interface{}{"ev": "postpone", "peer": peer, "prevAgentHb": prevAgentHb, "peerHb": peerHb, "nextAgentHb": nextAgentHb, "intervalMs": intervalMs})
	w.Steps++
}

// Ms converts a time to milliseconds since the start of the world.
func (w *World) Ms(t time.Time) int { return int(t.Sub(w.t0) / time.Millisecond) }

// PeerAt creates the scripted peer with a fixed local address (UPF-initiated association dials <ip>:8805).
func (w *World) PeerAt(name, local string) (*pfcpx.Peer, error) {
	host, _, _ := net.SplitHostPort(local)

	p, err := pfcpx.NewPeer(name, local, w.Cfg.N4Addr+":8805", host)
	if err != nil {
		return nil, err
	}

	w.Peers[name] = p

	return p, nil
}

// StopAgent sends SIGTERM (the agent's Stop path), waits for the process to end and records the "stop" event (C10).
func (w *World) StopAgent(limit time.Duration) bool {
	errsBefore := w.Bess.Snapshot().Errs
	start := time.Now()
	w.Agent.Term()

	return w.FinishStop(start, errsBefore, limit)
}

// FinishStop waits for the process to end after a stop signal and records the "stop" event.
func (w *World) FinishStop(start time.Time, errsBefore int, limit time.Duration) bool {
	exited := w.Agent.WaitExit(limit + 3*time.Second)
	ms := int(time.Since(start) / time.Millisecond)

	w.Bess.WaitIdle(5*time.Millisecond, time.Second)

	head := "-"
	exit := 0

	if exited {
		exit = w.Agent.ExitCode()
		if h, _ := panicSite(w.Agent.Stderr()); h != "" {
			head = h
		}

		if exit < 0 {
			exit = 255
		}

		if exit == 66 && len(RaceReports(w.Agent.Stderr())) > 0 {
			exit = 0 // the race detector's exit status: the reports themselves are recorded as "race" lines
		}
	} else {
		// hung: kill (the goroutine dump of a SIGQUIT would be the next thing to look at by hand)
		w.Agent.Kill()
	}

	t := w.Bess.Snapshot()
	w.emit(map[string]interface{}{"ev": "stop", "exited": exited, "exit": exit, "panic": head, "ms": ms, "limitMs": int(limit / time.Millisecond),
		"errs": t.Errs, "errsBefore": errsBefore, "dp": w.dpJSON(), "cmds": t.Writes})
	w.Steps++
	w.Died = true // no further steps on this incarnation

	return exited
}

// ReleaseParked lets every goroutine go that has reported itself parked at a gate so far (a GO for a goroutine
// that has been released already is ignored by the agent).
func (w *World) ReleaseParked() {
	w.evMu.Lock()
	var seqs []int
	for _, e := range w.evLog {
		if e.Gated {
			seqs = append(seqs, e.Seq)
		}
	}
	w.evMu.Unlock()

	if w.Agent == nil || !w.Agent.Alive() {
		return
	}

	for _, s := range seqs {
		_ = w.Agent.Go(s)
	}
}

// WaitParked waits for a goroutine parked at the named gate (argument prefix) and returns its event number (0 on time-out).
func (w *World) WaitParked(name, argPrefix string, nth int, timeout time.Duration) int {
	deadline := time.Now().Add(timeout)

	for time.Now().Before(deadline) {
		w.evMu.Lock()
		n := 0
		for _, e := range w.evLog {
			if e.Gated && e.Name == name && strings.HasPrefix(e.Args, argPrefix) {
				n++
				if n == nth {
					w.evMu.Unlock()
					return e.Seq
				}
			}
		}
		w.evMu.Unlock()

		if w.Agent == nil || !w.Agent.Alive() {
			return 0
		}

		time.Sleep(500 * time.Microsecond)
	}

	return 0
}
func (w *World) teardownWait() time.Duration {
	if w.TeardownWait > 0 {
		return w.TeardownWait
	}

	return 400 * time.Millisecond
}

// dropLogCount counts the agent's log lines that say it dropped a datagram at its listening socket.
func (w *World) dropLogCount() int {
	if w.Agent == nil {
		return 0
	}

	return strings.Count(w.Agent.Stderr(), "drop packet for existing PFCPconn")
}

// ---------------------------------------------------------------------------------------------
// concurrent phases (C11): requests of different peers are in flight at the same time

type concLine struct {
	ev map[string]interface{}
	at time.Time
}

type concRec struct {
	mu    sync.Mutex
	lines []concLine
}

// concExchange is exchange() during a concurrent phase: one request, its answers, no datapath observation (the
// datapath is observed once, at the end of the phase).
func (w *World) concExchange(p *pfcpx.Peer, kind string, req map[string]interface{}, raw []byte, expectResp bool) []pfcpx.Dgram {
	p.Drain()

	logMark := w.dropLogCount()
	_ = p.SendRaw(raw)

	var ds []pfcpx.Dgram

	if expectResp {
		got := p.WaitN(1, w.RespWait)
		if !got && w.dropLogCount() > logMark && w.Agent != nil && w.Agent.Alive() {
			_ = p.SendRaw(raw) // listed known finding F-LISTENER-DROP: the peer transmits again
			w.conc.mu.Lock()
			w.conc.lines = append(w.conc.lines, concLine{ev: map[string]interface{}{"ev": "listenerdrop", "peer": p.Name, "n": 1}, at: time.Now()})
			w.conc.mu.Unlock()

			p.WaitN(1, w.RespWait)
		}

		time.Sleep(300 * time.Microsecond) // a superfluous second answer would follow at once
		ds = p.Drain()
	}

	at := time.Now()
	resps := []map[string]interface{}{}

	for _, d := range ds {
		resps = append(resps, w.respJSON(d))
	}

	ev := map[string]interface{}{"ev": "req", "kind": kind, "peer": p.Name, "req": req, "resps": resps, "markers": []interface{}{}, "burst": true}

	w.conc.mu.Lock()
	w.conc.lines = append(w.conc.lines, concLine{ev: ev, at: at})
	w.Steps++

	if (kind == "estab" || kind == "mod" || kind == "del") && len(ds) >= 1 && ds[0].Cause == 1 {
		w.Accepted++
	}
	w.conc.mu.Unlock()

	return ds
}

// Concurrently runs the given functions side by side (each drives its own peers through the usual step methods) and
// then records their steps, in the order in which the answers arrived, with the datapath as it is once all of them
// have finished and the datapath is quiet: the image is judged at the last line (burst = false), see TraceE2E.
func (w *World) Concurrently(fns []func()) {
	w.conc = &concRec{}

	var wg sync.WaitGroup

	for _, fn := range fns {
		wg.Add(1)

		go func(fn func()) {
			defer wg.Done()
			fn()
		}(fn)
	}

	wg.Wait()

	rec := w.conc
	w.conc = nil

	w.dpIdle(10*time.Millisecond, 3*time.Second)
	time.Sleep(10 * time.Millisecond)

	sort.SliceStable(rec.lines, func(i, j int) bool { return rec.lines[i].at.Before(rec.lines[j].at) })

	lastReq := -1

	for i, ln := range rec.lines {
		if ln.ev["ev"] == "req" {
			lastReq = i
		}
	}

	obs := map[string]interface{}{}
	w.dpObs(obs)

	var snap map[string]interface{}
	if w.SnapEvery {
		snap = w.snapJSON()
	}

	for i, ln := range rec.lines {
		if ln.ev["ev"] == "req" {
			for k, v := range obs {
				if k == "writes" && i != lastReq {
					continue // the update log is attached once
				}

				ln.ev[k] = v
			}

			if _, ok := ln.ev["writes"]; !ok && w.P4 != nil {
				ln.ev["writes"] = []interface{}{}
			}

			ln.ev["burst"] = i != lastReq

			if snap != nil {
				ln.ev["snap"] = snap
			}
		}

		w.emit(ln.ev)
	}

	w.CheckAlive()
}

// armKill makes the datapath server kill the agent at the k-th command / Write RPC from now.
func (w *World) armKill(k int) {
	w.killHit = false
	a := w.Agent

	if w.P4 != nil {
		base := w.P4.RpcCount()
		w.P4.SetFault(func(rpc, idx, n int, u *p4.Update) fakep4.Fault {
			if idx == -1 && rpc-base == k && !w.killHit {
				w.killHit = true
				a.Kill()

				return fakep4.Fault{Code: codes.Unavailable, RPC: true}
			}

			return fakep4.Fault{}
		})

		return
	}

	var mu sync.Mutex

	cnt := 0
	w.Bess.FaultFn = func(seq int, module, cmd string) fakebess.Fault {
		mu.Lock()
		cnt++
		hit := cnt == k && !w.killHit

		if hit {
			w.killHit = true
		}
		mu.Unlock()

		if hit {
			a.Kill()
			return fakebess.Fault{Fail: "killed"}
		}

		return fakebess.Fault{}
	}
}

func (w *World) disarmKill() {
	w.KillAtWrite = 0

	if w.P4 != nil {
		w.P4.SetFault(nil)
		return
	}

	w.Bess.FaultFn = nil
}

package e2e

import (
	"fmt"
	"math/rand"

	"verif/harness/internal/pfcpx"
)

// Randomised histories inside the generators' envelope (DESIGN A.1): complete rule contents in
// Update IEs, ids at most once per rule kind per message, CHOOSE only in establishments, UE side of
// flow descriptions "assigned", ports only on the remote side and representable.

type bearer struct {
	ulPDR, dlPDR uint16
	ulFAR, dlFAR uint32
	appQER       uint32 // 0 = none
	ul, dl       pfcpx.PDR
	fu, fd       pfcpx.FAR
	q            pfcpx.QER
}

type gsession struct {
	peer    string
	cp      uint64
	up      uint64
	ueip    uint32
	alloc   bool
	bearers []*bearer
	sessQER uint32 // 0 = none
	sq      pfcpx.QER
	nextPDR uint16
	live    bool
	teids   map[uint16]uint32 // F-TEIDs the UP function chose, by PDR ID (from the Created PDR elements)
	noDl    bool              // the downlink PDRs and FARs have been removed: the session is only deleted from here on
}

// Gen is the online generator: it needs the agent's answers (UP SEIDs) to continue.
type Gen struct {
	W        *World
	R        *rand.Rand
	sessions []*gsession
	assoc    map[string]bool
	ueCtr    uint32
	teidCtr  uint32
	idCtr    uint32
	cpCtr    uint64
	Opt      GenOpt
	Stats    map[string]int
}

type GenOpt struct {
	Peers       int
	MaxSessions int
	UEAlloc     bool // the agent was started with UE IP allocation
	EndMarker   bool
	Rejects     bool // include requests that must be rejected (unknown session, no association)
	Apps        bool // provision PFDs and reference application ids
	FarBias     bool // most modifications are FAR updates (C14)
	PeerBase    int  // the generator's peers are p<PeerBase+1>.. (C11: one generator per concurrent association)
	SessionOnly bool // only establishments, modifications and deletions (concurrent streams)
}

func NewGen(w *World, seed int64, opt GenOpt) *Gen {
	g := &Gen{W: w, R: rand.New(rand.NewSource(seed)), assoc: map[string]bool{}, Opt: opt, Stats: map[string]int{}}
	g.ueCtr = 0x0A000000 + uint32(g.R.Intn(1<<20))<<4
	g.teidCtr = uint32(g.R.Uint32()) | 1
	g.idCtr = uint32(g.R.Intn(1 << 30))
	g.cpCtr = g.R.Uint64()

	return g
}

// MarkAssoc tells the generator that the peer is associated already.
func (g *Gen) MarkAssoc(peer string) { g.assoc[peer] = true }

func (g *Gen) peerName(i int) string { return fmt.Sprintf("p%d", g.Opt.PeerBase+i+1) }

var boundary32 = []uint32{1, 2, 0x7fff, 0x8000, 0xffff, 0x10000, 0x7fffffff, 0x80000000, 0xfffffffe, 0xffffffff}

func (g *Gen) id32() uint32 {
	if g.R.Intn(6) == 0 {
		return boundary32[g.R.Intn(len(boundary32))]
	}

	g.idCtr += 1 + uint32(g.R.Intn(1000))

	return g.idCtr
}

func (g *Gen) freshID(used map[uint32]bool) uint32 {
	for {
		v := g.id32()
		if v != 0 && !used[v] {
			used[v] = true
			return v
		}
	}
}

func (g *Gen) teid() uint32 {
	g.teidCtr += 1 + uint32(g.R.Intn(1<<16))
	if g.teidCtr == 0 {
		g.teidCtr = 7
	}

	return g.teidCtr
}

func (g *Gen) cpSeid() uint64 {
	switch g.R.Intn(8) {
	case 0:
		return 0xFFFFFFFFFFFFFFFF - uint64(g.R.Intn(4))
	case 1:
		return 1 + uint64(g.R.Intn(4))
	}

	g.cpCtr += 1 + uint64(g.R.Intn(1<<20))

	return g.cpCtr
}

func (g *Gen) rate() uint64 {
	switch g.R.Intn(8) {
	case 0:
		return 1
	case 1:
		return 7
	case 2:
		return 8
	case 3:
		return (1 << 40) - 1 - uint64(g.R.Intn(3))
	case 4:
		return uint64(g.R.Intn(1 << 20))
	}

	return 1 + uint64(g.R.Int63n(1<<32))
}

// flow returns a random SDF filter; with must set it is never nil and always names a remote
// network of at least 8 bits (so that the PDRs of one session have distinct match keys).
func (g *Gen) flow(must bool) *pfcpx.Flow {
	if !must && g.R.Intn(3) == 0 {
		return nil
	}

	f := &pfcpx.Flow{Action: "permit", Dir: "out", Proto: []string{"ip", "tcp", "udp", "number"}[g.R.Intn(4)], ProtoN: 1 + g.R.Intn(250)}
	f.Dst = pfcpx.FlowEP{Kind: "assigned", Ports: "none"}

	switch {
	case !must && g.R.Intn(3) == 0:
		f.Src = pfcpx.FlowEP{Kind: "any", Ports: "none"}
	case !must:
		ln := []int{0, 1, 8, 15, 16, 17, 24, 31, 32}[g.R.Intn(9)]
		f.Src = pfcpx.FlowEP{Kind: "net", IP: g.R.Uint32(), Len: ln, Ports: "none", Bare: false}
	default:
		ln := []int{8, 15, 16, 17, 24, 31, 32}[g.R.Intn(7)]
		f.Src = pfcpx.FlowEP{Kind: "net", IP: g.R.Uint32(), Len: ln, Ports: "none", Bare: ln == 32 && g.R.Intn(2) == 0}
	}

	switch g.R.Intn(4) {
	case 0:
		f.Src.Ports, f.Src.Lo = "one", 1+g.R.Intn(65535)
	case 1:
		lo := 1 + g.R.Intn(65000)
		f.Src.Ports, f.Src.Lo, f.Src.Hi = "range", lo, lo+1+g.R.Intn(12)
	}

	return f
}

func (g *Gen) prec() uint32 {
	if g.R.Intn(5) == 0 {
		return []uint32{0, 1, 255, 65535, 65536, 0x7fffffff, 0x80000000, 0xffffffff}[g.R.Intn(8)]
	}

	return uint32(g.R.Intn(1 << 16))
}

func (g *Gen) qer(id uint32, gbr bool) pfcpx.QER {
	q := pfcpx.QER{ID: id, QFI: uint8(g.R.Intn(64)), ULMBR: g.rate(), DLMBR: g.rate()}
	if g.R.Intn(6) == 0 {
		q.ULGate = 1
	}

	if g.R.Intn(6) == 0 {
		q.DLGate = 1
	}

	if gbr {
		if q.ULMBR == 0 {
			q.ULMBR = 1
		}

		if q.DLMBR == 0 {
			q.DLMBR = 1
		}

		q.ULGBR = 1 + uint64(g.R.Int63n(int64(q.ULMBR)))
		q.DLGBR = 1 + uint64(g.R.Int63n(int64(q.DLMBR)))

		// a guaranteed rate in one direction only: the other direction carries no rate at all (unmetered)
		switch g.R.Intn(8) {
		case 0:
			q.DLMBR, q.DLGBR = 0, 0
		case 1:
			q.ULMBR, q.ULGBR = 0, 0
		}
	} else {
		q.NoGBR = g.R.Intn(2) == 0

		// rates present in one direction only, or in none (unmetered)
		switch g.R.Intn(8) {
		case 0:
			q.ULMBR = 0
		case 1:
			q.DLMBR = 0
		case 2:
			q.ULMBR, q.DLMBR = 0, 0
		}
	}

	return q
}

func (g *Gen) newBearer(s *gsession, usedFar, usedQer map[uint32]bool, inMod bool) *bearer {
	b := &bearer{}
	b.ulPDR, b.dlPDR = s.nextPDR, s.nextPDR+1
	s.nextPDR += 2
	b.ulFAR, b.dlFAR = g.freshID(usedFar), g.freshID(usedFar)

	fl := g.flow(len(s.bearers) > 0)
	app := ""

	var qers []uint32

	if g.R.Intn(4) > 0 {
		b.appQER = g.freshID(usedQer)
		b.q = g.qer(b.appQER, true) // application QERs are GBR QERs: never candidates for the session level
		qers = append(qers, b.appQER)
	}

	if s.sessQER != 0 {
		if g.R.Intn(2) == 0 {
			qers = append(qers, s.sessQER)
		} else {
			qers = append([]uint32{s.sessQER}, qers...)
		}
	}

	ue := "explicit"
	if s.alloc {
		ue = "alloc"
	}

	b.ul = pfcpx.PDR{ID: b.ulPDR, Prec: g.prec(), Src: "access", UE: ue, UEIP: s.ueip, SDF: fl, AppID: app, OHR: true, FAR: b.ulFAR, QERs: qers}
	if !inMod && g.R.Intn(2) == 0 {
		b.ul.FTEID = "choose"
	} else {
		b.ul.FTEID, b.ul.TunIP, b.ul.TEID = "explicit", g.W.AccessIP, g.teid()
	}

	b.dl = pfcpx.PDR{ID: b.dlPDR, Prec: g.prec(), Src: "core", FTEID: "none", UE: ue, UEIP: s.ueip, SDF: fl, AppID: app, FAR: b.dlFAR, QERs: qers}
	if !inMod && g.R.Intn(10) == 0 {
		// downlink traffic that arrives over a core-side tunnel (N9): the UP function chooses that F-TEID too, and may have
		// to choose the UE address for the same PDR
		b.dl.FTEID, b.dl.OHR = "choose", true
	}

	b.fu = pfcpx.FAR{ID: b.ulFAR, Action: 2, HasFP: true, Dst: "core"}

	switch g.R.Intn(3) {
	case 0:
		b.fd = pfcpx.FAR{ID: b.dlFAR, Action: 2, HasFP: true, Dst: "access", OHC: true, PeerIP: 0xC0A80000 + uint32(g.R.Intn(4)), TEID: g.teid()}
	case 1:
		b.fd = pfcpx.FAR{ID: b.dlFAR, Action: 0x0c, HasFP: false} // BUFF|NOCP
	default:
		b.fd = pfcpx.FAR{ID: b.dlFAR, Action: 1, HasFP: false} // DROP
	}

	return b
}

func (s *gsession) usedFars() map[uint32]bool {
	m := map[uint32]bool{}
	for _, b := range s.bearers {
		m[b.ulFAR], m[b.dlFAR] = true, true
	}

	return m
}

func (s *gsession) usedQers() map[uint32]bool {
	m := map[uint32]bool{}
	if s.sessQER != 0 {
		m[s.sessQER] = true
	}

	for _, b := range s.bearers {
		if b.appQER != 0 {
			m[b.appQER] = true
		}
	}

	return m
}

func (g *Gen) liveSessions() []*gsession {
	var out []*gsession
	for _, s := range g.sessions {
		if s.live {
			out = append(out, s)
		}
	}

	return out
}

// Step performs one random step. Returns false if the agent died.
func (g *Gen) Step() bool {
	w := g.W
	if w.Died {
		return false
	}

	peer := g.peerName(g.R.Intn(g.Opt.Peers))
	live := g.liveSessions()

	if g.R.Intn(25) == 0 && !g.Opt.SessionOnly { // sequence-number boundaries: 2^24-1, then the wrap to 0 and 1
		w.Peer(peer).SetSeq([]uint32{0xFFFFFD, 0xFFFFFE, 0x7FFFFF, 0}[g.R.Intn(4)])
	}

	if !g.assoc[peer] {
		if g.Opt.Rejects && g.R.Intn(4) == 0 {
			// establishment without association: must be rejected and write nothing
			s := g.mkSession(peer)
			w.Estab(peer, g.estabReq(s))
			g.Stats["estab_noassoc"]++

			return !w.Died
		}

		ds := w.Assoc(peer)
		if len(ds) == 1 && ds[0].Cause == 1 {
			g.assoc[peer] = true
		}

		g.Stats["assoc"]++

		return !w.Died
	}

	choice := g.R.Intn(100)
	if g.Opt.SessionOnly {
		choice = g.R.Intn(76)
		if len(live) == 0 {
			choice = 0
		}
	}

	switch {
	case choice < 22 && len(live) < g.Opt.MaxSessions:
		s := g.mkSession(peer)
		ds := w.Estab(peer, g.estabReq(s))

		if len(ds) >= 1 && ds[0].Cause == 1 && ds[0].HasFSEID {
			s.up = ds[0].UPSeid
			s.live = true

			for _, c := range ds[0].Created {
				if c.HasUE {
					s.ueip = c.UEIP
				}

				if c.HasTEID {
					if s.teids == nil {
						s.teids = map[uint16]uint32{}
					}

					s.teids[c.PDR] = c.TEID
				}
			}

			g.sessions = append(g.sessions, s)
		}

		g.Stats["estab"]++
	case choice < 62 && len(live) > 0:
		s := live[g.R.Intn(len(live))]
		g.modify(s)
	case choice < 76 && len(live) > 0:
		s := live[g.R.Intn(len(live))]
		ds := w.Del(s.peer, &SessReq{Hdr: s.up})

		if len(ds) >= 1 && ds[0].Cause == 1 {
			s.live = false
		}

		g.Stats["del"]++
	case choice < 80:
		w.Heartbeat(peer)
		g.Stats["hb"]++
	case choice < 84:
		w.InjectResp(peer, g.R.Intn(8), g.R.Uint64())
		g.Stats["injectResp"]++
	case choice < 90 && g.Opt.Rejects:
		// unknown session: random SEID, or a live session of another peer
		hdr := g.R.Uint64() | 1

		if len(live) > 0 && g.R.Intn(2) == 0 {
			s := live[g.R.Intn(len(live))]
			if s.peer != peer {
				hdr = s.up
			}
		}

		if g.R.Intn(2) == 0 {
			w.Del(peer, &SessReq{Hdr: hdr})
		} else {
			w.Mod(peer, &SessReq{Hdr: hdr, UFAR: []pfcpx.FAR{{ID: 1, Action: 1, HasFP: true, Dst: "core"}}})
		}

		g.Stats["unknown_session"]++
	case choice < 93:
		// association release: every session of the peer ends
		ds := w.Release(peer)
		if len(ds) >= 1 {
			g.assoc[peer] = false

			for _, s := range g.sessions {
				if s.peer == peer {
					s.live = false
				}
			}
		}

		g.Stats["release"]++
	case choice < 95 && g.Opt.Rejects:
		// establishment with a node id that has no association
		s := g.mkSession(peer)
		r := g.estabReq(s)
		r.NodeID = "10.99.9.9"
		w.Estab(peer, r)
		g.Stats["estab_wrongnode"]++
	default:
		w.Assoc(peer) // re-association on a live association keeps the sessions
		g.Stats["reassoc"]++
	}

	return !w.Died
}

func (g *Gen) mkSession(peer string) *gsession {
	s := &gsession{peer: peer, cp: g.cpSeid(), nextPDR: uint16(1 + g.R.Intn(3))}
	if g.R.Intn(8) == 0 {
		s.nextPDR = 65530
	}

	if g.Opt.UEAlloc && g.R.Intn(2) == 0 {
		s.alloc = true
	} else {
		g.ueCtr += 1 + uint32(g.R.Intn(9))
		s.ueip = g.ueCtr
	}

	usedFar, usedQer := map[uint32]bool{}, map[uint32]bool{}

	if g.R.Intn(3) > 0 {
		s.sessQER = g.freshID(usedQer)
		s.sq = g.qer(s.sessQER, false)
	}

	n := 1 + g.R.Intn(2)
	if g.R.Intn(12) == 0 {
		n = 5 + g.R.Intn(4) // a large session: more rules of each kind than the agent's lists are created with room for (10)
	}

	for i := 0; i < n; i++ {
		s.bearers = append(s.bearers, g.newBearer(s, usedFar, usedQer, false))
	}

	return s
}

func (g *Gen) estabReq(s *gsession) *SessReq {
	r := &SessReq{CP: s.cp}
	for _, b := range s.bearers {
		r.CPDR = append(r.CPDR, b.ul, b.dl)
		r.CFAR = append(r.CFAR, b.fu, b.fd)

		if b.appQER != 0 {
			r.CQER = append(r.CQER, b.q)
		}
	}

	if s.sessQER != 0 {
		if g.R.Intn(2) == 0 {
			r.CQER = append(r.CQER, s.sq)
		} else {
			r.CQER = append([]pfcpx.QER{s.sq}, r.CQER...)
		}
	}

	g.R.Shuffle(len(r.CPDR), func(i, j int) { r.CPDR[i], r.CPDR[j] = r.CPDR[j], r.CPDR[i] })

	return r
}

// modify sends one modification inside the envelope.
func (g *Gen) modify(s *gsession) { g.modifyKind(s, -1) }

// Scripted use (GEN): establish a session on a peer / modify it in a given way / delete it.
type GSession = gsession

// EstablishOn establishes a new session on the peer and returns it (nil if refused).
func (g *Gen) EstablishOn(peer string) *GSession {
	s := g.mkSession(peer)
	ds := g.W.Estab(peer, g.estabReq(s))

	if len(ds) >= 1 && ds[0].Cause == 1 && ds[0].HasFSEID {
		s.up, s.live = ds[0].UPSeid, true

		for _, c := range ds[0].Created {
			if c.HasUE {
				s.ueip = c.UEIP
			}

			if c.HasTEID {
				if s.teids == nil {
					s.teids = map[uint16]uint32{}
				}

				s.teids[c.PDR] = c.TEID
			}
		}

		g.sessions = append(g.sessions, s)

		return s
	}

	return nil
}

// ModifyKind sends the modification of the given kind (6 refused half way, 7 without any rule, 8 every rule removed): 0 Update FAR (handover), 1 Update QER, 2 Update PDR,
// 3 new bearer, 4 bearer removed, 5 new CP F-SEID.
func (g *Gen) ModifyKind(s *GSession, kind int) { g.modifyKind(s, kind) }

// DeleteSession deletes the session.
func (g *Gen) DeleteSession(s *GSession) {
	if ds := g.W.Del(s.peer, &SessReq{Hdr: s.up}); len(ds) >= 1 && ds[0].Cause == 1 {
		s.live = false
	}
}

// IsLive tells whether the generator believes the session live.
func (s *gsession) IsLive() bool { return s != nil && s.live }

// Reseed restarts the random stream (requests after the same reseed have the same shape).
func (g *Gen) Reseed(seed int64) { g.R = rand.New(rand.NewSource(seed)) }

// Forget marks every session and association of the generator as gone (the agent was restarted / the association released).
func (g *Gen) Forget(peer string) {
	for _, s := range g.sessions {
		if peer == "" || s.peer == peer {
			s.live = false
		}
	}

	for p := range g.assoc {
		if peer == "" || p == peer {
			g.assoc[p] = false
		}
	}
}

func (g *Gen) modifyKind(s *gsession, forced int) {
	w := g.W
	r := &SessReq{Hdr: s.up}

	// in a modification the session's address is known and sent explicitly unless it was UP-allocated
	kind := g.R.Intn(6)
	if g.Opt.FarBias && g.R.Intn(4) > 0 {
		kind = 0
	}

	if forced >= 0 {
		kind = forced
	}

	if s.noDl {
		w.Heartbeat(s.peer)
		return
	}

	if len(s.bearers) == 0 {
		kind = 3

		// a session without any rule is still a session: it can be modified without creating anything
		if (forced < 0 && g.R.Intn(2) == 0) || forced == 5 || forced == 7 {
			if (forced < 0 && g.R.Intn(2) == 0) || forced == 5 {
				s.cp = g.cpSeid()
				r.NewCP = s.cp
			}

			g.Stats["mod_on_empty"]++
			w.Mod(s.peer, r)

			return
		}
	}

	// now and then the downlink half of the session goes (with it the PDRs an address of the pool was allocated for)
	if forced < 0 && len(s.bearers) > 0 && g.R.Intn(30) == 0 {
		for _, b := range s.bearers {
			r.RPDR = append(r.RPDR, b.dlPDR)
			r.RFAR = append(r.RFAR, b.dlFAR)
		}

		s.noDl = true
		g.Stats["mod_rmdl"]++
		w.Mod(s.peer, r)

		return
	}

	// a modification that is refused half way: rules of the session are updated / removed in the same message before an
	// unknown rule id makes the agent refuse it - nothing of it may stay (neither in the datapath nor in what later requests
	// and the session's end are based on)
	if (forced == 6 || (forced < 0 && g.Opt.Rejects && g.R.Intn(9) == 0)) && len(s.bearers) > 0 {
		b := s.bearers[g.R.Intn(len(s.bearers))]

		switch k := g.R.Intn(4); {
		case k == 0:
			r.RPDR, r.RFAR = []uint16{b.ulPDR}, []uint32{0x7F000001}
		case k == 1:
			r.RFAR, r.RQER = []uint32{b.dlFAR}, []uint32{0x7F000002}
		case k == 2 || b.appQER == 0:
			np := b.dl
			if np.Prec < 0xFFFFFFF0 {
				np.Prec++
			}

			r.UPDR, r.RPDR = []pfcpx.PDR{np}, []uint16{0xFFEF}
		default:
			nq := b.q
			nq.ULMBR++
			r.UQER, r.RQER = []pfcpx.QER{nq}, []uint32{0x7F000003}
		}

		g.Stats["mod_rejected_midway"]++
		w.Mod(s.peer, r)

		return
	}

	if forced == 7 { // a modification that carries no rule at all
		g.Stats["mod_empty"]++
		w.Mod(s.peer, r)

		return
	}

	if forced == 8 { // every rule of the session is removed (the session stays)
		for _, b := range s.bearers {
			r.RPDR = append(r.RPDR, b.ulPDR, b.dlPDR)
			r.RFAR = append(r.RFAR, b.ulFAR, b.dlFAR)

			if b.appQER != 0 {
				r.RQER = append(r.RQER, b.appQER)
			}
		}

		if s.sessQER != 0 {
			r.RQER = append(r.RQER, s.sessQER)
			s.sessQER = 0
		}

		s.bearers = nil
		g.Stats["mod_rmall"]++
		w.Mod(s.peer, r)

		return
	}

	var removed *bearer

	bare := false
	if kind == 9 { // (forced) a handover whose Update Forwarding Parameters carry the new Outer Header Creation alone
		kind, bare = 0, true
	}

	switch kind {
	case 0: // handover: the downlink FAR forwards to a (new) gNB, optionally asking for an end marker
		b := s.bearers[g.R.Intn(len(s.bearers))]
		if bare {
			b = s.bearers[0]
		}

		nf := pfcpx.FAR{ID: b.dlFAR, Action: 2, HasFP: true, Dst: "access", OHC: true, PeerIP: 0xC0A80000 + uint32(g.R.Intn(4)), TEID: g.teid()}
		if g.R.Intn(4) == 0 || bare {
			nf.Dst = "none" // the Destination Interface is sent only "if changed": the new Outer Header Creation alone
		}

		if g.Opt.EndMarker && g.R.Intn(2) == 0 {
			nf.SNDEM = true
		}

		if g.R.Intn(5) == 0 && !bare { // ... or the rule starts dropping / buffering instead
			nf = pfcpx.FAR{ID: b.dlFAR, Action: []uint8{1, 0x0c, 4}[g.R.Intn(3)], HasFP: true, Dst: "access", SNDEM: nf.SNDEM}
		}

		if g.R.Intn(3) == 0 { // the flags octet carries other bits as well (DROBU, QAURR, spare)
			nf.SMReq, nf.SMReqOther = true, []uint8{0x01, 0x04, 0x05, 0x80, 0x85}[g.R.Intn(5)]
		}

		b.fd = nf
		r.UFAR = append(r.UFAR, nf)

		if g.R.Intn(3) == 0 && len(s.bearers) > 1 {
			b2 := s.bearers[(g.R.Intn(len(s.bearers)))]
			if b2 != b {
				nf2 := pfcpx.FAR{ID: b2.dlFAR, Action: 0x0c, HasFP: true, Dst: "access"}
				b2.fd = nf2
				r.UFAR = append(r.UFAR, nf2)
			}
		}

		if g.R.Intn(4) == 0 { // an Update FAR for an id the session does not have is skipped and emits nothing
			r.UFAR = append(r.UFAR, pfcpx.FAR{ID: 0x7E000000 + uint32(g.R.Intn(1000)), Action: 2, HasFP: true, Dst: "access", OHC: true,
				PeerIP: 0xC0A80009, TEID: g.teid(), SNDEM: g.Opt.EndMarker})
		}

		if g.Opt.EndMarker && g.R.Intn(4) == 0 { // the uplink FAR is updated with the flag as well (its old tunnel is "none")
			nu := b.fu
			nu.SNDEM = true
			r.UFAR = append(r.UFAR, nu)
		}

		g.Stats["mod_ufar"]++
	case 1: // rate change of the application QER (stays a GBR QER) and / or the session QER (stays non-GBR)
		b := s.bearers[g.R.Intn(len(s.bearers))]
		if b.appQER != 0 {
			b.q = g.qer(b.appQER, true)
			r.UQER = append(r.UQER, b.q)
		}

		if s.sessQER != 0 && (len(r.UQER) == 0 || g.R.Intn(2) == 0) {
			s.sq = g.qer(s.sessQER, false)
			r.UQER = append(r.UQER, s.sq)
		}

		if len(r.UQER) == 0 {
			nf := b.fu
			r.UFAR = append(r.UFAR, nf)
		}

		g.Stats["mod_uqer"]++
	case 2: // Update PDR that keeps the match key: precedence and decapsulation flag change
		b := s.bearers[g.R.Intn(len(s.bearers))]
		np := b.dl
		np.Prec = g.prec()

		if np.UE == "alloc" && s.ueip == 0 {
			break
		}

		if np.FTEID == "choose" {
			// a control plane repeats the F-TEID it was given in the Created PDR as an ordinary value
			t, ok := s.teids[np.ID]
			if !ok {
				break
			}

			np.FTEID, np.TunIP, np.TEID = "explicit", w.AccessIP, t
		}

		if g.R.Intn(3) == 0 && np.AppID == "" {
			// the Update PDR carries a new SDF filter: the rule matches other packets from now on (the PDI is replaced)
			np.SDF = g.flow(true)
			g.Stats["mod_updr_newfilter"]++
		}

		b.dl = np

		if g.R.Intn(4) == 0 && b.ul.FTEID == "explicit" {
			// ... and the uplink PDR moves to another tunnel (new TEID): its match key changes as well
			nu := b.ul
			nu.TEID = g.teid()
			b.ul = nu
			r.UPDR = append(r.UPDR, nu)
			g.Stats["mod_updr_newteid"]++
		}

		if np.UE == "alloc" && g.R.Intn(2) == 0 {
			// like a control plane that repeats the address it was given in the Created PDR as an ordinary value
			np.UE, np.UEIP = "explicit", s.ueip
		}

		r.UPDR = append(r.UPDR, np)
		g.Stats["mod_updr"]++
	case 3: // new bearer
		if len(s.bearers) >= 3 {
			g.Stats["mod_skip"]++
			w.Heartbeat(s.peer)

			return
		}

		b := g.newBearer(s, s.usedFars(), s.usedQers(), true)
		s.bearers = append(s.bearers, b)
		r.CPDR = append(r.CPDR, b.ul, b.dl)
		r.CFAR = append(r.CFAR, b.fu, b.fd)

		if b.appQER != 0 {
			r.CQER = append(r.CQER, b.q)
		}

		g.Stats["mod_create"]++
	case 4: // remove a bearer completely (now and then the last one, together with the session-level QER: the session is empty then)
		if len(s.bearers) < 2 && (forced >= 0 || len(s.bearers) == 0 || g.R.Intn(3) > 0) {
			w.Heartbeat(s.peer)
			return
		}

		if len(s.bearers) == 1 && s.sessQER != 0 {
			r.RQER = append(r.RQER, s.sessQER)
			s.sessQER = 0
		}

		i := g.R.Intn(len(s.bearers))
		removed = s.bearers[i]
		s.bearers = append(s.bearers[:i:i], s.bearers[i+1:]...)
		r.RPDR = append(r.RPDR, removed.ulPDR, removed.dlPDR)
		r.RFAR = append(r.RFAR, removed.ulFAR, removed.dlFAR)

		if removed.appQER != 0 {
			r.RQER = append(r.RQER, removed.appQER)
		}

		g.Stats["mod_remove"]++
	case 5: // new CP F-SEID
		s.cp = g.cpSeid()
		r.NewCP = s.cp

		if g.R.Intn(2) == 0 { // ... alone, or together with a rule update
			b := s.bearers[g.R.Intn(len(s.bearers))]
			r.UFAR = append(r.UFAR, b.fu)
		}

		g.Stats["mod_newcp"]++
	}

	if len(r.CPDR)+len(r.UPDR)+len(r.CFAR)+len(r.UFAR)+len(r.CQER)+len(r.UQER)+len(r.RPDR)+len(r.RFAR)+len(r.RQER) == 0 && r.NewCP == 0 {
		if g.R.Intn(2) == 0 {
			w.Heartbeat(s.peer)
			return
		}

		g.Stats["mod_empty"]++ // a modification that carries no rule at all
	}

	w.Mod(s.peer, r)
}

// Finish ends the scenario: every session the generator knows is deleted; associations are
// released with probability 1/2 (otherwise they stay for the next scenario on the same agent).
func (g *Gen) Finish() {
	w := g.W
	for _, s := range g.liveSessions() {
		if w.Died {
			return
		}

		ds := w.Del(s.peer, &SessReq{Hdr: s.up})
		if len(ds) >= 1 && ds[0].Cause == 1 {
			s.live = false
		}
	}

	for peer, on := range g.assoc {
		if on && !w.Died && g.R.Intn(2) == 0 {
			w.Release(peer)
		}
	}
}

// ---------------------------------------------------------------------------------------------
// QER-list shapes (C09): sessions whose PDRs carry arbitrary QER lists over three QER ids.

// Shape describes one session: QER lists per PDR (indices 0..2 into the three QERs) and, per QER,
// whether it is a GBR QER and its rank of uplink MBR.
type Shape struct {
	Lists [][]int
	GBR   [3]bool
	MBR   [3]uint64
}

// orderedSubsets of {0,1,2}: 16 lists including the empty one.
func orderedSubsets() [][]int {
	out := [][]int{{}}
	for a := 0; a < 3; a++ {
		out = append(out, []int{a})
		for b := 0; b < 3; b++ {
			if b == a {
				continue
			}

			out = append(out, []int{a, b})

			for c := 0; c < 3; c++ {
				if c != a && c != b {
					out = append(out, []int{a, b, c})
				}
			}
		}
	}

	return out
}

// ShapeCount is the size of the enumeration: (16^2 + 16^3) list assignments x 8 GBR patterns x 8 MBR patterns.
const ShapeCount = (16*16 + 16*16*16) * 64

// ShapeAt returns the k-th shape of the enumeration.
func ShapeAt(k int) Shape {
	subs := orderedSubsets()
	attr := k % 64
	k /= 64

	var lists [][]int

	if k < 256 {
		lists = [][]int{subs[k%16], subs[k/16]}
	} else {
		k -= 256
		lists = [][]int{subs[k%16], subs[(k/16)%16], subs[k/256]}
	}

	s := Shape{Lists: lists}
	for i := 0; i < 3; i++ {
		s.GBR[i] = attr&(1<<i) != 0
		s.MBR[i] = 1000

		if attr&(8<<i) != 0 {
			s.MBR[i] = 2000
		}
	}

	return s
}

// RunShape establishes a session of the given shape on an associated peer and deletes it again.
func (g *Gen) RunShape(peer string, sh Shape) {
	w := g.W
	ids := [3]uint32{g.id32(), 0, 0}

	for i := 1; i < 3; i++ {
		for {
			ids[i] = g.id32()
			if ids[i] != ids[0] && (i < 2 || ids[i] != ids[1]) {
				break
			}
		}
	}

	g.ueCtr += 3
	r := &SessReq{CP: g.cpSeid()}
	r.CFAR = append(r.CFAR, pfcpx.FAR{ID: 7, Action: 2, HasFP: true, Dst: "core"})

	for i, l := range sh.Lists {
		var qs []uint32
		for _, x := range l {
			qs = append(qs, ids[x])
		}

		r.CPDR = append(r.CPDR, pfcpx.PDR{ID: uint16(i + 1), Prec: uint32(100 + i), Src: "access", FTEID: "explicit", TunIP: w.AccessIP, TEID: g.teid(),
			UE: "explicit", UEIP: g.ueCtr, OHR: true, FAR: 7, QERs: qs})
	}

	for i := 0; i < 3; i++ {
		q := pfcpx.QER{ID: ids[i], QFI: uint8(1 + i), ULMBR: sh.MBR[i], DLMBR: sh.MBR[i] + 500}
		if sh.GBR[i] {
			q.ULGBR, q.DLGBR = 100, 100
		} else {
			q.NoGBR = true
		}

		r.CQER = append(r.CQER, q)
	}

	ds := w.Estab(peer, r)
	g.Stats["shape"]++

	if len(ds) >= 1 && ds[0].Cause == 1 && ds[0].HasFSEID {
		w.Del(peer, &SessReq{Hdr: ds[0].UPSeid})
	}
}

func newRand(seed int64) *rand.Rand { return rand.New(rand.NewSource(seed)) }

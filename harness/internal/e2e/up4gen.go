package e2e

import (
	"fmt"
	"math/rand"

	"verif/harness/internal/pfcpx"
)

// Up4Gen generates request histories for the UP4 datapath inside the envelope the UP4 image
// relation is stated for (DESIGN 11.4):
//   - a session has one UE address, one uplink FAR (forward to core) and one downlink FAR shared by
//     all its downlink PDRs (forward to a gNB with outer header creation, buffer, or drop);
//   - rules come in flows: an uplink and a downlink PDR with the same application filter (or none)
//     and the same QER list [application QER] or [application QER, session QER] or [];
//   - application QERs carry a QFI and possibly closed gates, the session QER has QFI 0 and open gates;
//   - within a session the application filters of one direction are pairwise different.
//
// gNB addresses and application filters are drawn from small pools so that sessions (also of
// different associations) share tunnel peers and applications.
type Up4Gen struct {
	W       *World
	R       *rand.Rand
	Peers   int
	MaxSess int
	Stats   map[string]int
	sess    []*usess
	assoc   map[string]bool
	ueCtr   uint32
	teidCtr uint32
	cpCtr   uint64
	gnbs    []uint32
	flows   []*pfcpx.Flow
	QFIs    []uint8
	// AddFlows: modifications may create new flows (Create PDR/QER in a modification)
	AddFlows bool
	UEAlloc  bool
	// Wide: boundary values everywhere (C16): precedences 0 and 65535 (and beyond), any 32-bit TEID, QFIs up to 63,
	// port ranges touching 0 and 65535, prefix lengths 1..32
	Wide bool
	// ForceSessQer / OneFlow: every session has a session QER / exactly one flow (crowds that hold many meter cells)
	ForceSessQer bool
	OneFilter    bool   // one flow per session, always with the generator's first application filter
	SymQer       bool   // flow QERs have the same maximum rate in both directions
	BeforeDelete func() // called before every Session Deletion Request the generator sends (e.g. to arm a write failure)
	ForceFwd     bool   // sessions forward downlink traffic to a gNB from their establishment on
	OneFlow      bool
	PeerBase     int // the generator's peers are p<PeerBase+1>..
	// UsePfd: the application filters are provisioned as PFDs (one application per filter, one description per
	// direction) when a peer associates, and half of the flows name the application ID instead of carrying the filter
	UsePfd      bool
	MinFlows    int  // at least this many flows per session
	MaxFlows    int  // at most this many flows at establishment (0: no limit)
	NoSessQer   bool // no session has a session-level QER
	GbrMode     int  // guaranteed rates of the flows' QERs: 0 as drawn, 1 none, 2 always, 3 none and a maximum rate above the session-level QER's
	AlwaysQer   bool // every flow has a QER of its own
	SessionOnly bool
	EndMarkers  bool // FAR updates ask for end markers (SNDEM) most of the time
}

type uflow struct {
	byApp        bool // the PDRs name the provisioned application instead of carrying the filter
	ul, dl       uint16
	ulFar, dlFar uint32
	qer          uint32 // 0 = none
	flow         int    // index into flows, -1 = no filter
	prec         uint32
	q            pfcpx.QER
}

type usess struct {
	peer       string
	cp, up     uint64
	ue         uint32
	teid       uint32 // 0 = one TEID per flow
	nextFar    uint32
	fd         pfcpx.FAR // state of every downlink FAR of the session (the ID is set per flow)
	sessQer    uint32
	sq         pfcpx.QER
	flows      []*uflow
	nextPDR    uint16
	nextQer    uint32
	live       bool
	chooseTeid bool
	teids      map[uint16]uint32
	noDl       bool // the downlink PDRs and FARs have been removed: the session is only deleted from here on
}

func NewUp4Gen(w *World, seed int64, peers, maxSess int, wide bool) *Up4Gen {
	g := &Up4Gen{W: w, R: rand.New(rand.NewSource(seed)), Peers: peers, MaxSess: maxSess, Stats: map[string]int{}, assoc: map[string]bool{}, Wide: wide}
	g.ueCtr = 0x0AF90000 + uint32(g.R.Intn(1<<8))<<8 // 10.249.x.y: never an address the agent allocates from its pool (10.250.0.0/16)
	g.teidCtr = uint32(g.R.Intn(1<<30)) | 1
	g.cpCtr = g.R.Uint64() | 1

	for i := 0; i < 3; i++ {
		if wide {
			g.gnbs = append(g.gnbs, g.R.Uint32()|1)
			continue
		}

		g.gnbs = append(g.gnbs, 0xC0A86400+uint32(1+g.R.Intn(250)))
	}

	for i := 0; i < 4; i++ {
		g.flows = append(g.flows, g.mkFlow())
	}

	if wide {
		// one filter on the remote prefix alone and one on the protocol alone (the applications table has a prefix, a range and a
		// ternary field: each of them alone makes the entry one that needs a priority)
		g.flows[0].Proto, g.flows[0].ProtoN, g.flows[0].Src = "ip", 255, pfcpx.FlowEP{Kind: "net", IP: 0x09000000 | uint32(g.R.Intn(1<<16))<<8, Len: 24, Ports: "none"}
		g.flows[1].Proto, g.flows[1].ProtoN, g.flows[1].Src = "udp", 17, pfcpx.FlowEP{Kind: "any", Ports: "none"}
	}

	g.QFIs = []uint8{1, 5, 9, uint8(1 + g.R.Intn(63)), uint8(1 + g.R.Intn(63))}
	if wide {
		g.QFIs = append(g.QFIs, 63, 62, 32)
	}

	return g
}

func (g *Up4Gen) mkFlow() *pfcpx.Flow {
	for {
		f := &pfcpx.Flow{Action: "permit", Dir: "out", Proto: "ip", ProtoN: 255, Src: pfcpx.FlowEP{Kind: "any", Ports: "none"}, Dst: pfcpx.FlowEP{Kind: "assigned", Ports: "none"}}

		switch g.R.Intn(3) {
		case 0:
			f.Proto, f.ProtoN = "tcp", 6
		case 1:
			f.Proto, f.ProtoN = "udp", 17
		}

		if g.R.Intn(3) > 0 {
			ln := []int{8, 16, 24, 32}[g.R.Intn(4)]
			if g.Wide {
				ln = 1 + g.R.Intn(32)
			}

			ip := uint32(0x08000000+g.R.Intn(1<<24)) &^ (1<<(32-uint(ln)) - 1)
			f.Src = pfcpx.FlowEP{Kind: "net", IP: ip, Len: ln, Ports: "none"}
		}

		switch g.R.Intn(3) {
		case 0:
			f.Src.Ports, f.Src.Lo = "one", 1+g.R.Intn(65000)
			if g.Wide && g.R.Intn(2) == 0 {
				f.Src.Lo = []int{1, 65535, 65534, 32768}[g.R.Intn(4)]
			}
		case 1:
			lo := 1 + g.R.Intn(60000)
			f.Src.Ports, f.Src.Lo, f.Src.Hi = "range", lo, lo+1+g.R.Intn(5000)

			if g.Wide && g.R.Intn(2) == 0 {
				f.Src.Lo, f.Src.Hi = []int{1, 2, 1024, 65534}[g.R.Intn(4)], 65535 // (0-65535 would be "any port": no filter)
			}
		}

		if f.ProtoN == 255 && f.Src.Kind == "any" && f.Src.Ports == "none" {
			continue // no filter at all
		}

		dup := false

		for _, o := range g.flows {
			if o.Text() == f.Text() {
				dup = true
			}
		}

		if !dup {
			return f
		}
	}
}

// SetDl updates every downlink FAR of the session to the given state: "fwd" (forward to gNB number gnb of the pool),
// "buff" or "drop" (bounded-exhaustive histories: the outcome is chosen by the script, not drawn).
func (g *Up4Gen) SetDl(s *usess, mode string, gnb int) bool {
	var nf pfcpx.FAR

	switch mode {
	case "buff":
		nf = pfcpx.FAR{Action: 0x0c, HasFP: true}
	case "drop":
		nf = pfcpx.FAR{Action: 1, HasFP: true}
	default:
		nf = pfcpx.FAR{Action: 2, HasFP: true, Dst: "access", OHC: true, PeerIP: g.gnbs[gnb%len(g.gnbs)], TEID: g.nextTeid()}
	}

	r := &SessReq{Hdr: s.up}

	for _, f := range s.flows {
		x := nf
		x.ID = f.dlFar
		r.UFAR = append(r.UFAR, x)
	}

	g.Stats["mod"]++

	if accepted(g.W.Mod(s.peer, r)) {
		s.fd = nf
		g.Stats["mod_far_ok"]++

		return true
	}

	return false
}

// DeleteAny / SetDlAny / ModifyAny accept the session as the interface value scripts hold.
func (g *Up4Gen) DeleteAny(s interface{ Live() bool }) { g.Delete(s.(*usess)) }
func (g *Up4Gen) SetDlAny(s interface{ Live() bool }, mode string, gnb int) bool {
	if len(mode) >= 3 && mode[:3] == "fwd" {
		mode = "fwd"
	}

	return g.SetDl(s.(*usess), mode, gnb)
}
func (g *Up4Gen) ModifyAny(s interface{ Live() bool }, kind int) { g.ModifyKind(s.(*usess), kind) }

// MarkEnded tells the generator that the association of the peer (and with it its sessions) has ended.
func (g *Up4Gen) MarkEnded(peer string) {
	g.assoc[peer] = false

	for _, s := range g.sess {
		if s.peer == peer {
			s.live = false
		}
	}
}

// Flows returns the number of flows of the session.
func (s *usess) Flows() int { return len(s.flows) }

// FreshGnbs replaces the pool of gNB addresses: sessions established from now on do not share tunnel peers with
// the earlier ones (a FAR update then leaves the old peer without users).
// PinGnbOf makes every session established from now on (until FreshGnbs) forward to the gNB the given session forwards to.
func (g *Up4Gen) PinGnbOf(x interface{ Live() bool }) {
	if s, ok := x.(*usess); ok && s.fd.Action == 2 {
		for i := range g.gnbs {
			g.gnbs[i] = s.fd.PeerIP
		}
	}
}

func (g *Up4Gen) FreshGnbs() {
	for i := range g.gnbs {
		g.gnbs[i] = 0xC0A80000 + uint32(g.R.Intn(1<<16))
	}
}

// Provision sends the PFD table of the generator's application filters to the peer's association: application
// "app<k>" for filter k, with one description for each direction (uplink packets go to the application, downlink
// packets come from it).
func (g *Up4Gen) Provision(peer string) {
	var apps []App

	for k, f := range g.flows {
		out := *f
		out.Dir = "out"
		out.Src, out.Dst = pfcpx.FlowEP{Kind: "any", Ports: "none"}, f.Src // towards the application

		in := *f
		in.Dir = "in"
		in.Src, in.Dst = f.Src, pfcpx.FlowEP{Kind: "any", Ports: "none"} // from the application

		apps = append(apps, App{ID: fmt.Sprintf("app%d", k), Flows: []pfcpx.Flow{out, in}})
	}

	g.W.Pfd(peer, apps)
	g.Stats["pfd"]++
}

// MarkAssoc tells the generator that the peer is associated already.
func (g *Up4Gen) MarkAssoc(peer string) { g.assoc[peer] = true }

func (g *Up4Gen) peerName(i int) string { return fmt.Sprintf("p%d", g.PeerBase+i+1) }

// ShareFiltersOf makes the generator use the application filters (and gNBs) of another one: sessions of different
// associations then share applications entries and tunnel peers.
func (g *Up4Gen) ShareFiltersOf(o *Up4Gen) {
	g.flows = o.flows
	g.gnbs = o.gnbs
}

// Disjoint gives the generator its own block of UE addresses and TEIDs (generators running side by side).
func (g *Up4Gen) Disjoint(k int) {
	g.ueCtr = 0x0AF90000 + uint32(k)<<12
	g.teidCtr = uint32(k+1) << 26
	g.cpCtr = uint64(k+1) << 40
}

func (g *Up4Gen) precedence() uint32 {
	if g.Wide {
		switch g.R.Intn(8) {
		case 0:
			return 0
		case 1:
			return 65535
		case 2:
			return 65534
		case 3:
			return 1
		case 4:
			return []uint32{65536, 0x7FFFFFFF, 0xFFFFFFFF, 100000}[g.R.Intn(4)]
		}
	}

	return uint32(g.R.Intn(65535))
}

func (g *Up4Gen) nextTeid() uint32 {
	if g.Wide && g.R.Intn(2) == 0 {
		for {
			if t := g.R.Uint32() | uint32(g.R.Intn(2))<<31; t != 0 && t != 0xFFFFFFFF {
				return t
			}
		}
	}

	g.teidCtr += uint32(1 + g.R.Intn(1000))
	if g.teidCtr == 0 {
		g.teidCtr = 1
	}

	return g.teidCtr
}

func (g *Up4Gen) dlFar(id uint32, update bool) pfcpx.FAR {
	switch g.R.Intn(5) {
	case 0:
		return pfcpx.FAR{ID: id, Action: 0x0c, HasFP: update} // BUFF|NOCP
	case 1:
		return pfcpx.FAR{ID: id, Action: 1, HasFP: update} // DROP
	default:
		f := pfcpx.FAR{ID: id, Action: 2, HasFP: true, Dst: "access", OHC: true, PeerIP: g.gnbs[g.R.Intn(len(g.gnbs))], TEID: g.nextTeid()}
		if update && g.R.Intn(4) == 0 {
			// Update Forwarding Parameters carry the Destination Interface only "if changed": a handover that brings the new
			// Outer Header Creation alone
			f.Dst = "none"
		}

		return f
	}
}

// sessGates: now and then the session-level QER closes a gate (every QER of a PDR applies to its packets)
func (g *Up4Gen) sessGates(q *pfcpx.QER) {
	q.ULGate, q.DLGate = 0, 0

	switch g.R.Intn(8) {
	case 0:
		q.ULGate = 1
	case 1:
		q.DLGate = 1
	}
}

func (g *Up4Gen) appQer(id uint32) pfcpx.QER {
	q := pfcpx.QER{ID: id, QFI: g.QFIs[g.R.Intn(len(g.QFIs))], ULMBR: uint64(1000 + g.R.Intn(1000000)), DLMBR: uint64(1000 + g.R.Intn(1000000)),
		ULGBR: uint64(g.R.Intn(1000)), DLGBR: uint64(g.R.Intn(1000))}

	if g.R.Intn(3) == 0 || g.SymQer { // the same rate in both directions (one meter cell can serve both; an update may need a second one)
		q.DLMBR = q.ULMBR
	}

	if g.R.Intn(5) == 0 {
		q.ULGate = 1
	}

	if g.R.Intn(5) == 0 {
		q.DLGate = 1
	}

	if g.R.Intn(3) == 0 { // no guaranteed rate: such a QER can be taken for the session QER when all PDRs refer to it
		q.ULGBR, q.DLGBR = 0, 0
	}

	switch g.GbrMode {
	case 1:
		q.ULGBR, q.DLGBR = 0, 0
	case 2:
		q.ULGBR, q.DLGBR = uint64(1+g.R.Intn(999)), uint64(1+g.R.Intn(999))
	case 3: // no guaranteed rate and a maximum rate above any session-level QER's
		q.ULGBR, q.DLGBR = 0, 0
		q.ULMBR, q.DLMBR = uint64(4000000+g.R.Intn(1000000)), uint64(4000000+g.R.Intn(1000000))
	}

	return q
}

func (g *Up4Gen) newFlow(s *usess, first bool) *uflow {
	f := &uflow{ul: s.nextPDR, dl: s.nextPDR + 1, ulFar: s.nextFar, dlFar: s.nextFar + 1, flow: -1, prec: g.precedence()}
	s.nextPDR += 2
	s.nextFar += 2

	if !first {
		used := map[int]bool{}
		for _, o := range s.flows {
			used[o.flow] = true
		}

		var free []int

		for i := range g.flows {
			if !used[i] {
				free = append(free, i)
			}
		}

		if len(free) == 0 {
			return nil
		}

		f.flow = free[g.R.Intn(len(free))]
	} else if g.R.Intn(3) == 0 {
		f.flow = g.R.Intn(len(g.flows))
	}

	if g.OneFilter { // every session's (single) flow uses the same application filter
		if !first {
			return nil
		}

		f.flow = 0
	}

	f.byApp = g.UsePfd && g.R.Intn(2) == 0

	if g.R.Intn(5) > 0 || g.AlwaysQer {
		f.qer = s.nextQer
		s.nextQer++
		f.q = g.appQer(f.qer)
	}

	return f
}

func (g *Up4Gen) pdrs(s *usess, f *uflow, inMod bool) (pfcpx.PDR, pfcpx.PDR) {
	var qers []uint32
	if f.qer != 0 {
		qers = append(qers, f.qer)
	}

	if s.sessQer != 0 {
		qers = append(qers, s.sessQer)
	}

	var fl *pfcpx.Flow
	if f.flow >= 0 {
		fl = g.flows[f.flow]
	}

	app := ""
	if g.UsePfd && f.flow >= 0 && f.byApp {
		app, fl = fmt.Sprintf("app%d", f.flow), nil
	}

	ue := "explicit"
	if s.ue == 0 {
		ue = "alloc"
	}

	ul := pfcpx.PDR{ID: f.ul, Prec: f.prec, Src: "access", UE: ue, UEIP: s.ue, SDF: fl, AppID: app, OHR: true, FAR: f.ulFar, QERs: qers}

	switch {
	case s.chooseTeid && !inMod:
		ul.FTEID = "choose"
	case s.teid != 0:
		ul.FTEID, ul.TunIP, ul.TEID = "explicit", g.W.AccessIP, s.teid
	default:
		t, ok := s.teids[f.ul]
		if !ok {
			t = g.nextTeid()
			s.teids[f.ul] = t
		}

		ul.FTEID, ul.TunIP, ul.TEID = "explicit", g.W.AccessIP, t
	}

	dl := pfcpx.PDR{ID: f.dl, Prec: f.prec, Src: "core", FTEID: "none", UE: ue, UEIP: s.ue, SDF: fl, AppID: app, FAR: f.dlFar, QERs: qers}

	return ul, dl
}

// fars returns the two Create FARs of a flow: uplink to the core, downlink in the session's current state.
func (g *Up4Gen) fars(s *usess, f *uflow) []pfcpx.FAR {
	d := s.fd
	d.ID = f.dlFar

	if d.Action != 2 {
		d.HasFP = false // Create FAR: forwarding parameters only when forwarding
	}

	return []pfcpx.FAR{{ID: f.ulFar, Action: 2, HasFP: true, Dst: "core"}, d}
}

func (g *Up4Gen) live() []*usess {
	var out []*usess

	for _, s := range g.sess {
		if s.live {
			out = append(out, s)
		}
	}

	return out
}

func accepted(ds []pfcpx.Dgram) bool { return len(ds) >= 1 && ds[0].Cause == 1 }

// Establish creates a new session on the given peer and sends the establishment.
func (g *Up4Gen) Establish(peer string) bool {
	s := &usess{peer: peer, cp: g.cpCtr, nextFar: 1, nextPDR: 1, nextQer: 2, teids: map[uint16]uint32{}}
	g.cpCtr += uint64(1 + g.R.Intn(100))

	if !g.UEAlloc || g.R.Intn(2) == 0 {
		g.ueCtr++
		s.ue = g.ueCtr
	}

	switch g.R.Intn(3) {
	case 0:
		s.teid = g.nextTeid() // one tunnel per session: every uplink PDR matches the same TEID
	case 1:
		s.chooseTeid = true
	}

	if (g.R.Intn(2) == 0 || g.ForceSessQer) && !g.NoSessQer {
		s.sessQer = 1
		s.sq = pfcpx.QER{ID: 1, QFI: 0, ULMBR: uint64(2000000 + g.R.Intn(1000000)), DLMBR: uint64(2000000 + g.R.Intn(1000000)), NoGBR: true}
		g.sessGates(&s.sq)
	}

	s.fd = g.dlFar(0, false)
	for i := 0; g.ForceFwd && s.fd.Action != 2 && i < 50; i++ { // the session forwards downlink traffic from the start (it uses a tunnel peer)
		s.fd = g.dlFar(0, false)
	}

	nf := 1 + g.R.Intn(3)
	if g.OneFlow {
		nf = 1
	}

	if nf < g.MinFlows {
		nf = g.MinFlows
	}

	if g.MaxFlows > 0 && nf > g.MaxFlows {
		nf = g.MaxFlows
	}

	for i := 0; i < nf; i++ {
		if f := g.newFlow(s, i == 0); f != nil {
			s.flows = append(s.flows, f)
		}
	}

	r := &SessReq{CP: s.cp}

	for _, f := range s.flows {
		ul, dl := g.pdrs(s, f, false)
		r.CPDR = append(r.CPDR, ul, dl)
		r.CFAR = append(r.CFAR, g.fars(s, f)...)

		if f.qer != 0 {
			r.CQER = append(r.CQER, f.q)
		}
	}

	if s.sessQer != 0 {
		r.CQER = append(r.CQER, s.sq)
	}

	ds := g.W.Estab(peer, r)
	g.Stats["estab"]++

	if accepted(ds) {
		s.up, s.live = ds[0].UPSeid, true
		s.chooseTeid = false

		for _, c := range ds[0].Created {
			if c.HasTEID {
				s.teids[c.PDR] = c.TEID
			}
		}

		g.sess = append(g.sess, s)
		g.Stats["estab_ok"]++

		return true
	}

	return false
}

// Modify sends one random modification of a live session.
func (g *Up4Gen) Modify(s *usess) { g.ModifyKind(s, g.R.Intn(10)) }

// Reseed restarts the generator's random stream: requests generated after the same reseed have the same shape
// (their addresses, TEIDs and SEIDs still differ).
func (g *Up4Gen) Reseed(seed int64) { g.R = rand.New(rand.NewSource(seed)) }

// Last returns the most recently established session (nil if none).
func (g *Up4Gen) Last() *usess {
	if len(g.sess) == 0 {
		return nil
	}

	return g.sess[len(g.sess)-1]
}

// Live tells whether the session is (believed) live.
func (s *usess) Live() bool { return s != nil && s.live }

// Kinds of modification for ModifyKind.
const (
	ModFarSame = 10 // all downlink FARs: the same gNB, a new TEID (the tunnel peer stays, its entry is written again)
	ModFar     = 0  // all downlink FARs: buffer / drop / forward to a gNB
	ModQer     = 4
	ModPdr     = 6
	ModRemove  = 7
	ModAdd     = 9
)

// RemoveDownlink removes every downlink PDR of the session together with its FAR; the uplink rules stay.
func (g *Up4Gen) RemoveDownlink(s *usess) {
	if s.noDl {
		return
	}

	r := &SessReq{Hdr: s.up}
	g.Stats["mod"]++

	for _, f := range s.flows {
		r.RPDR = append(r.RPDR, f.dl)
		r.RFAR = append(r.RFAR, f.dlFar)
	}

	if accepted(g.W.Mod(s.peer, r)) {
		s.noDl = true
		g.Stats["mod_rmdl_ok"]++
	}
}

func (g *Up4Gen) RemoveDownlinkAny(s interface{ Live() bool }) { g.RemoveDownlink(s.(*usess)) }

// ModifyKind sends a modification of the given kind (one of the Mod* constants; 0..9 as drawn by Modify).
func (g *Up4Gen) ModifyKind(s *usess, kind int) {
	if s.noDl {
		return
	}

	r := &SessReq{Hdr: s.up}
	g.Stats["mod"]++

	switch {
	case kind == ModFarSame:
		nf := s.fd
		if nf.Action != 2 {
			nf = pfcpx.FAR{Action: 2, HasFP: true, Dst: "access", OHC: true, PeerIP: g.gnbs[0]}
		}

		nf.HasFP, nf.Dst, nf.TEID = true, "access", g.nextTeid()

		for _, f := range s.flows {
			x := nf
			x.ID = f.dlFar
			r.UFAR = append(r.UFAR, x)
		}

		if accepted(g.W.Mod(s.peer, r)) {
			s.fd = nf
			g.Stats["mod_far_ok"]++
		}
	case kind < 4: // every downlink FAR of the session: buffer <-> forward, handover to another gNB
		nf := g.dlFar(0, true)

		if g.EndMarkers && g.R.Intn(4) > 0 {
			nf.HasFP, nf.SNDEM = true, true
		} else if g.EndMarkers && g.R.Intn(2) == 0 {
			nf.SMReq = nf.HasFP // the flags IE is present without SNDEM
		}

		if g.EndMarkers && nf.HasFP && g.R.Intn(3) == 0 { // other bits of the flags octet (DROBU, QAURR, spare)
			nf.SMReq, nf.SMReqOther = true, []uint8{0x01, 0x04, 0x05, 0x80, 0x85}[g.R.Intn(5)]
		}

		for _, f := range s.flows {
			x := nf
			x.ID = f.dlFar
			r.UFAR = append(r.UFAR, x)
		}

		if accepted(g.W.Mod(s.peer, r)) {
			s.fd = nf
			g.Stats["mod_far_ok"]++
		}
	case kind < 6: // QER update: gates, QFI
		var cands []*uflow

		for _, f := range s.flows {
			if f.qer != 0 {
				cands = append(cands, f)
			}
		}

		// the session QER: a new aggregate rate, now and then below the rates of the flows' QERs (a single-flow session's
		// QERs are both referred to by every PDR: which of them counts as the session QER may change with the rates)
		if s.sessQer != 0 && (len(cands) == 0 || g.R.Intn(3) == 0) {
			nq := s.sq
			nq.ULMBR, nq.DLMBR = uint64(2000000+g.R.Intn(1000000)), uint64(2000000+g.R.Intn(1000000))

			if g.R.Intn(2) == 0 {
				nq.ULMBR, nq.DLMBR = uint64(500+g.R.Intn(3000)), uint64(500+g.R.Intn(3000))
			}

			g.sessGates(&nq)

			r.UQER = []pfcpx.QER{nq}

			if accepted(g.W.Mod(s.peer, r)) {
				s.sq = nq
				g.Stats["mod_sessqer_ok"]++
			}

			return
		}

		if len(cands) == 0 {
			g.Stats["mod"]--
			return
		}

		f := cands[g.R.Intn(len(cands))]
		nq := g.appQer(f.qer)
		r.UQER = []pfcpx.QER{nq}

		if accepted(g.W.Mod(s.peer, r)) {
			f.q = nq
			g.Stats["mod_qer_ok"]++
		}
	case kind < 7: // PDR update: precedence
		f := s.flows[g.R.Intn(len(s.flows))]
		old := f.prec
		f.prec = g.precedence()
		ul, dl := g.pdrs(s, f, true)
		r.UPDR = []pfcpx.PDR{ul, dl}

		if !accepted(g.W.Mod(s.peer, r)) {
			f.prec = old
		} else {
			g.Stats["mod_pdr_ok"]++
		}
	case kind < 9 && len(s.flows) > 1: // remove a flow (never the first)
		i := 1 + g.R.Intn(len(s.flows)-1)
		f := s.flows[i]
		r.RPDR = []uint16{f.ul, f.dl}
		r.RFAR = []uint32{f.ulFar, f.dlFar}

		if f.qer != 0 {
			r.RQER = []uint32{f.qer}
		}

		if accepted(g.W.Mod(s.peer, r)) {
			s.flows = append(s.flows[:i:i], s.flows[i+1:]...)
			g.Stats["mod_remove_ok"]++
		}
	case g.AddFlows: // add a flow
		f := g.newFlow(s, false)
		if f == nil {
			g.Stats["mod"]--
			return
		}

		ul, dl := g.pdrs(s, f, true)
		r.CPDR = []pfcpx.PDR{ul, dl}
		r.CFAR = g.fars(s, f)

		if f.qer != 0 {
			r.CQER = []pfcpx.QER{f.q}
		}

		if accepted(g.W.Mod(s.peer, r)) {
			s.flows = append(s.flows, f)
			g.Stats["mod_add_ok"]++
		}
	default:
		g.Stats["mod"]--
	}
}

// UpdateSessQer gives the session-level QER a new aggregate rate: below the rates of the flows' QERs (low) or above them.
func (g *Up4Gen) UpdateSessQer(s *usess, low bool) {
	if s.sessQer == 0 {
		return
	}

	g.Stats["mod"]++

	nq := s.sq
	nq.ULMBR, nq.DLMBR = uint64(2000000+g.R.Intn(1000000)), uint64(2000000+g.R.Intn(1000000))

	if low {
		nq.ULMBR, nq.DLMBR = uint64(100+g.R.Intn(800)), uint64(100+g.R.Intn(800))
	}

	g.sessGates(&nq)

	if accepted(g.W.Mod(s.peer, &SessReq{Hdr: s.up, UQER: []pfcpx.QER{nq}})) {
		s.sq = nq
		g.Stats["mod_sessqer_ok"]++
	}
}

// UpdateFlowQer updates the QER of the session's first flow that has one: "sym" the same rate in both directions,
// "asym" different rates, "big" a rate above the session-level QER's, "gate" one of the gates closed.
func (g *Up4Gen) UpdateFlowQer(s *usess, mode string) {
	for _, f := range s.flows {
		if f.qer == 0 {
			continue
		}

		g.Stats["mod"]++

		nq := g.appQer(f.qer)
		nq.ULGate, nq.DLGate = 0, 0

		switch mode {
		case "sym":
			nq.ULMBR = uint64(1000 + g.R.Intn(1000000))
			nq.DLMBR = nq.ULMBR
		case "asym":
			nq.ULMBR = uint64(1000 + g.R.Intn(1000000))
			nq.DLMBR = nq.ULMBR + uint64(1+g.R.Intn(1000))
		case "big":
			nq.ULMBR, nq.DLMBR = uint64(4000000+g.R.Intn(1000000)), uint64(4000000+g.R.Intn(1000000))
		case "gate":
			if g.R.Intn(2) == 0 {
				nq.ULGate = 1
			} else {
				nq.DLGate = 1
			}
		}

		if accepted(g.W.Mod(s.peer, &SessReq{Hdr: s.up, UQER: []pfcpx.QER{nq}})) {
			f.q = nq
			g.Stats["mod_qer_ok"]++
		}

		return
	}
}

func (g *Up4Gen) UpdateSessQerAny(s interface{ Live() bool }, low bool) {
	g.UpdateSessQer(s.(*usess), low)
}
func (g *Up4Gen) UpdateFlowQerAny(s interface{ Live() bool }, mode string) {
	g.UpdateFlowQer(s.(*usess), mode)
}

// Delete deletes a live session.
func (g *Up4Gen) Delete(s *usess) {
	g.Stats["del"]++

	if g.BeforeDelete != nil {
		g.BeforeDelete()
	}

	if accepted(g.W.Del(s.peer, &SessReq{Hdr: s.up})) {
		s.live = false
		g.Stats["del_ok"]++
	}
}

// Step performs one random step. Returns false when the agent died.
func (g *Up4Gen) Step() bool {
	w := g.W
	if w.Died {
		return false
	}

	peer := g.peerName(g.R.Intn(g.Peers))
	if !g.assoc[peer] {
		if accepted(w.Assoc(peer)) {
			g.assoc[peer] = true

			if g.UsePfd {
				g.Provision(peer)
			}
		}

		return !w.Died
	}

	live := g.live()

	switch x := g.R.Intn(20); {
	case len(live) == 0 || (x < 5 && len(live) < g.MaxSess):
		g.Establish(peer)
	case x < 15:
		s := live[g.R.Intn(len(live))]
		if x == 14 && g.R.Intn(2) == 0 {
			g.RemoveDownlink(s) // from here on the session is only deleted
		} else {
			g.Modify(s)
		}
	case x < 18:
		g.Delete(live[g.R.Intn(len(live))])
	case x == 18 && g.Peers > 1:
		// the association ends: all its sessions go
		w.Release(peer)
		g.assoc[peer] = false
		g.Stats["release"]++

		for _, s := range live {
			if s.peer == peer {
				s.live = false
			}
		}
	case g.SessionOnly:
		g.Modify(live[g.R.Intn(len(live))])
	default:
		w.Heartbeat(peer)
	}

	return !w.Died
}

// Finish deletes what is left, session by session.
func (g *Up4Gen) Finish() {
	for _, s := range g.live() {
		if g.W.Died {
			return
		}

		g.Delete(s)
	}
}

// LiveCount returns the number of sessions the generator believes live.
func (g *Up4Gen) LiveCount() int { return len(g.live()) }

// Package e2e drives the real agent process over PFCP against the harness' datapath servers and
// records one trace line per script step (DESIGN 3.9). It contains no expectations: it sends what
// the script says and writes down what it observed.
package e2e

import (
	"bufio"
	"encoding/json"
	"fmt"
	"net"
	"os"
	"path/filepath"
	"regexp"
	"sort"
	"strings"
	"sync"
	"time"

	"github.com/wmnsk/go-pfcp/ie"
	"github.com/wmnsk/go-pfcp/message"

	"verif/harness/internal/agent"
	"verif/harness/internal/fakebess"
	"verif/harness/internal/fakep4"
	"verif/harness/internal/pfcpx"
)

type marker struct {
	b  []byte
	at time.Time
}

// World is one harness instance: a BESS server, at most one running agent, scripted peers.
type World struct {
	Dir       string
	AgentBin  string
	Cfg       agent.Cfg
	Bess      *fakebess.Server
	P4        *fakep4.Server // the switch of the UP4 datapath (nil on BESS)
	p4n       *p4names
	p4Seen    int // updates already reported in a trace line
	p4PktSeen int // packet-outs already reported
	// P4Fault, when set, makes the switch fail one write of the next request (one shot)
	P4Fault  *P4FaultPlan
	LastRpcs int // Write RPCs the switch received during the last request
	conc     *concRec
	// KillAtWrite, when > 0, makes the datapath server kill the agent (SIGKILL) when it receives the K-th command /
	// Write RPC of the next request, before applying it (one shot): a crash in the middle of a request
	KillAtWrite int
	killHit     bool
	// UeBySeid: UE address of each session (C13 on UP4: a datapath report is a digest carrying the UE address)
	UeBySeid      map[uint64]uint32
	Agent         *agent.Agent
	Peers         map[string]*pfcpx.Peer
	UpTok         *pfcpx.Toks
	CpTok         *pfcpx.Toks
	Run           int
	out           *bufio.Writer
	outf          *os.File
	Lines         int
	Steps         int
	Accepted      int // accepted session requests (establishment, modification, deletion)
	EMSock        *net.UnixListener
	emConn        *net.UnixConn
	markers       chan marker
	NotifyL       *net.UnixListener
	NotifyC       *net.UnixConn
	AccessIP      uint32
	CoreIP        uint32
	N4IP          uint32
	RespWait      time.Duration
	Quiet         time.Duration // silence window after each step
	Died          bool
	LightDp       bool          // UP4: record the writes but not the tables (long histories judged by their writes only, C16)
	SchedMaxHold  time.Duration // upper limit of the time the random scheduler stalls its victim class (0: none)
	SnapEvery     bool          // attach the guarded state snapshot to every recorded step
	evMu          sync.Mutex
	evLog         []agent.Event // verifPoint events reported by the agent
	pendingWait   func()
	notifyDropped bool
	TeardownWait  time.Duration // how long a step waits for the end of a teardown (longer when the scheduler stalls it)
	connBefore    string
	dpTimeouts    int
	AutoHB        bool          // every scripted peer answers the agent's Heartbeat Requests from its creation on
	ReportCopies  int           // BESS: a report is written this many times back to back on the notify socket (0, 1: once)
	ConnTruth     string        // "down": the harness itself stopped the datapath server a while ago; Assoc records that instead of the agent's own view
	DdnMs         int           // notification interval set through the hook (0 = the code's 20 s)
	t0            time.Time     // start of the world (time stamps of report events)
	HoldFar       time.Duration // C14: delay of farLookup add commands while a modification with SNDEM is processed
	LastErr       string
}

func ifaceIP(name string) uint32 {
	ifc, err := net.InterfaceByName(name)
	if err != nil {
		return 0
	}

	addrs, err := ifc.Addrs()
	if err != nil || len(addrs) == 0 {
		return 0
	}

	ip, _, err := net.ParseCIDR(addrs[0].String())
	if err != nil {
		return 0
	}

	return pfcpx.IP4(ip)
}

// NewWorld prepares directories, the BESS server and the trace file.
func NewWorld(dir, agentBin, tracePath string, cfg agent.Cfg, run int) (*World, error) {
	if err := os.MkdirAll(dir, 0o755); err != nil {
		return nil, err
	}

	w := &World{Dir: dir, AgentBin: agentBin, Cfg: cfg, Peers: map[string]*pfcpx.Peer{}, Run: run,
		UpTok: pfcpx.NewToks("u"), CpTok: pfcpx.NewToks("r"), markers: make(chan marker, 1024),
		RespWait: 3 * time.Second, Quiet: 4 * time.Millisecond, UeBySeid: map[uint64]uint32{}}
	w.Bess = fakebess.New()
	w.t0 = time.Now()

	addr, err := w.Bess.Start("127.0.0.1:0")
	if err != nil {
		return nil, err
	}

	w.Cfg.BessAddr = addr
	w.AccessIP = ifaceIP("lo")
	w.CoreIP = ifaceIP("eth0")

	if cfg.Datapath == "up4" {
		info, err := fakep4.LoadInfo(P4InfoPath)
		if err != nil {
			return nil, fmt.Errorf("P4Info: %w", err)
		}

		w.P4 = fakep4.New(info)
		w.p4n = indexInfo(info)

		paddr, err := w.P4.Start("127.0.0.1:0")
		if err != nil {
			return nil, err
		}

		host, port, _ := net.SplitHostPort(paddr)
		w.Cfg.P4Server, w.Cfg.P4Port = host, port

		if ip, _, err := net.ParseCIDR(cfg.P4AccessIP); err == nil {
			w.AccessIP = pfcpx.IP4(ip)
		}

		w.CoreIP = 0
	}
	w.N4IP = pfcpx.IP4(net.ParseIP(cfg.N4Addr))

	f, err := os.OpenFile(tracePath, os.O_APPEND|os.O_CREATE|os.O_WRONLY, 0o644)
	if err != nil {
		return nil, err
	}

	w.outf = f
	w.out = bufio.NewWriterSize(f, 1<<20)

	return w, nil
}

// Close stops everything.
func (w *World) Close() {
	if w.Agent != nil {
		w.Agent.Kill()
	}

	if f := os.Getenv("VERIF_DEBUG_EVENTS"); f != "" { // debugging aid: the scheduling points the agent reported
		w.evMu.Lock()
		var sb strings.Builder
		for _, e := range w.evLog {
			fmt.Fprintf(&sb, "%d gated=%v %s %s\n", e.Seq, e.Gated, e.Name, e.Args)
		}
		w.evMu.Unlock()
		_ = os.WriteFile(f, []byte(sb.String()), 0o644)
	}

	for _, p := range w.Peers {
		p.Close()
	}

	w.Bess.Stop()

	if w.P4 != nil {
		w.P4.Stop()
	}

	if w.EMSock != nil {
		w.EMSock.Close()
	}

	if w.NotifyL != nil {
		w.NotifyL.Close()
	}

	if w.out != nil {
		w.out.Flush()
		w.outf.Close()
	}
}

func (w *World) emit(m map[string]interface{}) {
	// the agent gives the BESS datapath one second per request; when that budget runs out (a machine far too loaded) it logs
	// so and goes on as if the request had been programmed.  The step is marked: a shard with such a step is run again.
	if w.Agent != nil {
		if n := strings.Count(w.Agent.Stderr(), "unable to make GRPC calls"); n > w.dpTimeouts {
			w.dpTimeouts = n
			m["dpTimeout"] = true
		}
	}

	m["run"] = w.Run
	b, err := json.Marshal(m)
	if err != nil {
		panic(err)
	}

	w.out.Write(b)
	w.out.WriteByte('\n')
	w.Lines++
}

// Flush flushes the trace file.
func (w *World) Flush() { w.out.Flush() }

// ---------------------------------------------------------------------------------------------
// sockets the BESS plug-in dials at start-up

func (w *World) listenUnixpacket(name string) (*net.UnixListener, error) {
	path := filepath.Join(w.Dir, name)
	_ = os.Remove(path)

	return net.ListenUnix("unixpacket", &net.UnixAddr{Name: path, Net: "unixpacket"})
}

func (w *World) serveEndMarkers() {
	for {
		c, err := w.EMSock.AcceptUnix()
		if err != nil {
			return
		}

		w.emConn = c

		go func(c *net.UnixConn) {
			buf := make([]byte, 4096)

			for {
				n, err := c.Read(buf)
				if err != nil {
					return
				}

				w.markers <- marker{b: append([]byte(nil), buf[:n]...), at: time.Now()}
			}
		}(c)
	}
}

func (w *World) serveNotify() {
	for {
		c, err := w.NotifyL.AcceptUnix()
		if err != nil {
			return
		}

		w.NotifyC = c
	}
}

// ---------------------------------------------------------------------------------------------
// agent life-cycle steps

func (w *World) cfgJSON() map[string]interface{} {
	qos := []map[string]interface{}{}
	has0 := false

	lastOf := map[uint8]int{}
	for i, q := range w.Cfg.QciQos {
		lastOf[q.QCI] = i
	}

	for i, q := range w.Cfg.QciQos {
		if lastOf[q.QCI] != i { // a later entry for the same QFI replaces an earlier one (the configuration is a list)
			continue
		}

		qos = append(qos, map[string]interface{}{"qfi": int(q.QCI), "cbs": pfcpx.Big(uint64(q.CBS)), "pbs": pfcpx.Big(uint64(q.PBS)),
			"ebs": pfcpx.Big(uint64(q.EBS)), "dur": int(q.BurstDurationMs)})

		if q.QCI == 0 {
			has0 = true
		}
	}

	if !has0 { // the agent installs this default for QFI 0 (documented in conf/upf.jsonc)
		d := uint64(32 * 1514)
		qos = append(qos, map[string]interface{}{"qfi": 0, "cbs": pfcpx.Big(d), "pbs": pfcpx.Big(d), "ebs": pfcpx.Big(d), "dur": 10})
	}

	poolNet, poolLen := uint32(0), 32

	if w.Cfg.UEIPAlloc {
		if _, n, err := net.ParseCIDR(w.Cfg.UEPool); err == nil {
			poolNet = pfcpx.IP4(n.IP)
			poolLen, _ = n.Mask.Size()
		}
	}

	return map[string]interface{}{
		"dp": w.Cfg.Datapath, "node": "nU", "n4": pfcpx.V32(uint64(w.N4IP)), "access": pfcpx.V32(uint64(w.AccessIP)),
		"core": pfcpx.V32(uint64(w.CoreIP)), "ueAlloc": w.Cfg.UEIPAlloc, "poolNet": pfcpx.V32(uint64(poolNet)), "poolLen": poolLen,
		"endMarker": w.Cfg.EndMarker, "hb": w.Cfg.HBTimer, "qos": qos, "ddnMs": map[bool]int{true: w.DdnMs, false: 20000}[w.DdnMs > 0],
		"up4": w.up4CfgJSON(),
	}
}

// dpObs adds the datapath observation of a step to a trace line: the table image, the number of commands
// (updates) received so far and how many of them failed; on UP4 also the updates since the previous line.
func (w *World) dpObs(ev map[string]interface{}) {
	if w.P4 == nil {
		if w.LightDp {
			_, wr, er := w.Bess.Counts()
			ev["dp"], ev["cmds"], ev["errs"] = w.dpJSON(), wr, er

			return
		}

		t := w.Bess.Snapshot()
		ev["dp"] = w.dpJSON()
		ev["cmds"] = t.Writes
		ev["errs"] = t.Errs

		return
	}

	ev["dp"] = w.p4JSON()
	n, bad := w.p4Counts()
	ev["cmds"], ev["errs"] = n, bad

	ws := []map[string]interface{}{}
	for _, u := range w.P4.UpdatesSince(w.p4Seen) {
		ws = append(ws, writeJSON(u))
	}

	w.p4Seen = n
	ev["writes"] = ws
}

// DpIdle waits until the datapath server has received nothing for `quiet` (at most `max`).
func (w *World) DpIdle(quiet, max time.Duration) { w.dpIdle(quiet, max) }

func (w *World) dpIdle(quiet, max time.Duration) {
	if w.P4 != nil {
		w.P4.WaitIdle(quiet, max)
		return
	}

	w.Bess.WaitIdle(quiet, max)
}

// StartAgent starts a new incarnation of the agent and records the start event.
func (w *World) StartAgent() error {
	var err error

	if w.Cfg.EndMarker && w.EMSock == nil {
		if w.EMSock, err = w.listenUnixpacket("endmarker.sock"); err != nil {
			return err
		}

		go w.serveEndMarkers()
	}

	if w.Cfg.NotifyBess && w.NotifyL == nil && !w.notifyDropped {
		if w.NotifyL, err = w.listenUnixpacket("notify.sock"); err != nil {
			return err
		}

		go w.serveNotify()
	}

	// (the whole start is repeated when the agent turns out to have lost its HTTP port to a parallel run: see below)
	for startTry := 0; ; startTry++ {
		retry, err := w.startOnce()
		if err == nil {
			break
		}

		if !retry || startTry >= 4 {
			return err
		}
	}

	w.dpIdle(5*time.Millisecond, 2*time.Second)

	ev := map[string]interface{}{"ev": "start", "cfg": w.cfgJSON()}
	w.dpObs(ev)

	if w.P4 != nil {
		ev["cfg"].(map[string]interface{})["p4info"] = InfoJSON(w.P4.Info)
		ev["snap"] = w.snapJSON()
	}

	w.emit(ev)

	return nil
}

// startOnce launches the agent and waits until it answers on N4 AND has bound its HTTP port. retry = the agent died because
// that port was taken in the meantime (a start-up failure of the harness' making, not an observation): start again.
func (w *World) startOnce() (retry bool, err error) {
	w.Agent, err = agent.Start(w.AgentBin, w.Dir, w.Cfg)
	if err != nil {
		return false, err
	}

	httpLost := func() bool { return !w.Agent.Alive() && strings.Contains(w.Agent.Stderr(), "http server failed") }

	// an agent that could not bind its HTTP port (taken by a parallel run in the meantime) is started again on
	// another port: a start-up failure of the harness' making, not an observation
	for try := 0; try < 5; try++ {
		time.Sleep(25 * time.Millisecond)

		if w.Agent.Alive() || !strings.Contains(w.Agent.Stderr(), "http server failed") {
			break
		}

		w.Agent, err = agent.Start(w.AgentBin, w.Dir, w.Cfg)
		if err != nil {
			return false, err
		}
	}

	w.Died = false

	go func(a *agent.Agent) {
		for {
			select {
			case ev := <-a.Events:
				w.evMu.Lock()
				w.evLog = append(w.evLog, ev)
				w.evMu.Unlock()
			case <-a.Done():
				return
			}
		}
	}(w.Agent)

	// ready = a heartbeat on a throw-away socket is answered
	probe, err := pfcpx.NewPeer("probe", "127.0.0.1:0", w.Cfg.N4Addr+":8805", "127.0.0.1")
	if err != nil {
		return false, err
	}
	defer probe.Close()

	deadline := time.Now().Add(15 * time.Second)
	ready := false

	for time.Now().Before(deadline) && w.Agent.Alive() {
		_ = probe.Send(message.NewHeartbeatRequest(probe.NextSeq(), ie.NewRecoveryTimeStamp(probe.TS), nil))
		if probe.WaitN(1, 40*time.Millisecond) {
			ready = true
			break
		}
	}

	// ... and the HTTP server is up (it is started after N4: an agent that answers heartbeats can still lose its HTTP port)
	for i := 0; ready && i < 500 && w.Agent.Alive(); i++ {
		c, derr := net.DialTimeout("tcp", fmt.Sprintf("127.0.0.1:%d", w.Agent.HTTPPort), 50*time.Millisecond)
		if derr == nil {
			c.Close()
			break
		}

		time.Sleep(2 * time.Millisecond)
	}

	if httpLost() {
		return true, fmt.Errorf("the agent lost its HTTP port to a parallel run: %s", tailStr(w.Agent.Stderr(), 300))
	}

	if !ready {
		return false, fmt.Errorf("agent did not become ready (alive=%v): %s", w.Agent.Alive(), tailStr(w.Agent.Stderr(), 600))
	}

	// the probe's connection object must not stay behind (datapath reports are routed to "the" association)
	probe.Drain()
	_ = probe.Send(message.NewAssociationReleaseRequest(probe.NextSeq(), ie.NewNodeID("127.0.0.1", "", "")))
	probe.WaitN(1, 500*time.Millisecond)
	time.Sleep(15 * time.Millisecond)

	for i := 0; i < 100 && !w.Agent.CtlConnected(); i++ {
		time.Sleep(2 * time.Millisecond)
	}

	_ = w.Agent.Report(true)

	if w.P4 != nil {
		// the plug-in connects, clears the tables and writes the interfaces entries on its own schedule
		for i := 0; i < 1500 && w.P4.RpcCount() == 0 && w.Agent.Alive(); i++ {
			time.Sleep(2 * time.Millisecond)
		}

		for i := 0; i < 1500 && w.Agent.Alive(); i++ {
			if sn := w.snapJSON(); sn["connected"] == true {
				break
			}

			time.Sleep(4 * time.Millisecond)
		}
	}

	return false, nil
}

// KillAgent sends SIGKILL and records the event.
func (w *World) KillAgent() {
	if w.Agent != nil {
		w.Agent.Kill()
	}

	// the peers' associations are gone with the process
	w.emit(map[string]interface{}{"ev": "kill"})
}

func tailStr(s string, n int) string {
	if len(s) > n {
		return s[len(s)-n:]
	}

	return s
}

// CheckAlive records a "died" event if the agent process has exited on its own. Returns true if dead.
func (w *World) CheckAlive() bool {
	if w.Agent == nil || w.Died {
		return w.Died
	}

	if w.Agent.Alive() {
		return false
	}

	w.Died = true
	head, site := panicSite(w.Agent.Stderr())
	w.emit(map[string]interface{}{"ev": "died", "site": site, "panic": head, "exit": w.Agent.ExitCode()})

	return true
}

// ---------------------------------------------------------------------------------------------
// peers

// Peer returns (creating on first use) the scripted peer with the given name.
func (w *World) Peer(name string) *pfcpx.Peer {
	if p, ok := w.Peers[name]; ok {
		return p
	}

	idx := len(w.Peers) + 1
	nodeID := fmt.Sprintf("10.99.0.%d", idx)

	p, err := pfcpx.NewPeer(name, "127.0.0.1:0", w.Cfg.N4Addr+":8805", nodeID)
	if err != nil {
		panic(err)
	}

	w.Peers[name] = p

	if w.AutoHB {
		p.SetAutoHB(true)
	}

	return p
}

// ---------------------------------------------------------------------------------------------
// projections

func (w *World) respJSON(d pfcpx.Dgram) map[string]interface{} {
	node := "-"
	if d.NodeID != "" {
		if pfcpx.IP4(net.ParseIP(d.NodeID)) == w.N4IP && w.N4IP != 0 {
			node = "nU"
		} else {
			node = "alien:" + d.NodeID
		}
	}

	created := []map[string]interface{}{}
	for _, c := range d.Created {
		created = append(created, map[string]interface{}{"pdr": int(c.PDR), "hasTeid": c.HasTEID, "teid": pfcpx.V32(uint64(c.TEID)),
			"tunip": pfcpx.V32(uint64(c.TunIP)), "hasUe": c.HasUE, "ueip": pfcpx.V32(uint64(c.UEIP))})
	}

	feats := []int{}
	for _, b := range d.Features {
		feats = append(feats, int(b))
	}

	fseid := "zero"
	if d.HasFSEID {
		fseid = w.UpTok.Reg(d.UPSeid)
	}

	cause := d.Cause
	if cause < 0 {
		cause = 0
	}

	typ := d.Type
	if d.ParseErr != "" {
		typ = "undecodable"
	}

	return map[string]interface{}{
		"type": typ, "seq": pfcpx.V32(uint64(d.Seq)), "hasSeid": d.HasSEID, "seid": w.CpTok.Get(d.SEID), "cause": cause,
		"node": node, "hasFseid": d.HasFSEID, "fseid": fseid, "fseidIp": pfcpx.V32(uint64(d.UPSeidIP)), "created": created,
		"hasTs": d.HasTS, "ts": pfcpx.V32(uint64(d.TS)), "features": feats, "offend": maxInt(d.Offend, 0),
	}
}

func maxInt(a, b int) int {
	if a > b {
		return a
	}

	return b
}

func vm32(v, m uint64) []interface{} { return []interface{}{pfcpx.V32(v), pfcpx.V32(m)} }
func vm16(v, m uint64) []interface{} { return []interface{}{pfcpx.V16(v), pfcpx.V16(m)} }

func (w *World) dpJSON() map[string]interface{} {
	if w.LightDp && w.P4 == nil { // the tables are not part of what this history is judged by (histories with very many sessions)
		e := []map[string]interface{}{}
		return map[string]interface{}{"pdr": e, "far": e, "appQer": e, "sessQer": e, "slice": e}
	}

	t := w.Bess.Snapshot()
	pdr := []map[string]interface{}{}

	for _, e := range t.Pdr {
		pdr = append(pdr, map[string]interface{}{
			"iface": vm16(e.Values[0], e.Masks[0]), "tip": vm32(e.Values[1], e.Masks[1]), "teid": vm32(e.Values[2], e.Masks[2]),
			"sip": vm32(e.Values[3], e.Masks[3]), "dip": vm32(e.Values[4], e.Masks[4]),
			"sp": vm16(e.Values[5], e.Masks[5]), "dp": vm16(e.Values[6], e.Masks[6]), "proto": vm16(e.Values[7], e.Masks[7]),
			"pdr": pfcpx.V16(e.Valuesv[0]), "fseid": w.UpTok.Get(e.Valuesv[1]), "ctr": pfcpx.V32(e.Valuesv[2]),
			"qer": pfcpx.V32(e.Valuesv[3]), "far": pfcpx.V32(e.Valuesv[4]), "gate": pfcpx.V16(e.Gate), "prio": pfcpx.V32(uint64(e.Priority)),
		})
	}

	far := []map[string]interface{}{}
	for _, e := range t.Far {
		far = append(far, map[string]interface{}{
			"far": pfcpx.V32(e.Fields[0]), "fseid": w.UpTok.Get(e.Fields[1]), "action": pfcpx.V16(e.Values[0]), "ttype": pfcpx.V16(e.Values[1]),
			"tsrc": pfcpx.V32(e.Values[2]), "tdst": pfcpx.V32(e.Values[3]), "teid": pfcpx.V32(e.Values[4]), "port": pfcpx.V16(e.Values[5]),
			"gate": pfcpx.V16(e.Gate),
		})
	}

	qer := func(es []fakebess.QerEntry, app bool) []map[string]interface{} {
		out := []map[string]interface{}{}

		for _, e := range es {
			m := map[string]interface{}{"gate": pfcpx.V16(e.Gate), "cir": pfcpx.Big(e.Cir), "pir": pfcpx.Big(e.Pir),
				"cbs": pfcpx.Big(e.Cbs), "pbs": pfcpx.Big(e.Pbs), "ebs": pfcpx.Big(e.Ebs)}
			if app {
				m["iface"], m["qer"], m["fseid"] = pfcpx.V16(e.Fields[0]), pfcpx.V32(e.Fields[1]), w.UpTok.Get(e.Fields[2])
				if len(e.Values) > 0 {
					m["qfi"] = pfcpx.V16(e.Values[0])
				} else {
					m["qfi"] = -1
				}
			} else {
				m["iface"], m["fseid"] = pfcpx.V16(e.Fields[0]), w.UpTok.Get(e.Fields[1])
			}

			out = append(out, m)
		}

		return out
	}

	slice := []map[string]interface{}{}
	for _, e := range t.Slice {
		slice = append(slice, map[string]interface{}{"action": pfcpx.V16(e.Fields[0]), "ttype": pfcpx.V16(e.Fields[1]), "gate": pfcpx.V16(e.Gate),
			"cir": pfcpx.Big(e.Cir), "pir": pfcpx.Big(e.Pir), "cbs": pfcpx.Big(e.Cbs), "pbs": pfcpx.Big(e.Pbs), "ebs": pfcpx.Big(e.Ebs), "deduct": int(e.DeductLen + 1)})
	}

	return map[string]interface{}{"pdr": pdr, "far": far, "appQer": qer(t.AppQer, true), "sessQer": qer(t.SessQer, false), "slice": slice}
}

// EventCount returns how many reported verifPoint events have the given name and argument prefix.
func (w *World) EventCount(name, argPrefix string) int {
	w.evMu.Lock()
	defer w.evMu.Unlock()

	n := 0
	for _, e := range w.evLog {
		if e.Name == name && strings.HasPrefix(e.Args, argPrefix) {
			n++
		}
	}

	return n
}

// WaitEventCount waits until EventCount(name, argPrefix) >= n. Returns false on timeout (also when hooks are absent).
func (w *World) WaitEventCount(name, argPrefix string, n int, timeout time.Duration) bool {
	deadline := time.Now().Add(timeout)
	for time.Now().Before(deadline) {
		if w.EventCount(name, argPrefix) >= n {
			return true
		}

		if w.Agent == nil || !w.Agent.Alive() {
			return false
		}

		time.Sleep(500 * time.Microsecond)
	}

	return false
}

// snapJSON asks the agent for its guarded state snapshot and projects it. The projection only re-encodes.
func (w *World) snapJSON() map[string]interface{} {
	none := map[string]interface{}{"has": false, "ipHeld": []interface{}{}, "ipFree": 0, "teidCount": 0, "store": []interface{}{}, "gauge": 0, "connected": false}

	if w.Agent == nil || !w.Agent.Alive() {
		return none
	}

	raw, err := w.Agent.Snapshot(2 * time.Second)
	if err != nil {
		return none
	}

	var sn struct {
		Connected bool              `json:"connected"`
		IPHeld    map[string]string `json:"ipHeld"`
		IPFree    int               `json:"ipFree"`
		TeidCount int               `json:"teidCount"`
		Gauge     int               `json:"gauge"`
		Conns     map[string]struct {
			Seids []string `json:"seids"`
		} `json:"conns"`
		Up4 *struct {
			CtrOut      []int `json:"ctrOut"`
			AppCellOut  []int `json:"appCellOut"`
			SessCellOut []int `json:"sessCellOut"`
			PeerOut     []int `json:"peerOut"`
			PeerDup     []int `json:"peerDup"`
			AppIDOut    []int `json:"appIdOut"`
			AppIDDup    []int `json:"appIdDup"`
			StoredCtr   []int `json:"storedCtr"`
			Meters      []struct {
				Fseid string `json:"fseid"`
				Qer   int    `json:"qer"`
				Type  int    `json:"type"`
				Ul    int    `json:"ul"`
				Dl    int    `json:"dl"`
			} `json:"meters"`
			Peers []struct {
				ID    int    `json:"id"`
				Dst   string `json:"dst"`
				Users int    `json:"users"`
			} `json:"peers"`
			Apps []struct {
				ID    int `json:"id"`
				Users int `json:"users"`
			} `json:"apps"`
		} `json:"up4"`
	}

	if json.Unmarshal([]byte(raw), &sn) != nil {
		return none
	}

	held := []map[string]interface{}{}

	for k, v := range sn.IPHeld {
		var seid uint64
		fmt.Sscanf(k, "%d", &seid)
		held = append(held, map[string]interface{}{"u": w.UpTok.Get(seid), "ip": pfcpx.V32(uint64(pfcpx.IP4(net.ParseIP(v))))})
	}

	store := []map[string]interface{}{}

	for addr, c := range sn.Conns {
		name := "unknown:" + addr

		for pn, p := range w.Peers {
			if p.LocalAddr() == addr {
				name = pn
			}
		}

		toks := []string{}

		for _, s := range c.Seids {
			var seid uint64
			fmt.Sscanf(s, "%d", &seid)
			toks = append(toks, w.UpTok.Get(seid))
		}

		store = append(store, map[string]interface{}{"peer": name, "seids": toks})
	}

	free := sn.IPFree
	if free > 65535 {
		free = 65535
	}

	tc := sn.TeidCount
	if tc > 65535 {
		tc = 65535
	}

	g := sn.Gauge
	if g < 0 || g > 65535 {
		g = 65535
	}

	out := map[string]interface{}{"has": true, "ipHeld": held, "ipFree": free, "teidCount": tc, "store": store, "gauge": g, "connected": sn.Connected}

	if u := sn.Up4; u != nil {
		il := func(x []int) []int {
			if x == nil {
				return []int{}
			}

			sort.Ints(x)

			return x
		}

		meters := []map[string]interface{}{}

		for _, m := range u.Meters {
			var seid uint64
			fmt.Sscanf(m.Fseid, "%d", &seid)
			meters = append(meters, map[string]interface{}{"u": w.UpTok.Get(seid), "qer": m.Qer, "type": m.Type, "ul": m.Ul, "dl": m.Dl})
		}

		peers := []map[string]interface{}{}

		for _, p := range u.Peers {
			var dst uint64
			fmt.Sscanf(p.Dst, "%d", &dst)
			peers = append(peers, map[string]interface{}{"id": p.ID, "dst": pfcpx.V32(dst), "users": p.Users})
		}

		apps := []map[string]interface{}{}
		for _, a := range u.Apps {
			apps = append(apps, map[string]interface{}{"id": a.ID, "users": a.Users})
		}

		out["up4"] = map[string]interface{}{"ctrOut": il(u.CtrOut), "appCellOut": il(u.AppCellOut), "sessCellOut": il(u.SessCellOut),
			"peerOut": il(u.PeerOut), "peerDup": il(u.PeerDup), "appIdOut": il(u.AppIDOut), "appIdDup": il(u.AppIDDup),
			"meters": meters, "peers": peers, "apps": apps, "storedCtr": il(u.StoredCtr)}
	}

	return out
}

// DropNotifySocket closes the notify listener and removes its socket file: the next incarnation of the agent
// is configured to use it but cannot dial it (an environment fault at start-up).
func (w *World) DropNotifySocket() {
	if w.NotifyL != nil {
		w.NotifyL.Close()
		w.NotifyL = nil
	}

	if w.NotifyC != nil {
		w.NotifyC.Close()
		w.NotifyC = nil
	}

	_ = os.Remove(filepath.Join(w.Dir, "notify.sock"))
	w.notifyDropped = true
}

var (
	reRaceBlock = regexp.MustCompile(`(?s)WARNING: DATA RACE\n(.*?)\n==================`)
	reRaceFrame = regexp.MustCompile(`(?m)^\s+(/repo/[^\s:]+):(\d+)`)
)

// RaceReports reduces every data-race report in the agent's output to the unordered pair of the topmost repository
// frames of its two accesses ("fileA:line|fileB:line"); hook files are skipped.
func RaceReports(stderr string) []string {
	seen := map[string]bool{}

	var out []string

	for _, m := range reRaceBlock.FindAllStringSubmatch(stderr, -1) {
		// the two accesses are the first two stanzas of the report
		stanzas := strings.Split(m[1], "\n\n")

		var tops []string

		for _, st := range stanzas {
			if len(tops) == 2 {
				break
			}

			if !(strings.Contains(st, "Write at") || strings.Contains(st, "Read at") || strings.Contains(st, "Previous write at") || strings.Contains(st, "Previous read at")) {
				continue
			}

			top := "external"

			for _, fm := range reRaceFrame.FindAllStringSubmatch(st, -1) {
				if strings.Contains(fm[1], "verif_on.go") {
					continue
				}

				top = strings.TrimPrefix(fm[1], "/repo/") + ":" + fm[2]

				break
			}

			tops = append(tops, top)
		}

		if len(tops) == 2 {
			if tops[0] > tops[1] {
				tops[0], tops[1] = tops[1], tops[0]
			}

			k := tops[0] + "|" + tops[1]
			if !seen[k] {
				seen[k] = true
				out = append(out, k)
			}
		}
	}

	return out
}

// RecordRaces writes one "race" line per distinct report of the current incarnation (call after it has ended).
func (w *World) RecordRaces() int {
	if w.Agent == nil {
		return 0
	}

	rs := RaceReports(w.Agent.Stderr())
	for _, r := range rs {
		w.emit(map[string]interface{}{"ev": "race", "pair": r})
	}

	return len(rs)
}

// RandomScheduler arms the blocking gate at every scheduling point of the agent and releases the parked goroutines
// one at a time in a seeded random order: the interleaving of the agent's goroutines at those points is then chosen
// by the harness instead of by timing. Stop disarms the gates and releases everything.
type RandomScheduler struct {
	w    *World
	stop chan struct{}
	done chan struct{}
}

func (w *World) StartRandomScheduler(seed int64, maxDelay time.Duration) *RandomScheduler {
	rs := &RandomScheduler{w: w, stop: make(chan struct{}), done: make(chan struct{})}
	_ = w.Agent.Gate("*", true)

	go func() {
		defer close(rs.done)

		rng := newRand(seed)
		released := map[int]bool{}
		firstSeen := map[int]time.Time{}

		// one class of steps is stalled in this run: its goroutines stay parked for `hold` while the others proceed
		// (orderings that need one goroutine to be slow - e.g. a teardown that outlasts the node's patience)
		victims := []string{"", "conn.shutdown", "node.stop", "conn.hb", "conn.serve", "conn.reader", "sess.", "conn.new", "node.done"}
		victim := victims[rng.Intn(len(victims))]
		hold := time.Duration(20+rng.Intn(200)) * time.Millisecond
		// with heartbeats on, a class of steps held for longer than the heartbeat budget makes the agent give the
		// peer up (e.g. the reader goroutine is started after "conn.new.afterFirst"): that is the schedule's doing
		if w.SchedMaxHold > 0 && hold > w.SchedMaxHold {
			hold = w.SchedMaxHold
		}

		for {
			select {
			case <-rs.stop:
				return
			case <-w.Agent.Done():
				return
			default:
			}

			now := time.Now()

			w.evMu.Lock()
			var parked []int
			for _, e := range w.evLog {
				if !e.Gated || released[e.Seq] {
					continue
				}

				if _, ok := firstSeen[e.Seq]; !ok {
					firstSeen[e.Seq] = now
				}

				if victim != "" && strings.HasPrefix(e.Name, victim) && now.Sub(firstSeen[e.Seq]) < hold {
					continue
				}

				parked = append(parked, e.Seq)
			}
			w.evMu.Unlock()

			if len(parked) == 0 {
				time.Sleep(300 * time.Microsecond)
				continue
			}

			seq := parked[rng.Intn(len(parked))]
			released[seq] = true
			_ = w.Agent.Go(seq)

			if maxDelay > 0 {
				time.Sleep(time.Duration(rng.Int63n(int64(maxDelay) + 1)))
			}
		}
	}()

	return rs
}

func (rs *RandomScheduler) Stop() {
	close(rs.stop)
	<-rs.done

	if rs.w.Agent != nil && rs.w.Agent.Alive() {
		_ = rs.w.Agent.Gate("*", false)

		rs.w.evMu.Lock()
		var all []int
		for _, e := range rs.w.evLog {
			if e.Gated {
				all = append(all, e.Seq)
			}
		}
		rs.w.evMu.Unlock()

		for _, s := range all {
			_ = rs.w.Agent.Go(s)
		}
	}
}

#!/usr/bin/env python3
"""Hosts conf/route_control.py of the repository under stubs (pyroute2, pybess, scapy) and replays kernel event
histories into the real RouteController handlers.  After every event the module graph held by the recording
BESS stand-in is written as one JSON line (no expectations are computed here).

usage: c20_host.py <repo> <out.ndjson> <tier> <seed> <shard> <nshards>
"""
import errno as _errno, importlib.util, itertools, json, logging, random, sys, threading, time as _time, types

repo, out_path, tier, seed, shard, nshards = sys.argv[1], sys.argv[2], sys.argv[3], int(sys.argv[4]), int(sys.argv[5]), int(sys.argv[6])

# ---------------------------------------------------------------- stubs installed before the file is loaded
class BessError(Exception):
    def __init__(self, code, msg=""):
        super().__init__(msg)
        self.code = code

class BESS:
    """Recording stand-in with the semantics of bessd the controller relies on."""
    Error = BessError
    class RPCError(Exception):
        pass
    class APIError(Exception):
        pass
    instance = None
    def __init__(self):
        BESS.instance = self
        self.reset([])
    def reset(self, ifaces):
        self.routes = {i + "Routes": {} for i in ifaces}      # module -> {(prefix, len): gate}
        self.modules = {}                                     # update module name -> mac value
        self.links = {}                                       # (module, ogate) -> (next module, igate)
        self.static = set(self.routes) | {i + "Merge" for i in ifaces}
        self.paused = 0
        self.calls = 0
        self.hook = None                                      # called at the start of every command (concurrent deliveries)
    def _enter(self):
        if self.hook: self.hook()
    def is_connected(self): return True
    def connect(self, grpc_url=None): pass
    def pause_all(self): self.paused += 1
    def resume_all(self): self.paused -= 1
    def run_module_command(self, name, cmd, argtype, arg):
        self._enter()
        self.calls += 1
        if name not in self.routes:
            raise BessError(_errno.ENOENT, "no module " + name)
        key = (arg["prefix"], int(arg["prefix_len"]))
        if cmd == "add":
            self.routes[name][key] = int(arg["gate"])
        elif cmd == "delete":
            if key not in self.routes[name]:
                raise BessError(_errno.ENOENT, "no such route")
            del self.routes[name][key]
        else:
            raise BessError(_errno.EINVAL, cmd)
    def create_module(self, mclass, name, arg):
        self._enter()
        self.calls += 1
        if name in self.modules or name in self.static:
            raise BessError(_errno.EEXIST, "exists")
        self.modules[name] = arg["fields"][0]["value"]
    def destroy_module(self, name):
        self._enter()
        self.calls += 1
        if name not in self.modules:
            raise BessError(_errno.ENOENT, "no module " + name)
        del self.modules[name]
        self.links = {k: v for k, v in self.links.items() if k[0] != name and v[0] != name}
    def connect_modules(self, m1, m2, ogate=0, igate=0):
        self._enter()
        self.calls += 1
        for m in (m1, m2):
            if m not in self.modules and m not in self.static:
                raise BessError(_errno.ENOENT, "no module " + m)
        if (m1, ogate) in self.links:
            raise BessError(_errno.EBUSY, "ogate in use")
        self.links[(m1, ogate)] = (m2, igate)

pybess = types.ModuleType("pybess"); pybess_bess = types.ModuleType("pybess.bess")
pybess_bess.BESS = BESS; pybess_bess.errno = _errno; pybess_bess.__all__ = ["BESS", "errno"]
sys.modules["pybess"] = pybess; sys.modules["pybess.bess"] = pybess_bess
pr2 = types.ModuleType("pyroute2"); pr2.NDB = object; pr2.IPRoute = object
for name in ["pyroute2.netlink", "pyroute2.netlink.rtnl", "pyroute2.netlink.rtnl.rtmsg", "pyroute2.netlink.rtnl.ndmsg"]:
    sys.modules[name] = types.ModuleType(name)
sys.modules["pyroute2.netlink.rtnl.rtmsg"].rtmsg = type("rtmsg", (), {})
sys.modules["pyroute2.netlink.rtnl.ndmsg"].ndmsg = type("ndmsg", (), {})
sys.modules["pyroute2"] = pr2
scapy = types.ModuleType("scapy"); scapy_all = types.ModuleType("scapy.all")
pings = []
class _L:
    def __init__(self, **kw): self.kw = kw
    def __truediv__(self, o): return self
scapy_all.ICMP = _L; scapy_all.IP = _L; scapy_all.send = lambda pkt: pings.append(1)
sys.modules["scapy"] = scapy; sys.modules["scapy.all"] = scapy_all

spec = importlib.util.spec_from_file_location("route_control", repo + "/conf/route_control.py")
rc = importlib.util.module_from_spec(spec); spec.loader.exec_module(rc)
logging.disable(logging.CRITICAL)
rc.time.sleep = lambda s: None          # retries of the BESS wrapper do not wait
rc.BessController.SLEEP_S = 0

class FakeNDB:
    def __init__(self, ifaces):
        self.interfaces = {i + 1: {"ifname": n} for i, n in enumerate(ifaces)}
        self.table = []
        ndb = self
        self.hook = None      # called inside neighbours.dump(), after the table was read (concurrent deliveries)
        class N:
            def dump(self_inner):
                res = list(ndb.table)
                if ndb.hook: ndb.hook()
                return res
        self.neighbours = N()
    def ifindex(self, name):
        return [k for k, v in self.interfaces.items() if v["ifname"] == name][0]

ALL_IFACES = ["access", "core", "mgmt"]       # "mgmt" is not managed
MANAGED = ["access", "core"]

def fresh():
    ndb = FakeNDB(ALL_IFACES)
    bc = rc.BessController("localhost", "10514")
    BESS.instance.reset(MANAGED)
    ctl = rc.RouteController(bess_controller=bc, ndb=ndb, ipr=None, interfaces=MANAGED)
    return ctl, ndb, BESS.instance

def route_msg(event, ndb, iface, prefix, plen, nh):
    attrs = [("RTA_GATEWAY", nh), ("RTA_OIF", ndb.ifindex(iface))]
    if not (plen == 0 and prefix == "0.0.0.0"):
        attrs.append(("RTA_DST", prefix))
    return {"event": event, "attrs": attrs, "dst_len": plen}

def graph(b):
    routes = [{"mod": m, "prefix": k[0], "len": k[1], "gate": g} for m, t in sorted(b.routes.items()) for k, g in sorted(t.items())]
    mods = [{"name": n, "mac": "%012X" % v} for n, v in sorted(b.modules.items())]
    links = [{"from": k[0], "ogate": k[1], "to": v[0]} for k, v in sorted(b.links.items())]
    return {"routes": routes, "mods": mods, "links": links}

out = open(out_path, "w")
lines = 0; seqs = 0
def emit(obj):
    global lines
    out.write(json.dumps(obj) + "\n"); lines += 1

def run_sequence(evs):
    """evs: list of ("NR"|"DR", iface, prefix, len, nh) or ("NN", nh, mac)"""
    global seqs
    ctl, ndb, b = fresh()
    emit({"op": "reset", "managed": MANAGED})
    for ev in evs:
        died = ""
        try:
            if ev[0] == "NN":
                ndb.table.append({"dst": ev[1], "lladdr": ev[2]})
                ctl._netlink_neighbor_handler(None, {"event": "RTM_NEWNEIGH", "attrs": [("NDA_DST", ev[1]), ("NDA_LLADDR", ev[2])]})
                line = {"op": "neigh", "nh": ev[1], "mac": ev[2].replace(":", "").upper()}
            else:
                kind = "RTM_NEWROUTE" if ev[0] == "NR" else "RTM_DELROUTE"
                ctl._netlink_route_handler(None, route_msg(kind, ndb, ev[1], ev[2], ev[3], ev[4]))
                line = {"op": "newroute" if ev[0] == "NR" else "delroute", "iface": ev[1], "prefix": ev[2], "len": ev[3], "nh": ev[4]}
        except Exception as e:       # the handler raised: observation, not a harness failure
            died = type(e).__name__ + ": " + str(e)
            line = {"op": "raised", "what": died, "event": list(ev)}
        line["g"] = graph(b)
        emit(line)
        if died:
            break
    seqs += 1

def deliver(ctl, ndb, ev):
    """one kernel event into the handler; returns the trace line (without graph)"""
    try:
        if ev[0] == "NN":
            ndb.table.append({"dst": ev[1], "lladdr": ev[2]})
            ctl._netlink_neighbor_handler(None, {"event": "RTM_NEWNEIGH", "attrs": [("NDA_DST", ev[1]), ("NDA_LLADDR", ev[2])]})
            return {"op": "neigh", "nh": ev[1], "mac": ev[2].replace(":", "").upper()}
        kind = "RTM_NEWROUTE" if ev[0] == "NR" else "RTM_DELROUTE"
        ctl._netlink_route_handler(None, route_msg(kind, ndb, ev[1], ev[2], ev[3], ev[4]))
        return {"op": "newroute" if ev[0] == "NR" else "delroute", "iface": ev[1], "prefix": ev[2], "len": ev[3], "nh": ev[4]}
    except Exception as e:
        return {"op": "raised", "what": type(e).__name__ + ": " + str(e), "event": list(ev)}

def run_pair(prefix, ev1, ev2, hold="bess"):
    """the kernel delivers ev1 and ev2 on two threads: ev1's handler is held inside its first BESS command while ev2 is
    delivered (a handler that takes the controller's lock waits; one that does not runs into the half-done state); the
    state after both is recorded as ONE line {"op":"pair","evs":[..],"g":..} - the two events commute in the kernel"""
    global seqs
    ctl, ndb, b = fresh()
    emit({"op": "reset", "managed": MANAGED})
    for ev in prefix:
        line = deliver(ctl, ndb, ev); line["g"] = graph(b); emit(line)
        if line["op"] == "raised": return
    parked, release, res = threading.Event(), threading.Event(), {}
    def hook():
        if threading.current_thread() is ta and not parked.is_set():
            parked.set(); release.wait(5.0)
    ta = threading.Thread(target=lambda: res.__setitem__(1, deliver(ctl, ndb, ev1)))
    tb = threading.Thread(target=lambda: res.__setitem__(2, deliver(ctl, ndb, ev2)))
    if hold == "ndb":     # ev1's handler is held inside its neighbour lookup instead (it has read the table already)
        ndb.hook = hook
    else:
        b.hook = hook
    ta.start()
    while ta.is_alive() and not parked.is_set(): _time.sleep(0.0005)
    tb.start(); tb.join(0.04)
    release.set(); ta.join(10); tb.join(10)
    b.hook = None; ndb.hook = None
    l1, l2 = res.get(1, {"op": "raised", "what": "hung", "event": list(ev1)}), res.get(2, {"op": "raised", "what": "hung", "event": list(ev2)})
    for x in (l1, l2):
        if x["op"] == "raised":
            x["g"] = graph(b); emit(x); return
    emit({"op": "pair", "evs": [l1, l2], "held": parked.is_set(), "g": graph(b)})
    seqs += 1

MAC = {"10.0.0.1": "aa:bb:cc:00:00:01", "10.0.0.2": "aa:bb:cc:00:00:02", "10.0.1.1": "aa:bb:cc:00:01:01"}
ROUTES = [("access", "192.168.1.0", 24, "10.0.0.1"), ("access", "192.168.2.0", 24, "10.0.0.1"), ("access", "0.0.0.0", 0, "10.0.0.2"),
          ("core", "172.16.0.0", 16, "10.0.1.1")]

def valid_histories(depth):
    """all kernel-consistent histories: a route is added only when absent and deleted only when present,
    a neighbour resolves at most once"""
    def rec(prefix, present, known, d):
        if d == 0:
            yield list(prefix); return
        yield list(prefix)
        for r in ROUTES:
            if r in present:
                yield from rec(prefix + [("DR",) + r], present - {r}, known, d - 1)
            else:
                yield from rec(prefix + [("NR",) + r], present | {r}, known, d - 1)
        for nh, mac in MAC.items():
            if nh not in known:
                yield from rec(prefix + [("NN", nh, mac)], present, known | {nh}, d - 1)
    seen = set()
    for h in rec([], frozenset(), frozenset(), depth):
        t = tuple(h)
        if len(h) == depth and t not in seen:       # maximal histories only (their prefixes are judged line by line)
            seen.add(t); yield h

depth = 5 if tier == "quick" else 7
for i, h in enumerate(valid_histories(depth)):
    if i % nshards == shard:
        run_sequence(h)

# three (four) resolved next hops on one interface, then every add / delete history of their routes: which gate a next hop
# gets depends on the order in which earlier ones came and went
MAC3 = {"10.0.0.1": "aa:bb:cc:00:00:01", "10.0.0.2": "aa:bb:cc:00:00:02", "10.0.0.3": "aa:bb:cc:00:00:03", "10.0.0.4": "aa:bb:cc:00:00:04"}
R3 = [("access", "192.168.1.0", 24, "10.0.0.1"), ("access", "192.168.4.0", 24, "10.0.0.2"), ("access", "192.168.5.0", 24, "10.0.0.3")]
if tier != "quick":
    R3.append(("access", "192.168.6.0", 24, "10.0.0.4"))
def gate_histories(depth):
    def rec(prefix, present, d):
        if d == 0:
            yield list(prefix); return
        for r in R3:
            if r in present: yield from rec(prefix + [("DR",) + r], present - {r}, d - 1)
            else: yield from rec(prefix + [("NR",) + r], present | {r}, d - 1)
    yield from rec([], frozenset(), depth)
for i, h in enumerate(gate_histories(6 if tier == "quick" else 7)):
    if i % nshards == shard:
        nhs = sorted({r[3] for r in R3})
        run_sequence([("NN", nh, MAC3[nh]) for nh in nhs] + h)

# seeded longer histories, also with an unmanaged interface and re-resolving neighbours
rng = random.Random(seed * 1000 + shard)
extra_routes = ROUTES + [("mgmt", "10.99.0.0", 16, "10.0.0.1"), ("core", "172.17.0.0", 16, "10.0.1.1"), ("access", "192.168.3.0", 25, "10.0.0.2")]
for k in range(40 if tier == "quick" else 1500):
    present, known, h = set(), set(), []
    for _ in range(rng.randint(6, 16)):
        c = rng.random()
        if c < 0.45:
            r = rng.choice(extra_routes)
            if r not in present: present.add(r); h.append(("NR",) + r)
        elif c < 0.75 and present:
            r = rng.choice(sorted(present)); present.discard(r); h.append(("DR",) + r)
        else:
            nh = rng.choice(sorted(MAC))
            if nh not in known: known.add(nh); h.append(("NN", nh, MAC[nh]))
    run_sequence(h)

# pairs of events delivered at the same time (the handlers run on pyroute2's callback threads and on the ping thread):
# random kernel-consistent prefix, then two events that are both possible after it and commute in the kernel
def enabled(present, known):
    evs = [("DR",) + r for r in sorted(present)] + [("NR",) + r for r in ROUTES if r not in present]
    return evs + [("NN", nh, MAC[nh]) for nh in sorted(MAC) if nh not in known]
prng = random.Random(seed * 7919 + shard)
for k in range(60 if tier == "quick" else 1200):
    present, known, h = set(), set(), []
    for _ in range(prng.randint(1, 5)):
        ev = prng.choice(enabled(present, known)); h.append(ev)
        if ev[0] == "NR": present.add(ev[1:])
        elif ev[0] == "DR": present.discard(ev[1:])
        else: known.add(ev[1])
    cands = enabled(present, known)
    # ev1 should have something to install: a neighbour with waiting routes, or a route through a resolved next hop
    busy = [e for e in cands if (e[0] == "NN" and any(r[3] == e[1] for r in present)) or (e[0] == "NR" and e[4] in known)]
    if not busy or len(cands) < 2: continue
    ev1 = prng.choice(busy)
    ev2 = prng.choice([e for e in cands if e != ev1])
    run_pair(h, ev1, ev2)
    # a route through a next hop that is not resolved yet, held inside its neighbour lookup while the neighbour resolves
    waiting = [e for e in cands if e[0] == "NR" and e[4] not in known]
    if waiting:
        ev1 = prng.choice(waiting)
        run_pair(h, ev1, ("NN", ev1[4], MAC[ev1[4]]), hold="ndb")

out.close()
json.dump({"lines": lines, "seqs": seqs}, open(out_path + ".summary", "w"))

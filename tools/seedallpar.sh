#!/bin/bash
# usage: tools/seedallpar.sh [-j N] [seed ids...]  -- like seedall.sh, but through seedpar.sh: N changes at a time, /repo untouched.
# One line per change: CAUGHT / MISSED / NOAPPLY (property = the check named first in meta.json "detected_by", fallback breaks[0]).
cd /verif
J=4; if [ "${1:-}" = "-j" ]; then J=$2; shift 2; fi
ids="$@"; [ -z "$ids" ] && ids=$(ls seeded)
one() {
  id=$1; d=/verif/seeded/$id; [ -f $d/meta.json ] || exit 0
  p=$(python3 - "$d/meta.json" <<'PY'
import json,re,sys
m=json.load(open(sys.argv[1]))
x=re.findall(r'\((C\d\d) (?:quick|thorough)', m.get('detected_by',''))
print(x[0] if x else m['breaks'][0])
PY
)
  out=$(tools/seedpar.sh $d $p quick 2>&1); rc=$?
  case $rc in 1) echo "$id $p CAUGHT";; 9) echo "$id $p NOAPPLY";; *) echo "$id $p MISSED rc=$rc: $(echo $out | cut -c1-160)";; esac
  [ $rc = 1 ] && rm -rf /tmp/sx/$id-$p
}
export -f one
echo $ids | tr ' ' '\n' | xargs -P $J -I{} bash -c 'one {}'

#!/usr/bin/env python3
# usage: tools/u4hist.py <trace> [upto]  -- one line per step of a UP4 trace (debugging aid)
import json,sys
upto=int(sys.argv[2]) if len(sys.argv)>2 else 10**9
def ip(v): return "%d.%d.%d.%d"%(v[0]>>8,v[0]&255,v[1]>>8,v[1]&255)
for i,l in enumerate(open(sys.argv[1])):
    if i+1>upto: break
    e=json.loads(l)
    if e['ev']=='start':
        print(i+1,'START cmds',e['cmds'],'errs',e['errs'],'up4cfg',e['cfg']['up4'])
    elif e['ev']=='req':
        r=e['resps'][0] if e['resps'] else None
        q=e['req']
        d=''
        if e['kind'] in('estab','mod','del'):
            d=' hdr=%s cpdr=%s updr=%s rpdr=%s cfar=%s ufar=%s cqer=%s uqer=%s rqer=%s'%(q['hdr'],[(p['id'],p['src'],p['fteid'],p['teid'][1],p['sdf']) for p in q['cpdr']],[p['id'] for p in q['updr']],q['rpdr'],
               [(f['id'][1],f['action'],ip(f['peer'])) for f in q['cfar']],[(f['id'][1],f['action'],ip(f['peer'])) for f in q['ufar']],[(x['id'][1],x['qfi']) for x in q['cqer']],[(x['id'][1],x['qfi'],x['ulGate'],x['dlGate']) for x in q['uqer']],[x[1] for x in q['rqer']])
        bad=[(w['op'],w['kind'],w['result']) for w in e.get('writes',[]) if w['result']!=0]
        print(i+1,e['peer'],e['kind'],'cause',r and r['cause'],'fseid',r and r.get('fseid'),'writes',len(e.get('writes',[])),'bad',bad,d)
        dp=e['dp']
        print('     tables: sessUL',[(x['teid'][1],x['smeter']) for x in dp['sessUL']],'sessDL',[(ip(x['ue']),x['act'],x['peer'],x['smeter']) for x in dp['sessDL']],
              'termUL',[(ip(x['ue']),x['app'],x['act'],x['ctr'],x['ameter']) for x in dp['termUL']],'termDL',[(ip(x['ue']),x['app'],x['act'],x['ctr'],x['ameter'],x['qfi'],x['tc']) for x in dp['termDL']],
              'apps',[x['app'] for x in dp['apps']],'peers',[(x['id'],ip(x['dst'])) for x in dp['peers']],'am',[x['idx'] for x in dp['appMeters']],'sm',[x['idx'] for x in dp['sessMeters']])
    else: print(i+1,e['ev'],e.get('peer',''))

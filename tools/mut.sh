#!/bin/bash
# usage: tools/mut.sh <file under /repo> <sed expression> <prop> [tier]   -- smoke-test a check against a one-line change
# or:    tools/mut.sh --patch <patch file> <prop> [tier]
set -u
if [ -n "$(git -C /repo status --porcelain)" ]; then echo "/repo is dirty: commit or revert first"; exit 9; fi
if [ "$1" = "--patch" ]; then git -C /repo apply "$2" || exit 9; prop=$3; tier=${4:-quick}
else sed -i "$2" "/repo/$1"; prop=$3; tier=${4:-quick}; fi
git -C /repo diff --stat | tail -1
if [ -z "$(git -C /repo status --porcelain)" ]; then echo "change did not apply"; exit 9; fi
(cd /repo && GOFLAGS=-mod=mod GOPROXY=off go build ./pfcpiface/ 2>&1 | head -5)
for p in $prop; do (cd /verif && bin/check $p $tier 2>&1 | cut -c1-${CUT:-260} | grep -v "^KNOWN" | tail -${TAILN:-4}); done
git -C /repo checkout -- .

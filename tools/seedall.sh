#!/bin/bash
# usage: tools/seedall.sh [seed ids...]  -- runs, for every seeded change, the check named first in its meta.json "detected_by"
# (fallback: breaks[0]) against /repo with the change applied, and prints one line per change: CAUGHT / MISSED / NOAPPLY
cd /verif
ids="$@"; [ -z "$ids" ] && ids=$(ls seeded)
for id in $ids; do
  d=/verif/seeded/$id; [ -f $d/meta.json ] || continue
  p=$(python3 - "$d/meta.json" <<'PY'
import json,re,sys
m=json.load(open(sys.argv[1]))
x=re.findall(r'\((C\d\d) (?:quick|thorough)', m.get('detected_by',''))
print(x[0] if x else m['breaks'][0])
PY
)
  if [ -n "$(git -C /repo status --porcelain)" ]; then echo "/repo is dirty"; exit 9; fi
  if ! git -C /repo apply --check $d/patch.diff 2>/dev/null; then echo "$id $p NOAPPLY"; continue; fi
  git -C /repo apply $d/patch.diff
  out=$(timeout 1500 bin/check $p quick 2>&1 | grep -v "^KNOWN" | tail -1)
  git -C /repo checkout -- .
  case "$out" in *"exit 1"*) echo "$id $p CAUGHT";; *) echo "$id $p MISSED: $(echo $out | cut -c1-120)";; esac
done

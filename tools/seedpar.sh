#!/bin/bash
# usage: tools/seedpar.sh <seed dir | -> <property> [tier]
# Runs bin/check <property> against a PRIVATE copy of /repo's HEAD with the seeded change applied ("-": no change), inside a
# private mount namespace in which that copy is bind-mounted over /repo and the build / scratch / out / evidence directories
# of /verif are replaced by private ones.  /repo itself and /verif's evidence are never touched, so several of these can
# run at the same time (and next to a check of the unchanged tree).  Prints one line: <id> <prop> rc=<exit> <last line>.
# The private directory /tmp/sx/<id>-<prop>/ keeps log, out/ (replay material) and evidence/; the copy and the build are removed.
set -u
SD=$1; P=$2; TIER=${3:-quick}
if [ "$SD" = "-" ]; then id=none; else SD=$(realpath "$SD"); id=$(basename "$SD"); fi
S=/tmp/sx/$id-$P
rm -rf "$S"; mkdir -p "$S/repo" "$S/build" "$S/scratch" "$S/out" "$S/evidence"
git -C /repo archive HEAD | tar -x -C "$S/repo"
if [ "$SD" != "-" ]; then
  (cd "$S/repo" && patch -p1 -s --no-backup-if-mismatch < "$SD/patch.diff") || { echo "$id $P NOAPPLY"; rm -rf "$S"; exit 9; }
fi
unshare -m bash -c "mount --bind $S/repo /repo && mount --bind $S/build /verif/.build && mount --bind $S/scratch /verif/.scratch \
  && mount --bind $S/out /verif/out && mount --bind $S/evidence /verif/evidence && cd /verif \
  && VERIF_SEED=${VERIF_SEED:-1} timeout ${TMO:-1500} bin/check $P $TIER" > "$S/log" 2>&1
rc=$?
rm -rf "$S/repo" "$S/build" "$S/scratch"
echo "$id $P rc=$rc $(grep -v '^KNOWN' "$S/log" | grep -E 'VIOLATION|detail|INCONCLUSIVE' | head -2 | cut -c1-260 | tr '\n' ' ') | $(tail -1 "$S/log" | cut -c1-120)"
exit $rc

#!/usr/bin/env python3
"""Prints the generated tables of DESIGN.md section 11 (fixes, seeded changes)."""
import json, glob, os, re
V = os.path.dirname(os.path.dirname(os.path.abspath(__file__)))
d = json.load(open(os.path.join(V, "known_findings.json")))
print("#### Repaired defects (from known_findings.json: fixed)\n")
print("| property | /repo commit | what failed |\n|---|---|---|")
for f in d["fixed"]:
    m = re.match(r"fixed: property=(\S+) (\S+) (.*)", f)
    print("| %s | `%s` | %s |" % (m.group(1), m.group(2), m.group(3).replace("|", "\\|")))
print("\n#### Seeded changes (from seeded/*/meta.json)\n")
print("| id | change | needs | detected by | status |\n|---|---|---|---|---|")
for p in sorted(glob.glob(os.path.join(V, "seeded", "*", "meta.json"))):
    m = json.load(open(p))
    print("| %s | %s | %s | %s | %s |" % (m["id"], m["change"].replace("|", "\\|"), m.get("needs_to_manifest", "").replace("|", "\\|"), m.get("detected_by", "").replace("|", "\\|"), m.get("status", "").replace("|", "\\|")))

#!/bin/bash
# usage: tools/sweep.sh <seed> [tier] [ids...]   one line per check (run from /verif or a snapshot of it)
S=$1; T=${2:-quick}; shift; shift
ids="$@"; [ -z "$ids" ] && ids="C01 C02 C03 C04 C05 C06 C07 C08 C09 C10 C11 C12 C13 C14 C15 C16 C17 C18 C19 C20"
for p in $ids; do s=$(date +%s); out=$(VERIF_SEED=$S timeout 7200 bin/check $p $T 2>&1 | grep -v '^KNOWN' | grep -E "VIOLATION|INCONCLUSIVE|exit [0-9]" | cut -c1-300 | tr '\n' ' '); echo "$p seed=$S $(( $(date +%s)-s ))s: $out"; done

#!/usr/bin/env python3
"""usage: sesshist.py <trace> <upto line> <token>  -- prints the history of one session from a trace"""
import json,sys
path,upto,tok=sys.argv[1],int(sys.argv[2]),sys.argv[3]
for i,l in enumerate(open(path),1):
    if i>upto: break
    e=json.loads(l)
    if e['ev']!='req':
        print(i,e['ev']); continue
    r=e['req']; rs=e['resps'][0] if e['resps'] else {}
    mine = r.get('hdr')==tok or rs.get('fseid')==tok
    if not mine and e['kind'] not in ('release','assoc'): continue
    print(i,e['kind'],e['peer'],'hdr',r.get('hdr'),'->',rs.get('cause'),rs.get('fseid'))
    if e['kind'] in('estab','mod') and mine:
        for k in ['cpdr','updr']:
            for x in r[k]: print('   ',k, x['id'], x['src'], 'qers',x['qers'],'far',x['far'], 'prec',x['prec'], x['fteid'], x['teid'], x['ue'], x['ueip'], x['sdf'], json.dumps(x['flow'])[:150])
        for k in ['cfar','ufar']:
            for x in r[k]: print('   ',k, x)
        for k in ['cqer','uqer']:
            for x in r[k]: print('   ',k, x)
        for k in ['rpdr','rfar','rqer']:
            if r[k]: print('   ',k,r[k])
    if mine:
        for t in ['pdr','far','appQer','sessQer']:
          for x in e['dp'][t]:
            if x['fseid']==tok:
                if t=='pdr': print('      pdr', x['pdr'], 'qer',x['qer'],'far',x['far'],'prio',x['prio'],'teid',x['teid'][0],'sip',x['sip'],'dip',x['dip'],'sp',x['sp'],'dp',x['dp'],'proto',x['proto'])
                elif t=='far': print('      far', x)
                else: print('      ',t, x['iface'], x.get('qer'), 'gate',x['gate'],'pir',x['pir'])
        if e.get('markers'): print('      markers', e['markers'])

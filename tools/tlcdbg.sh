#!/bin/bash
# usage: tools/tlcdbg.sh <module> <cfg> <trace file>   -- runs one validation by hand and prints the tail
d=$(mktemp -d /verif/.scratch/dbg.XXXXXX); cp /verif/spec/*.tla /verif/spec/*.cfg $d/; cd $d
TRACE_FILE=$3 timeout ${TLC_TIMEOUT:-90} java -Xss64m -Djava.io.tmpdir=$d -cp /opt/veriftools/tla/tla2tools.jar:/opt/veriftools/tla/CommunityModules-deps.jar tlc2.TLC -metadir $d/md -noGenerateSpecTE -workers 1 -config $2 $1.tla > $d/out.txt 2>&1
grep -n "Error\|violated\|HW" $d/out.txt | head; tail -${4:-40} $d/out.txt; rm -rf $d

#!/bin/bash
# usage: tools/seedconfirm.sh <seed dir with patch.diff and demo_test.go> [test name regex]
# confirms in a scratch worktree: builds + existing tests pass with the change; demo fails with it and passes without
set -u
D=$1; RUN=${2:-Demo}
WT=/tmp/wt/confirm
export GOFLAGS=-mod=mod GOPROXY=off
[ -d $WT ] || git -C /repo worktree add -q $WT HEAD
git -C $WT checkout -q --detach $(git -C /repo rev-parse HEAD) 2>/dev/null; git -C $WT checkout -- . ; git -C $WT clean -fdq
git -C $WT apply $D/patch.diff || { echo "PATCH DOES NOT APPLY"; exit 1; }
(cd $WT && go build ./... && go build -tags verif ./pfcpiface/ ) || { echo "BUILD FAILS"; exit 1; }
(cd $WT && go test -vet=off -count=1 ./pfcpiface/... ./pkg/... ./cmd/... ./internal/... 2>&1 | grep -E "^(ok|FAIL|---)" | tr '\n' ' '); echo
for f in $D/*_test.go; do cp $f $WT/pfcpiface/; done
echo "-- demo WITH change:"; (cd $WT && go test -vet=off -count=1 -run "$RUN" ./pfcpiface/ 2>&1 | grep -E "^(ok|FAIL|--- FAIL|panic)" | head -5)
git -C $WT apply -R $D/patch.diff
echo "-- demo WITHOUT change:"; (cd $WT && go test -vet=off -count=1 -run "$RUN" ./pfcpiface/ 2>&1 | grep -E "^(ok|FAIL|--- FAIL|panic)" | head -5)
git -C $WT checkout -- . ; git -C $WT clean -fdq

#!/usr/bin/env python3
"""Regenerates /verif/MANIFEST.json from the table below (kept in one place so that it is always valid)."""
import json, os, subprocess, sys

HERE = os.path.dirname(os.path.abspath(__file__))
VERIF = os.path.dirname(HERE)
props = [json.loads(l)["id"] for l in open(os.path.join(VERIF, "properties.jsonl"))]

TRUST = ("TLC 1.8 and the CommunityModules; the projection code that re-encodes observations as tokens/limbs (no expectations in it); "
         "go-pfcp / protobuf / gRPC codecs; the harness datapath servers implement target semantics only")

# id -> (technique, level text, level_note, design_ref)
CLAIMED = {
 "C17": ("TLA+ R-spec PortRange (ExactCover) judged by TLC on recorded calls of the real expansion functions and of the real parser of the textual port field; exhaustive TLC check of the transcribed algorithms for W<=8",
         "TLC validates every recorded call/return of asComplexTernaryMatches, asTrivialTernaryMatch and CreatePortRangeCartesianProduct against the "
         "reference predicates ExactCover / WildcardOnlyForFull (evaluated on the RETURNED rules, so any exact expansion passes); the transcribed algorithms are "
         "model-checked exhaustively for all ranges of 5-, 6- and 8-bit port spaces and the oracle itself is validated against the naive set definition. "
         "Pure-function property: TLC acts as enumerator and evaluator of a relational post-condition (weak fit of the family, stated in DESIGN 7).",
         "Implementation coverage is systematic (boundary classes squared, every low port x boundary widths, boundary lows x all widths <= 102 in the thorough tier) plus seeded sampling, not the full 2^32 space. " + TRUST,
         "5 C17"),
 "C02": ("TLA+ R-spec Pfcp/TraceE2E: TLC validates traces of the real agent process (every datagram each peer received) against the C02 invariants",
         "The agent runs as a separate OS process (real start-up path, -tags verif) against the harness BESS server; seeded randomised histories over 1-3 peers "
         "(accepted / rejected requests of every dispatched type, injected response-type messages, 24-bit sequence-number and 64-bit SEID boundaries) are recorded step by step and TLC "
         "evaluates ExactlyOneResponse, ResponseTypeMatches, SequenceNumberEchoed, HeaderSeidAddressing, CauseCarried, EstablishmentResponseShape, CreatedPdrPerChosenValue and "
         "FseidAddressesSession after every consumed step of the reference state machine (associations, live sessions with CP/UP SEIDs).",
         "Histories are sampled, not enumerated; acceptance of valid requests is not asserted except that a deletion naming a live session is not refused; one response is judged within a silence window. " + TRUST,
         "5 C02"),
 "C03": ("TLA+ R-specs Pfcp + BessImage (image function of the live sessions' rules; ports compared by PortRange!ExactCoverPair) + GEN scripts from BessScript.tla replayed into the agent: TLC validates the BESS tables recorded after every step of the real agent",
         "After every accepted establishment / modification / deletion and after every (re)start - including SIGKILL of the agent and a new incarnation against the still populated server - TLC compares the "
         "content of the harness-owned BESS server (pdrLookup, farLookup, appQERLookup, sessionQERLookup) with the image the reference specification computes from the live sessions' current rules "
         "(TablesAreImage: nothing missing, nothing else present), and checks UnknownOrUnassociatedRejected, RejectedWritesNothing and StartClearsLookupModules. "
         "In addition (GEN) TLC generates every script of 4 (thorough: 5) operations over two sessions of different associations (spec/BessScript.tla, 2 211 / 26 256 scripts) and the harness replays them into the real agent. "
         "Listed known finding F-QER-RELABEL is tolerated through named slack only for sessions whose history triggers it.",
         "Randomised histories inside the generators' envelope (DESIGN A.1); kill points are between script steps and, half of the time, inside a request (the datapath server kills the agent at the K-th command it receives for the request); packet-level Classify=Denote is argued compositionally (field-wise image) rather than sampled. " + TRUST,
         "5 C03"),
 "C09": ("TLA+ R-specs BessImage (QerValuesOK in BigNat arithmetic, SoundSessQer) and Up4Image (PeakRatesOK, TermsOK) validated by TLC on the QoS entries the real agent programs; systematic enumeration of QER-list shapes; I-model QerRoles.tla model-checked (with negative controls) and GEN scripts from Up4QosScript.tla replayed into the agent",
         "TLC judges every appQERLookup / sessionQERLookup entry recorded after each accepted request of the real agent: gate as signalled, pir = MBR x 125 and cir = max(GBR x 125, 1) for GBR <= MBR, "
         "unmetered iff both rates are zero, cbs/pbs/ebs at least the configured minimum of the QFI and at least floor(rate x duration) (exact limb arithmetic), and the QER represented in "
         "sessionQERLookup is referenced by every PDR of the session (existential choice of the session-level QER that explains all three tables). Besides seeded random sessions with boundary rates and "
         "per-QFI burst configurations, the session shapes (2-3 PDRs x every ordered QER list over three ids x GBR / MBR patterns; 278 528 shapes) are enumerated: a seed-dependent stride in the quick tier, all of them in the thorough tier.",
         "UP4 shards: Up4Image!PeakRatesOK judges the app_meter / session_meter cells on the path of every forwarded PDR (each QER's MBR x 125 is held by a cell the PDR's entries name, and no cell on the path holds anything else; burst >= 10 ms at that rate), the traffic class and gates are part of C04; re-labelling after QER-creating/updating modifications on BESS is the listed known finding F-QER-RELABEL (named slack). GEN: TLC enumerates every behaviour of 3 (thorough: 4) operations of spec/Up4QosScript.tla (10 establishment shapes, session-level / flow QER updates, flows added / removed; 623 / 5 050 scripts), replayed into the agent on UP4; design level: QerRoles.tla (marking, meter kinds, entry roles as coded after fixes b116398 / 9209b4c; complete graph) with the code before each fix as negative control. " + TRUST,
         "5 C09"),
 "C14": ("TLA+ R-spec Pfcp!EndMarkersDue: TLC compares the decoded packets of the end-marker socket with the markers due for the pre-update session state",
         "Every packet the real agent writes to the end-marker unixpacket socket is decoded (Ethernet/IPv4/UDP/GTPv1-U) and TLC checks, per Session Modification, that the multiset of markers equals "
         "EndMarkersDue (one per updated existing FAR with SNDEM, old peer address, old TEID, source address of the old interface), UDP 2152->2152, GTP message type 254, none for flag off / unknown FAR id / "
         "rejected modification (one UP4 shard in three has writes failed by the switch) / creation / end markers disabled, and that each marker arrives after the held farLookup add was acknowledged.",
         "Both datapaths: on UP4 the markers are the packet-outs received by the harness' P4Runtime switch, 'after programming' = after the last Write RPC of the request was answered; on BESS ordering is observed by delaying the FAR programming by 25 ms. Markers due form a bag (several updated rules may have used the same tunnel). " + TRUST,
         "5 C14"),
 "C06": ("TLA+ IPPool (set-based R-level allocator; FIFO I-model refining it, complete graphs) + TraceC06: TLC validates every recorded call of the real IPPool, with linearisation search for concurrent histories (also run under the Go race detector); release storms on one session",
         "Library level against the real pfcpiface.IPPool: (seq) every sequence of L calls over {alloc, free} x 3 sessions on a /30 pool - bounded-exhaustive at the implementation (L=5 quick, 7 thorough); "
         "(prefix) every prefix /30../16 driven to exhaustion and back and walked through its whole inventory; (conc) concurrent goroutines whose invocation/response order is stamped outside the pool, "
         "accepted iff TLC finds a linearisation of the set-based allocator that reproduces every result (sound for any locking scheme). Invariants: ResultLegalForSetAllocator (in range, sticky, refusal only "
         "when full, release frees exactly one), Exclusive, InRangeNotNetNotBroadcast. The FIFO model as coded is model-checked to refine the set allocator on complete state graphs (2 and 4 addresses).",
         "Concurrent schedules are those the Go scheduler produced in the run (sampled); the end-to-end part (UE IP Address IEs in Created PDR) is judged by C06_AddressInPoolAndExclusive in the traces of C05/C07. " + TRUST,
         "5 C06"),
 "C05": ("TLA+ R-specs Pfcp (sessions, set-based allocators) + BessImage: TLC judges tables and the guarded state snapshot after every step of attach/detach cycles and random histories of the real agent",
         "For each way a session can end (Session Deletion, Association Release, Session Report answered 'context not found', unanswered heartbeats, read time-out), more attach/detach cycles than the /30 and /29 pools "
         "have addresses are executed against the real agent process, preceded by accepted and rejected requests (also ones rejected mid-way: second Create PDR without FAR ID, Remove of an unknown id after applied removes); "
         "TLC evaluates NoDatapathResidue on the BESS tables and, on the guarded read-only snapshot, SessionRecordsForgotten, AddressesReturned, TeidsReturned and GaugeCountsLiveSessions against the reference state, "
         "plus AddressInPoolAndExclusive on every address handed out (so a pool that leaks is also seen as an illegal refusal).",
         "Both datapaths: UP4 shards run the UP4 generator with the same snapshot invariants plus NoUp4Residue (when no session is live nothing but the interfaces entries is left in the switch, no meter cell configured); the UP4 identifier pools are judged by C15; heartbeat / time-out endings use short timers (60 ms / 1 s). " + TRUST,
         "5 C05"),
 "C07": ("TLA+ R-spec Pfcp (SeidLegal, TeidLegal, image of CHOOSE PDRs): TLC judges every establishment of the real agent under adversarial SEID-source outputs, TEID cursor wrap-around and concurrent bursts; GEN: every prefix of the random source over {0, live, live, deleted, fresh} enumerated by TLC from SeidScript.tla (with the design-level check of the draw loop) and replayed",
         "The guarded hooks feed the per-association random source with adversarial sequences (immediate repeat, repeat of a deleted session's id, zero, 99 and 100 consecutive collisions) and position the TEID cursor "
         "around the 32-bit wrap and on values in use; bursts of concurrent CHOOSE establishments from 2-6 associations are sent at once. TLC checks on every accepted establishment SeidFreshPerAssociation "
         "(non-zero, not live in the association), TeidNonZeroAndUnique (against every TEID chosen and not yet released, across associations) and ReportedEqualsProgrammed (pdrLookup entries carry the reported SEID and TEIDs).",
         "The retry budget itself is not asserted (refusal is legal in the R-spec whenever the source collided); exhaustion of the TEID space is out of reach at the implementation. " + TRUST,
         "5 C07"),
 "C01": ("TLA+ R-spec Pfcp/TraceE2E with taint: IE-tree mutation lattice and garbage injected into the real agent process; TLC judges survival, at-most-one response and the unchanged behaviour of untainted peers",
         "Every single IE-level mutation (drop, duplicate, empty, retype, truncate, IPv6-only, inner-length corruption, reorder, zero-fill) at every position of the IE tree of every message type the agent "
         "dispatches (requests and responses), truncated / malformed flow descriptions, seeded double mutations and garbage datagrams (random bytes, every truncation, corrupt header fields, oversized first datagram) "
         "are injected in association/session states of a target peer (2 states quick, 6 thorough). After each datagram a heartbeat on the same peer and a complete establish/delete on another association run; "
         "the trace is validated by TLC: the agent's death is an event no action consumes (crash site = first repository frame), an injected datagram has at most one answer, and the probe steps satisfy the C02 invariants "
         "and TablesAreImage for untainted sessions.",
         "Two more shards run the lattice against the UP4 plug-in (the mutated session messages reach its translation code). The byte-level garbage is sampled; what a mutated-but-accepted message does to the target peer's own sessions is deliberately unconstrained (taint). " + TRUST,
         "5 C01"),
 "C19": ("TLA+ R-spec SliceApi (unit conversion and 63-bit bound in BigNat arithmetic) + TraceC19: TLC judges status, header writes and slice-meter commands of real HTTP requests to the running agent",
         "Real HTTP against the agent process (BESS datapath): every method x body class (valid, empty, not JSON, wrong types, truncated body on a half-closed connection), every unit x boundary rates around "
         "2^63 / unit, seeded 64-bit rates and bursts. TLC checks StatusAsSpecified (201 / 4xx / 405), SingleResponse (no superfluous WriteHeader), RejectedLeavesDatapathUntouched (no sliceMeter command) and "
         "ProgramsWhatWasPosted (pir = floor(converted bps / 8), cir 1, metered gate, pbs = posted burst or the default) exactly for non-zero rates whose conversion fits 63 bits.",
         "Both datapaths: on UP4 the one slice_tc_meter cell at (slice << 2) + default TC must hold floor(max(UL, DL) bps / 8) bytes/s and the burst posted for that direction (asserted when both rates are non-zero and fit 63 bits; bursts of 2^63 bytes or more have no P4Runtime representation and are not constrained); a second header write is observed through net/http's log line. " + TRUST,
         "5 C19"),
 "C18": ("TLA+ R-spec Config (Validated, DefaultsFilled over document classes) + TraceC18: TLC judges every outcome of the real LoadConfigFile on schema-generated documents, comment placements and byte strings",
         "Library level against the exported loader: documents generated from the schema (14 fields x classes absent / valid / boundary / invalid / wrong JSON type; every single-field variation of four base "
         "documents and pairs of variations), each loaded with and without // and single-line /* */ comments inserted at token gaps; seeded byte strings and adversarial comment forms; every upf*.jsonc shipped. "
         "TLC checks ReturnedConfigurationIsValidated, DefaultsFilledIn (2s, 5, 15, 5s iff heartbeats, info, TC 3), CommentsNeverAlterValues (same outcome and same configuration as the comment-free text) and ShippedSamplesLoad; a panic of the loader is an event nothing consumes.",
         "Pure-function property: TLC is evaluator of a relational post-condition over generated cases (weak fit, DESIGN 7); parse facts (duration / CIDR / IP) are computed by the worker with the standard library. " + TRUST,
         "5 C18"),
 "C08": ("TLA+ R-spec Pfcp!PdrFilter (flow-description AST -> filter, orientation by PDR direction, named PortWorkaround, PFD table semantics): TLC judges the pdrLookup entries the real agent programs for every grammar form",
         "Every form of the IPFilterRule grammar (1 296 abstract forms x uplink and downlink PDR, seeded concrete prefixes / lengths 0..32 / boundary ports; 10 embeddings per form in the thorough tier) is sent inline as SDF filter; "
         "structurally malformed descriptions built by construction (unknown action / direction, unparsable address or port, inverted range, missing from/to part) must be refused or ignored (UE address only); PFD Management sequences "
         "(whole-table replacement, rejected request keeps the table, unparsable entries, unknown application ids) are followed by PDRs naming application ids. TLC checks FilterMeansWhatItSays on the recorded entries, "
         "PfdTableReplacedOrKept and ProvisionedApplicationUsable (a well-formed establishment naming a provisioned application is not refused).",
         "The reading of the UE-side endpoint is the as-written one (an explicit prefix or 'any' on the UE side replaces the UE address match, DESIGN A.1). UP4 shards: inline filters and PFD-provisioned applications (one description per direction) become applications entries; Up4Image!AppsOK and TermsOK judge them (Up4ApplicationsMeanWhatTheySay). " + TRUST,
         "5 C08"),
 "C13": ("TLA+ Notifier (rate limiter, model-checked) + R-spec Pfcp/TraceE2E!ReportEv: TLC judges every Session Report Request the real agent sends for datapath reports placed inside / outside the interval (single reports and bursts)",
         "The harness writes F-SEIDs to the BESS notify socket for notifying, non-notifying, deleted and unknown sessions of one association; the notification interval is set to 200 ms through the guarded hook "
         "(one thorough shard uses the real 20 s) and gaps are clearly inside (<= 0.5 x) or clearly outside (>= 1.5 x) it. TLC checks ReportForwardedWhenDue (first report never suppressed; forwarded again once the interval has passed), "
         "NoneForUnknownOrSilentSessions, AtMostOncePerInterval and ReportRequestShape (CP SEID in the header, fresh sequence number, Downlink Data Report naming a downlink PDR of the session). "
         "Notifier.tla (as coded) is model-checked for all report/tick sequences of 3 sessions, interval 3, 8 ticks.",
         "One association (the code documents multi-association routing as unimplemented); both datapaths (every third shard: digests with the UE address sent by the harness' P4Runtime switch); time stamps are the harness' clock with 0.5x / 1.5x margins. " + TRUST,
         "5 C13"),
 "C20": ("TLA+ R-spec RouteControl (kernel routes / resolved next hops -> required module graph) + TraceC20: TLC judges the module graph after every event of bounded-exhaustive kernel histories replayed into the real Python handlers and after pairs of events delivered on two threads (first handler held inside its first BESS command or inside its neighbour lookup)",
         "conf/route_control.py is loaded from /repo under stand-ins for pyroute2, pybess and scapy (the real BessController wrapper runs on a recording BESS class with bessd's EEXIST / ENOENT / EBUSY semantics). "
         "Every kernel-consistent history of RTM_NEWROUTE / RTM_DELROUTE / RTM_NEWNEIGH over 4 routes, 3 next hops and 2 managed interfaces up to depth 5 (quick) / 7 (thorough, 2.4 M events) and seeded longer histories "
         "are replayed into the real _netlink_route_handler / _netlink_neighbor_handler; after every event TLC checks InstalledIffKernelHasItAndResolved, OneGateOneModulePerNextHop, RewriteModuleExistsIffUsed and "
         "LiveNextHopsNeverShareAGate on the recorded module graph; a handler that raises is an event nothing consumes.",
         "Neighbour entries resolve once per history (no MAC change, no neighbour expiry); the ping thread and signal handlers are not exercised. " + TRUST,
         "5 C20"),
 "C12": ("TLA+ Retrans (loop as coded with an adversarial peer, model-checked) + R-spec Pfcp/TraceE2E (RetransEv, PostponeEv, AssocEv with the agent's isConnected): TLC judges what a scripted lossy peer observed of the real agent (including a forced round in which the answer arrives between a time-out and the retransmission)",
         "A scripted peer answers the k-th transmission (k = 1..N+1) of agent-originated Heartbeat Requests and of UPF-initiated Association Setup Requests, none, late, twice, with wrong sequence numbers, without Cause or with a rejection, "
         "for N in 1..3 (1..5 thorough) and response time-outs 40-60 ms; it sends its own heartbeat at mid-interval; the BESS server - and in one shard per tier the P4Runtime switch of the UP4 plug-in - is stopped and restarted around association attempts while the agent's isConnected is read from the "
         "guarded snapshot immediately before each request; feature configurations are random. TLC checks AtMostOnePlusNTransmissions, SpacedByResponseTimeout, StopsOnResponseDeadOnlyWhenAllUnanswered (and the sessions' removal through "
         "C05_NoDatapathResidue at the lost event), PeerHeartbeatPostponesOwn, RecoveryTimeStampConstant, AssociationAcceptedIffConnected, FeaturesMatchConfiguration and HeartbeatAnsweredAnyTime.",
         "Timing with one-sided 20 % tolerances on the harness' clock (not exactness of the time-out); sampled loss patterns per run rather than all interleavings of late answers. " + TRUST,
         "5 C12"),
 "C10": ("TLA+ Lifecycle (goroutines, channels, sync.Once of node / association life-cycle as coded; complete interleaving graphs, liveness) + forced and randomised schedules on the real agent judged by R-spec TraceE2E!StopEv; GEN: the 158 teardown signatures (who calls Shutdown at which step of the running teardown) TLC reads off the model (LifeScript.tla) are forced on the agent through blocking gates",
         "Design level: Lifecycle.tla models every interleaving point of conn Serve / reader / heartbeat monitor / Shutdown sub-steps / node Serve with Go channel semantics; TLC checks NoPanic, DeletedAtMostOnce, NoDeleteAgainstClosedDatapath, "
         "StoppedClean on the complete graphs of 1 and 2 associations (2.8 M states) and StopTerminates under fairness. Implementation: (a) deterministic forced schedules through the blocking scheduling gates (a second Shutdown provoked "
         "after the first completed: heartbeat-dead vs stop, release vs stop, node held before exit; and forced overlaps: a release, a heartbeat failure or the peer's heartbeats while a teardown is held before its first session); (b) a seeded random scheduler that arms the gate at every scheduling point, releases parked goroutines one at a time and stalls one class "
         "of steps per run; (c) randomised timing of release / unanswered heartbeats / read time-out / SIGTERM over 0..8 associations (scale points 40-140, one above the 100 completions the node buffers) with requests in flight, half of the shards under the race detector. "
         "TLC judges StopCompletesWithoutPanic, StopInBoundedTime, EachSessionRemovedExactlyOnce (no residue, no failed or repeated delete) and the C02/C03 invariants on re-association and on the other associations.",
         "Schedules at the implementation are forced / sampled, not enumerated from the model's graph (edge cover through GEN is future work); bounded stop time is 5 s (20 s under the gating scheduler). " + TRUST,
         "5 C10"),
 "C04": ("TLA+ R-specs Pfcp + Up4Image (image of the live sessions' rules in the UP4 pipeline, agent-chosen IDs existentially bound) + GEN scripts from Up4Script.tla replayed into the agent: TLC judges the state of the harness' own P4Runtime switch after every step of the real agent",
         "The agent process runs with the UP4 plug-in against the harness' P4Runtime server, which serves the shipped P4Info and implements the write semantics of the P4Runtime specification (ALREADY_EXISTS / NOT_FOUND, "
         "per-update results of a batch, wildcard reads, meter and counter cells). Seeded randomised histories (1-3 associations, up to 5 live sessions sharing gNB peers and application filters, sessions with one shared or per-flow TEIDs, "
         "FAR updates buffer <-> forward <-> other gNB, QER gate / QFI updates, PDR updates, flows removed and added, association release, SIGKILL + restart against the populated switch; random slice id, QFI->TC map, default TC; "
         "a third of the shards with boundary values) are recorded step by step; in addition (GEN) TLC generates every script of 4 (thorough: 5) control-plane operations over two sessions that share gNB and application filters "
         "(spec/Up4Script.tla, incl. removal of all downlink PDRs of a session; 725 / 5 645 scripts) and the harness replays them into the real agent; after every accepted request, every lost association and every start TLC evaluates Up4Image!TablesAreImage "
         "(interfaces, sessions_uplink / sessions_downlink keys and buffer / tunnel-peer action, terminations key and drop / forward action with TEID, QFI and traffic class, one applications entry per distinct filter and one tunnel_peers "
         "entry per distinct GTP peer present iff used, meter cells bounded by the live QERs) and InterfacesThroughout.",
         "Inside the envelope of DESIGN 11.4 (one UE address and one downlink forwarding state per session, distinct application filters per direction, at most one QFI-carrying QER per PDR, closed gates only on that QER), checked as a structural invariant; "
         "applications priority and meter rates are not part of the image (C16 / C09); kill points are between steps and, half of the time, at the K-th Write RPC of a request; histories are sampled. " + TRUST,
         "5 C04"),
 "C15": ("TLA+ R-spec Up4Image (identifier discipline: exclusive cells, nothing free while an entry uses it, no duplicates in pool queues) judged by TLC on switch state + guarded pool snapshot of the real agent under injected P4Runtime write failures",
         "The harness' P4Runtime server fails chosen writes (whole RPC with a plain gRPC status, or one update of a batch with a per-update status; five status codes). For session shapes drawn from the seed and every request kind "
         "(establishment, FAR / QER / PDR update, flow removal, flow addition, deletion) the request is first run unfaulted to count its Write RPCs n and then repeated with the k-th RPC failing for EVERY k = 1..n, each followed by a probe "
         "session of another association; then random multi-fault histories and a burst of sessions that cycles the pools, all next to a crowd of live sessions; one shard per six keeps 200-400 sessions live and aims faults at meter writes "
         "so that a cell released into the wrong pool meets a live holder. After every step TLC evaluates CounterCellsExclusive, MeterCellsExclusive, NotFreeWhileInUse (counter, app-meter, session-meter, tunnel-peer and application IDs used by "
         "switch entries are not free in the plug-in's pools), NoIdTwiceInPool, PeerIdsInUseStayAllocated and FailedWriteMeansRejection.",
         "Design level: RefCounted.tla (the reference-counted tunnel peers / applications as coded after the repairs, every write may fail) is model-checked on its complete graph, with the original release order as negative control; in the thorough tier Apalache discharges an inductive invariant of it (behaviours of any length). The pools are read through the guarded snapshot hook (IDs not free, duplicates in queues); a leaked identifier (neither free nor used) is not a violation of the statement and is not flagged; positions k are exhaustive per shape, shapes are sampled. " + TRUST,
         "5 C15"),
 "C16": ("TLA+ R-spec P4Valid (conformance of a write to the P4Info) judged by TLC on every update the harness' P4Runtime server received from the real agent; regeneration and byte comparison of the compiled-in constants",
         "Every update of every Write RPC (tables, meters, counters; INSERT / MODIFY / DELETE, also the start-up clearing and the rollback writes) is recorded as sent - ids and byte strings - and TLC evaluates P4Valid!WriteValid against the "
         "P4Info the harness parsed from the shipped conf/p4/bin/p4info.txt: table known, each match field of the table with the declared kind and a value that fits the declared width, LPM length within the width, the action allowed for entries and "
         "carrying exactly its declared parameters with fitting values, non-zero priority for tables with ternary / range fields, meter and counter indices inside the declared sizes. Inputs are the C04 histories with boundary values "
         "(precedences 0 / 65534 / 65535 / beyond, any 32-bit TEID and gNB address, QFIs up to 63, ports touching 0 and 65535, prefix lengths 1..32, slice ids 0..15, traffic classes 0..3), and one shard in six first drains both meter pools (about 512 sessions) so that the cells at the edge of the arrays are handed out. The constants generator is run 4 (12) times on the "
         "shipped P4Info: outputs identical, and gofmt(output) identical to the committed internal/p4constants/p4constants.go.",
         "Only the clauses the statement lists are checked (not, e.g., canonical byte strings or masked ternary values); inputs are sampled around the boundaries, not enumerated; the constants comparison is a direct regeneration, not a model. " + TRUST,
         "5 C16"),
 "C11": ("TLA+ R-specs Pfcp + BessImage + Up4Image: traces of concurrent request streams of 2-8 associations of the real agent (half under the race detector), consumed one at a time by the reference state machine; TLC judges responses, final tables and pools",
         "Every association runs its own stream of establishments, modifications and deletions (UP4: also sharing gNB peers and application filters across associations) while the others do the same, on the harness BESS server and on the "
         "harness P4Runtime switch. The steps of a concurrent phase are recorded in the order their answers arrived; TLC consumes them as a one-at-a-time history (per-step C02 response invariants, SEID / TEID freshness) and, at the end of each "
         "phase with the datapath quiet, evaluates TablesAreImage (BESS: C03, UP4: C04) for the union of all associations' sessions, the UP4 identifier invariants of C15, and after the final concurrent deletion of everything the pool "
         "occupancy invariants of C05 (addresses, TEIDs, session records, gauge). Shards 2,3 of every four run the -race build of the agent: a race report (first repository frames of both accesses) or a runtime crash is a trace event "
         "no action of the specification consumes. Lifecycle-level interleavings of the same goroutines are model-checked in Lifecycle.tla (C10).",
         "Interleavings are those the Go scheduler produced (sampled, with randomised pacing by the peers), not enumerated; sessions of different associations are disjoint except for the shared objects named above, so every order of the "
         "recorded steps denotes the same final image; the image is not judged inside a phase. " + TRUST,
         "5 C11"),
}

def hooks_commits():
    try:
        out = subprocess.check_output(["git", "-C", "/repo", "log", "--format=%H %s"], text=True)
        return [l.split()[0] for l in out.splitlines() if l.split(" ", 1)[1].startswith("verif:")]
    except Exception:
        return []

reasons = {}
rp = os.path.join(HERE, "not_applicable.json")
if os.path.exists(rp):
    reasons = json.load(open(rp))

m = {
 "version": 1,
 "setup_cmd": "bash /verif/bin/setup",
 "hooks": {"guard": "verif",
           "enable": "go build -tags verif (harness module /verif/harness with `replace github.com/omec-project/upf-epc => /repo`)",
           "baseline_off_cmd": "cd /repo && GOFLAGS=-mod=mod GOPROXY=off go test -vet=off -count=1 -timeout 25m ./cmd/... ./pfcpiface/... ./pkg/... ./internal/... ./logger/...",
           "source_commits": hooks_commits(), "add_only": True},
 "engines": [{"name": "tlc", "path": "/opt/veriftools/tla/tla2tools.jar", "serves_properties": sorted(CLAIMED), "kind_free_text": "TLC model checker: bounded-exhaustive checks of the specifications and validation of traces recorded from the real code"}],
 "checks": [],
 "notes": "Model-based verification with explicit TLA+ specifications (spec/*.tla) bound to the code by trace validation; see DESIGN.md. Exit 2 = inconclusive (never a violation).",
 "not_applicable": [],
}
for pid in props:
    if pid in CLAIMED:
        tech, text, note, ref = CLAIMED[pid]
        m["checks"].append({
            "property_id": pid,
            "quick_cmd": f"bin/check {pid} quick",
            "thorough_cmd": f"bin/check {pid} thorough",
            "evidence_file": f"/verif/evidence/{pid}.json",
            "replay_cmd_template": f"bin/check {pid} quick --replay {{path}}",
            "engine": "tlc",
            "level_claimed": {"category": "model_checking", "text": text, "design_ref": ref},
            "level_note": note,
            "technique": tech,
        })
    else:
        m["not_applicable"].append({"property_id": pid, "reason": reasons.get(pid, "check not built yet (work in progress; DESIGN.md section 10 gives the work order)")})
json.dump(m, open(os.path.join(VERIF, "MANIFEST.json"), "w"), indent=1)
print("claimed:", sorted(CLAIMED), "not_applicable:", [x["property_id"] for x in m["not_applicable"]])

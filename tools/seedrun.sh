#!/bin/bash
# usage: tools/seedrun.sh <seed dir> <property ids...>   -- applies the seeded change to /repo, runs the checks (quick), reverts
set -u
D=$1; shift
if [ -n "$(git -C /repo status --porcelain)" ]; then echo "/repo is dirty"; exit 9; fi
git -C /repo apply $D/patch.diff || exit 9
for p in "$@"; do (cd /verif && timeout 900 bin/check $p ${TIER:-quick} 2>&1 | grep -v "^KNOWN" | cut -c1-230 | tail -${TAILN:-3}); done
git -C /repo checkout -- .

#!/bin/bash
# usage: tools/u4diag.sh <check out dir e.g. out/C04-quick-1> [cfg]  -- per shard: failing invariant, diag, last steps
cd /verif; for d in $1/shard*; do
  [ -f $d/trace.ndjson ] || continue
  echo "=== $d"
  TLC_TIMEOUT=120 /verif/tools/tlcdbg.sh TraceE2E ${2:-TraceE2E_C04.cfg} /verif/$d/trace.ndjson 400 2>&1 | grep -v conda > /tmp/u4diag.out
  grep -m1 "is violated" /tmp/u4diag.out
  grep -A8 "diag = " /tmp/u4diag.out | tail -9 | tr -d '\n'; echo
  hw=$(grep -o '"HW", [0-9]*' /tmp/u4diag.out | head -1 | grep -o '[0-9]*$'); echo "line $((hw-1))"
  python3 /verif/tools/u4hist.py $d/trace.ndjson $((hw-1)) | grep -v "^     tables" | tail -${N:-6} | cut -c1-${W:-600}
  python3 /verif/tools/u4hist.py $d/trace.ndjson $((hw-1)) | tail -1 | cut -c1-1200
done

----------------------------- MODULE PortRange -----------------------------
(***************************************************************************)
(* L4 port ranges and their expansion into ternary match rules (C17).      *)
(*                                                                         *)
(* R-level (reference): what it means for a list of ternary rules to       *)
(* represent a range exactly (ExactCover, ExactCoverPair), independent of  *)
(* how the rules were produced.  These operators judge the rules RETURNED  *)
(* by the implementation in TraceC17 and the port fields of pdrLookup      *)
(* entries in BessImage.                                                   *)
(*                                                                         *)
(* I-level (as coded): a transcription of parse_pdr.go                     *)
(*   portRange.{isWildcardMatch,isExactMatch,isRangeMatch,Width},          *)
(*   asTrivialTernaryMatch, asComplexTernaryMatches(Exact|Ternary),        *)
(*   CreatePortRangeCartesianProduct                                       *)
(* with the bit width W as a constant (the code has W = 16), so that TLC   *)
(* can enumerate all ranges for small W (MCPortRange*.cfg).                *)
(***************************************************************************)
EXTENDS Naturals, Sequences, FiniteSets, Bitwise, TLC

CONSTANT W              \* bit width of a port (16 in the implementation)
CONSTANT ExactLimit     \* widest range the Exact strategy accepts (100 in the implementation)

Limit == 2^W - 1

---------------------------------------------------------------------------
(* R-level *)

RECURSIVE PopCount(_)
PopCount(x) == IF x = 0 THEN 0 ELSE (x % 2) + PopCount(x \div 2)

\* rule = [port |-> 0..Limit, mask |-> 0..Limit]; matches p iff (p & mask) = (port & mask)
RuleMatches(r, p) == (p & r.mask) = (r.port & r.mask)
RuleMin(r)  == r.port & r.mask
RuleMax(r)  == (r.port & r.mask) + (Limit - r.mask)     \* all don't-care bits set
RuleSize(r) == 2^(W - PopCount(r.mask))
RulesOverlap(r1, r2) == (((r1.port ^^ r2.port) & r1.mask) & r2.mask) = 0

\* The range a (lo, hi) pair stands for: 0-0 is the documented zero value = wildcard.
EffLo(lo, hi) == lo
EffHi(lo, hi) == IF lo = 0 /\ hi = 0 THEN Limit ELSE hi
IsFull(lo, hi) == EffLo(lo, hi) = 0 /\ EffHi(lo, hi) = Limit

RECURSIVE SumSizes(_, _)
SumSizes(rules, i) == IF i > Len(rules) THEN 0 ELSE RuleSize(rules[i]) + SumSizes(rules, i + 1)

\* Pairwise disjointness, cheap for the two shapes that occur in practice (many rules with one
\* mask; few rules with different masks) and correct for every shape.
PairwiseDisjoint(rules) ==
  LET n == Len(rules)
      masks == {rules[i].mask : i \in 1..n}
      Group(m) == {i \in 1..n : rules[i].mask = m}
  IN /\ \A m \in masks : Cardinality({rules[i].port & m : i \in Group(m)}) = Cardinality(Group(m))
     /\ \A m1, m2 \in masks : m1 < m2 =>
          \A i \in Group(m1), j \in Group(m2) : ~RulesOverlap(rules[i], rules[j])

\* The rules match exactly the ports lo..hi (no port outside, none missing).
ExactCover(rules, lo, hi) ==
  /\ \A i \in 1..Len(rules) : RuleMin(rules[i]) >= lo /\ RuleMax(rules[i]) <= hi
  /\ PairwiseDisjoint(rules)
  /\ SumSizes(rules, 1) = hi - lo + 1

\* A wildcard rule (matches every port) may only appear for the full range.
WildcardOnlyForFull(rules, lo, hi) ==
  \A i \in 1..Len(rules) : rules[i].mask = 0 => IsFull(lo, hi)

\* --- pairs: rule = [sp, sm, dp, dm]; area arithmetic in two base-2^W limbs <<hiLimb, loLimb>> ---
SrcPart(r) == [port |-> r.sp, mask |-> r.sm]
DstPart(r) == [port |-> r.dp, mask |-> r.dm]
PairOverlap(r1, r2) == RulesOverlap(SrcPart(r1), SrcPart(r2)) /\ RulesOverlap(DstPart(r1), DstPart(r2))

Base == Limit + 1
Norm(x) == <<x[1] + (x[2] \div Base), x[2] % Base>>
\* 2^k as limbs, k in 0..2W
Pow2L(k) == IF k >= W THEN <<2^(k - W), 0>> ELSE <<0, 2^k>>
AddL(x, y) == Norm(<<x[1] + y[1], x[2] + y[2]>>)
\* a * b as limbs for a, b in 0..Base (no intermediate above 2^(W + W/2 + 1))
Half == 2^(W \div 2)
MulL(a, b) ==
  LET bh == b \div Half  bl == b % Half
      p == a * bh            \* contributes p * Half
      q == a * bl
  IN AddL(Norm(<<p \div (Base \div Half), (p % (Base \div Half)) * Half>>), Norm(<<0, q>>))

RECURSIVE SumAreas(_, _)
SumAreas(rules, i) ==
  IF i > Len(rules) THEN <<0, 0>>
  ELSE AddL(Pow2L((W - PopCount(rules[i].sm)) + (W - PopCount(rules[i].dm))), SumAreas(rules, i + 1))

ExactCoverPair(rules, slo, shi, dlo, dhi) ==
  /\ \A i \in 1..Len(rules) :
        /\ RuleMin(SrcPart(rules[i])) >= slo /\ RuleMax(SrcPart(rules[i])) <= shi
        /\ RuleMin(DstPart(rules[i])) >= dlo /\ RuleMax(DstPart(rules[i])) <= dhi
  /\ \A i, j \in 1..Len(rules) : i < j => ~PairOverlap(rules[i], rules[j])
  /\ SumAreas(rules, 1) = MulL(shi - slo + 1, dhi - dlo + 1)

---------------------------------------------------------------------------
(* I-level: the implementation's algorithms, transcribed *)

IsWildcard(lo, hi) == (lo = 0 /\ hi = Limit) \/ (lo = 0 /\ hi = 0)
IsExact(lo, hi)    == lo = hi /\ hi # 0
IsRange(lo, hi)    == ~IsExact(lo, hi) /\ ~IsWildcard(lo, hi)
\* Width() is a uintW: the wildcard reports Limit, everything else hi - lo + 1 (cannot wrap for a
\* non-wildcard range because that is at most Limit)
Width(lo, hi)      == IF IsWildcard(lo, hi) THEN Limit ELSE hi - lo + 1

Refused == [ok |-> FALSE, rules |-> <<>>]
Accepted(rs) == [ok |-> TRUE, rules |-> rs]

Trivial(lo, hi) ==
  IF IsWildcard(lo, hi) THEN Accepted(<<[port |-> 0, mask |-> 0]>>)
  ELSE IF IsExact(lo, hi) THEN Accepted(<<[port |-> lo, mask |-> Limit]>>)
  ELSE Refused

Mod(x) == x % (Limit + 1)                     \* uintW wrap-around
MaxPort(port, mask) == Mod((port & mask) + (Limit - mask))
RECURSIVE MaskLoop(_, _, _, _, _, _, _)
MaskLoop(port, end, netPort, maximumPort, mask, testMask, bit) ==
  IF ~(netPort > 0 /\ maximumPort < end) THEN mask
  ELSE LET np == port & testMask IN
       IF np < port THEN mask
       ELSE LET mp == MaxPort(np, testMask)
                m2 == IF mp <= end THEN testMask ELSE mask
            IN MaskLoop(port, end, np, mp, m2, Mod(testMask + (Limit + 1) - bit), Mod(bit * 2))
PortMask(port, end) == MaskLoop(port, end, port, MaxPort(port, Limit), Limit, Limit, 1)
RECURSIVE TernaryLoop(_, _)
TernaryLoop(port, high) ==
  IF port > high THEN <<>>
  ELSE LET m == PortMask(port, high)
       IN <<[port |-> port, mask |-> m]>> \o TernaryLoop(MaxPort(port, m) + 1, high)

ExpandI(lo, hi, strategy) ==
  IF IsExact(lo, hi) THEN Accepted(<<[port |-> lo, mask |-> Limit]>>)
  ELSE IF IsWildcard(lo, hi) THEN Accepted(<<[port |-> 0, mask |-> 0]>>)
  ELSE IF strategy = "exact"
       THEN IF Width(lo, hi) > ExactLimit THEN Refused
            ELSE Accepted([i \in 1..(hi - lo + 1) |-> [port |-> lo + i - 1, mask |-> Limit]])
       ELSE Accepted(TernaryLoop(lo, hi))

ProductI(slo, shi, dlo, dhi) ==
  IF IsRange(slo, shi) /\ IsRange(dlo, dhi) THEN Refused
  ELSE IF IsRange(slo, shi) THEN
         LET s == ExpandI(slo, shi, "exact")  d == Trivial(dlo, dhi) IN
         IF ~s.ok \/ ~d.ok THEN Refused
         ELSE Accepted([i \in 1..Len(s.rules) |->
                [sp |-> s.rules[i].port, sm |-> s.rules[i].mask, dp |-> d.rules[1].port, dm |-> d.rules[1].mask]])
  ELSE IF IsRange(dlo, dhi) THEN
         LET d == ExpandI(dlo, dhi, "exact")  s == Trivial(slo, shi) IN
         IF ~s.ok \/ ~d.ok THEN Refused
         ELSE Accepted([i \in 1..Len(d.rules) |->
                [sp |-> s.rules[1].port, sm |-> s.rules[1].mask, dp |-> d.rules[i].port, dm |-> d.rules[i].mask]])
  ELSE LET s == Trivial(slo, shi)  d == Trivial(dlo, dhi) IN
       IF ~s.ok \/ ~d.ok THEN Refused
       ELSE Accepted(<<[sp |-> s.rules[1].port, sm |-> s.rules[1].mask, dp |-> d.rules[1].port, dm |-> d.rules[1].mask]>>)

---------------------------------------------------------------------------
(* The properties of C17, stated on a call and its result (used by MC and by the trace spec) *)

\* accepted => exact, wildcard only for the full range
ExpandOk(lo, hi, res) ==
  res.ok => /\ ExactCover(res.rules, EffLo(lo, hi), EffHi(lo, hi))
            /\ WildcardOnlyForFull(res.rules, lo, hi)

ProductOk(slo, shi, dlo, dhi, res) ==
  res.ok => /\ ExactCoverPair(res.rules, EffLo(slo, shi), EffHi(slo, shi), EffLo(dlo, dhi), EffHi(dlo, dhi))
            /\ \A i \in 1..Len(res.rules) :
                  /\ (res.rules[i].sm = 0 => IsFull(slo, shi))
                  /\ (res.rules[i].dm = 0 => IsFull(dlo, dhi))

=============================================================================

SPECIFICATION Spec
CONSTANTS N = 4
INVARIANTS Emit
CHECK_DEADLOCK FALSE

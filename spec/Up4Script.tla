------------------------------ MODULE Up4Script ------------------------------
(***************************************************************************)
(* GEN: the control-plane scripts of the bounded-exhaustive part of C04.   *)
(* Two sessions A (association p1) and B (association p2) of the same      *)
(* shape - they share their gNB and their application filters - and what a *)
(* control plane can do to them.  TLC enumerates every behaviour of N      *)
(* operations (an operation is enabled iff its session is live / not yet   *)
(* established) and prints each as a line <<"SEQ", <<op, ...>>>>; the      *)
(* harness replays every printed script into the real agent on the UP4     *)
(* datapath (worker e2e-up4-scope) and the recorded steps are validated    *)
(* against Up4Image by TraceE2E_C04.cfg.                                   *)
(***************************************************************************)
EXTENDS Naturals, Sequences, TLC

CONSTANT N              \* length of the scripts

VARIABLES a, b, adl, hist    \* A live, B live, A still has its downlink PDRs, operations so far
vars == <<a, b, adl, hist>>

OpsA == {"A:fwd0", "A:fwd1", "A:buff", "A:drop", "A:rmflow", "A:qer"}   \* downlink state of A, a flow of A removed, A's QER updated
OpsB == {"B:fwd1"}                                                       \* B moves to the other gNB

Init == a = FALSE /\ b = FALSE /\ adl = TRUE /\ hist = <<>>

Do(op) == hist' = Append(hist, op)
Next ==
  /\ Len(hist) < N
  /\ \/ ~a /\ a' = TRUE /\ adl' = TRUE /\ UNCHANGED b /\ Do("EA")         \* establish A
     \/ ~b /\ b' = TRUE /\ UNCHANGED <<a, adl>> /\ Do("EB")                \* establish B
     \/ a /\ adl /\ UNCHANGED <<a, b, adl>> /\ \E op \in OpsA : Do(op)
     \/ a /\ adl /\ adl' = FALSE /\ UNCHANGED <<a, b>> /\ Do("A:rmdl")     \* A's downlink PDRs and FARs are removed, the uplink ones stay
     \/ b /\ UNCHANGED <<a, b, adl>> /\ \E op \in OpsB : Do(op)
     \/ a /\ a' = FALSE /\ UNCHANGED <<b, adl>> /\ (Do("DA") \/ Do("XA"))  \* delete A / release A's association
     \/ b /\ b' = FALSE /\ UNCHANGED <<a, adl>> /\ Do("DB")                \* delete B
Spec == Init /\ [][Next]_vars

\* always true; prints the complete scripts
Emit == (Len(hist) = N) => PrintT(<<"SEQ", hist>>)
=============================================================================

--------------------------- MODULE RefCountedInd ---------------------------
(* Inductive invariant of RefCounted (repaired release order) for Apalache:                        *)
(*   apalache-mc check --cinit=ConstInit --init=Init    --inv=IndInv --length=0 RefCountedInd.tla  *)
(*   apalache-mc check --cinit=ConstInit --init=IndInit --inv=IndInv --length=1 RefCountedInd.tla  *)
(* proves IndInv (which implies the C15 identifier invariants) for behaviours of any length.       *)
EXTENDS RefCounted, Apalache

ConstInit ==
  /\ Key = {"k1_OF_KEY", "k2_OF_KEY", "k3_OF_KEY"}
  /\ User = {"u1_OF_USER", "u2_OF_USER", "u3_OF_USER"}
  /\ MaxId = 2 /\ MaxFaults = 3 /\ ReleaseEarly = FALSE

ConstInitOld ==      \* negative control: the release order of the original code
  /\ Key = {"k1_OF_KEY", "k2_OF_KEY", "k3_OF_KEY"}
  /\ User = {"u1_OF_USER", "u2_OF_USER", "u3_OF_USER"}
  /\ MaxId = 2 /\ MaxFaults = 3 /\ ReleaseEarly = TRUE

IndInv ==
  /\ Len(pool) <= MaxId /\ SeqSet(pool) \subseteq Ids
  /\ \A i, j \in DOMAIN pool : i # j => pool[i] # pool[j]
  /\ DOMAIN reg = Key /\ DOMAIN sw = Key
  /\ \A k \in Key : reg[k].users \subseteq User
  /\ \A k \in Key : reg[k].has => (reg[k].id \in Ids /\ reg[k].id \notin SeqSet(pool) /\ reg[k].users # {})
  /\ \A k \in Key : ~reg[k].has => (reg[k].id = 0 /\ reg[k].users = {})
  /\ \A k \in Key : sw[k] = IF reg[k].has THEN reg[k].id ELSE 0
  /\ \A k1, k2 \in Key : (k1 # k2 /\ reg[k1].has /\ reg[k2].has) => reg[k1].id # reg[k2].id
  /\ holds \subseteq User \X Key
  /\ \A k \in Key : reg[k].users = {u \in User : <<u, k>> \in holds}
  /\ \A i \in Ids : i \in SeqSet(pool) \/ \E k \in Key : reg[k].has /\ reg[k].id = i      \* no identifier is lost
  /\ faults \in 0..MaxFaults /\ clean \in BOOLEAN

IndInit ==
  /\ pool = Gen(3) /\ reg = Gen(3) /\ sw = Gen(3) /\ holds = Gen(9) /\ faults = Gen(1) /\ clean = Gen(1)
  /\ IndInv

\* the invariants TLC checks follow from IndInv
Implied == NotFreeWhileInUse /\ NoIdTwice /\ OneKeyPerId /\ HoldersAreUsers /\ HeldMeansProgrammed
=============================================================================

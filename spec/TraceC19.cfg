SPECIFICATION Spec
INVARIANTS C19_StatusAsSpecified C19_SingleResponse C19_RejectedLeavesDatapathUntouched C19_ProgramsWhatWasPosted
POSTCONDITION TraceAccepted
ALIAS Alias
CHECK_DEADLOCK FALSE

SPECIFICATION Spec
CONSTANTS
  W = 16
  ExactLimit = 100
INVARIANTS C17_AcceptedImpliesExact C17_WildcardOnlyForFullRange TraceWellFormed
POSTCONDITION TraceAccepted
ALIAS Alias
CHECK_DEADLOCK FALSE

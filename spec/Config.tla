------------------------------- MODULE Config -------------------------------
(***************************************************************************)
(* Configuration loading (C18), reference specification.                   *)
(*                                                                         *)
(* A document is abstracted as a function field -> class with classes      *)
(*   absent | valid | boundary | invalid | wrongtype                       *)
(* (what the generator wrote for that field).  Load(doc) either fails or   *)
(* returns a configuration; of the returned configuration the worker logs  *)
(* atomic facts (does this string parse as a duration, is this the default *)
(* value ...) which cannot be computed inside TLA+.  Validated states what *)
(* C18 demands of every returned configuration; DefaultsFilled ties the    *)
(* facts to the document (a field that was absent must show its default).  *)
(***************************************************************************)
EXTENDS Naturals, Sequences, FiniteSets, TLC

BessModes == {"af_xdp", "af_packet", "cndp", "dpdk", "sim"}

\* f: facts about a returned configuration
Validated(f) ==
  /\ f.respTimeoutParses
  /\ f.maxRetries >= 1
  /\ f.readTimeout >= 1
  /\ (f.hbEnabled => f.hbIntervalParses)
  /\ (f.p4 => f.mode = "" /\ f.accessIpParses /\ f.uePoolParses)
  /\ (~f.p4 => f.mode \in BessModes)
  /\ (f.ueAlloc => f.uePoolParses)
  /\ f.peersParse
  /\ f.defaultTc \in 0..255

\* d: the document (field -> class); defaults: 2s, 5 retries, 15 s, 5s iff heartbeats enabled, info, TC 3
DefaultsFilled(d, f) ==
  /\ (d.resp_timeout = "absent" => f.respTimeout = "2s")
  /\ (d.max_req_retries = "absent" => f.maxRetries = 5)
  /\ (d.read_timeout = "absent" => f.readTimeout = 15)
  /\ ((d.heart_beat_interval = "absent" /\ f.hbEnabled) => f.hbInterval = "5s")
  /\ (d.log_level = "absent" => f.logLevel = "info")
  /\ (d.default_tc = "absent" => f.defaultTc = 3)

\* a document all of whose fields are valid (or absent where a default exists) loads
MustLoad(d) == \A k \in DOMAIN d : d[k] \in {"valid", "absent", "boundary"}
=============================================================================

------------------------------ MODULE TraceLib ------------------------------
(* Shared machinery of the trace specifications: the recorded trace (one JSON object per line,  *)
(* path in the environment variable TRACE_FILE), the position register used for acceptance and  *)
(* small helpers.  A trace specification extends the reference specification and this module,    *)
(* declares VARIABLE l (index of the next unread line) and uses                                  *)
(*    TraceInitL     in its Init   (l = 1, acceptance register initialised)                      *)
(*    Consume        in every action that reads Trace[l]                                         *)
(*    TraceAccepted  as POSTCONDITION (every line was consumed by some behaviour)                *)
EXTENDS Naturals, Sequences, FiniteSets, Json, TLC, IOUtils

Trace == ndJsonDeserialize(IOEnv.TRACE_FILE)

HwReg == 1     \* TLC register: highest l reached in any explored state (needs -workers 1)

InitHw == TLCSet(HwReg, 1) /\ TLCSet(2, {})
BumpHw(n) == IF n > TLCGet(HwReg) THEN TLCSet(HwReg, n) ELSE TRUE

TraceAccepted ==
  /\ PrintT(<<"HW", TLCGet(HwReg), Len(Trace)>>)
  /\ PrintT(<<"USED", TLCGet(2)>>)
  /\ TLCGet(HwReg) = Len(Trace) + 1

\* does record r have field f (JSON objects become records)
Has(r, f) == f \in DOMAIN r
=============================================================================

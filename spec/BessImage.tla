------------------------------ MODULE BessImage ------------------------------
(***************************************************************************)
(* What the BESS lookup modules must contain as a function of the live     *)
(* sessions' current rules (the "image"), DESIGN A.2.  C03, C05, C09.      *)
(*                                                                         *)
(* The observed tables are sets of records in the shape the harness' BESS  *)
(* server projects them:                                                   *)
(*  pdrLookup  [iface, tip, teid, sip, dip, sp, dp, proto : <<value,mask>>,*)
(*              pdr, fseid, ctr, qer, far, gate, prio]                      *)
(*  farLookup  [far, fseid, action, ttype, tsrc, tdst, teid, port, gate]    *)
(*  app/sessionQERLookup [iface, qer (app only), fseid, qfi (app only),     *)
(*              gate, cir, pir, cbs, pbs, ebs]                              *)
(* The image is compared per session; port fields are compared by cover    *)
(* (PortRange!ExactCoverPair), so any exact expansion of a port range is   *)
(* accepted.                                                               *)
(***************************************************************************)
EXTENDS Pfcp, SequencesExt

PR == INSTANCE PortRange WITH W <- 16, ExactLimit <- 100

IfaceCode(src) == IF src = "access" THEN <<1, 255>> ELSE IF src = "core" THEN <<2, 255>> ELSE <<0, 0>>

\* The QER id a PDR entry carries: the first QER of the PDR's list that is not the session-level
\* QER sq; the session-level QER itself when the list holds nothing else; zero for an empty list.
RECURSIVE FirstNot(_, _, _)
FirstNot(qs, sq, i) == IF i > Len(qs) THEN <<>> ELSE IF qs[i] # sq THEN qs[i] ELSE FirstNot(qs, sq, i + 1)
PdrQerField(p, sq) ==
  LET f == FirstNot(p.qers, sq, 1) IN
  IF f # <<>> THEN f ELSE IF Len(p.qers) > 0 THEN sq ELSE Zero32

\* everything of a pdrLookup entry except the two port fields
PdrBase(u, p, sq) ==
  [iface |-> IfaceCode(p.src),
   tip   |-> IF p.tun = <<>> THEN <<Zero32, Zero32>> ELSE <<p.tun[1], Full32>>,
   teid  |-> IF p.tun = <<>> THEN <<Zero32, Zero32>> ELSE <<p.tun[2], Full32>>,
   sip   |-> <<p.flt.sip, p.flt.smask>>,
   dip   |-> <<p.flt.dip, p.flt.dmask>>,
   proto |-> <<p.flt.proto, p.flt.pmask>>,
   pdr |-> p.id, fseid |-> u, ctr |-> Zero32, qer |-> PdrQerField(p, sq), far |-> p.far,
   gate |-> p.decap, prio |-> Not32(p.prec)]

EntryBase(e) == [f \in (DOMAIN e) \ {"sp", "dp"} |-> e[f]]
EntryPorts(e) == [sp |-> e.sp[1], sm |-> e.sp[2], dp |-> e.dp[1], dm |-> e.dp[2]]

\* the entries E (all with the same base) represent exactly the port pair of the filter
PortsCovered(E, flt) ==
  LET rules == SetToSeq({EntryPorts(e) : e \in E}) IN
  PR!ExactCoverPair(rules, PR!EffLo(flt.sports[1], flt.sports[2]), PR!EffHi(flt.sports[1], flt.sports[2]),
                           PR!EffLo(flt.dports[1], flt.dports[2]), PR!EffHi(flt.dports[1], flt.dports[2]))

\* can the pair be represented at all by the installation strategy (one true range of limited width)
IsTrueRange(r) == ~IsWildPorts(r) /\ r[1] # r[2]

\* pdrLookup entries of session u are exactly the image of its PDRs, given the session-level QER sq
PdrImageOK(obs, u, s, sq) ==
  LET mine == {e \in obs : e.fseid = u} IN
  /\ \A id \in DOMAIN s.pdrs :
        LET b == PdrBase(u, s.pdrs[id], sq)
            E == {e \in mine : EntryBase(e) = b}
        IN E # {} /\ PortsCovered(E, s.pdrs[id].flt)
  /\ \A e \in mine : \E id \in DOMAIN s.pdrs : EntryBase(e) = PdrBase(u, s.pdrs[id], sq)

FarActionCode(f) ==
  IF HasBit(f.action, ActFORW)
  THEN (IF f.dst \in {"access", "none"} THEN 0 ELSE IF f.dst \in {"core", "sgi"} THEN 1 ELSE 2)
  ELSE IF HasBit(f.action, ActDROP) THEN 2
  ELSE IF HasBit(f.action, ActBUFF) \/ HasBit(f.action, ActNOCP) THEN 4
  ELSE 2
FarEntry(u, f) ==
  [far |-> f.id, fseid |-> u, action |-> FarActionCode(f), ttype |-> IF f.ohc THEN 1 ELSE 0,
   tsrc |-> f.tsrc, tdst |-> f.peer, teid |-> f.teid, port |-> IF f.ohc THEN 2152 ELSE 0,
   gate |-> IF f.ohc THEN 1 ELSE 0]
FarImageOK(obs, u, s) == {e \in obs : e.fseid = u} = {FarEntry(u, s.fars[id]) : id \in DOMAIN s.fars}

\* keys only (C03: every QER has one uplink and one downlink entry, in the table of its level)
AppQerKeys(u, s, sq) == {[iface |-> i, qer |-> q, fseid |-> u] : i \in {1, 2}, q \in (DOMAIN s.qers) \ {sq}}
SessQerKeys(u, s, sq) == IF sq \in DOMAIN s.qers THEN {[iface |-> i, fseid |-> u] : i \in {1, 2}} ELSE {}
QerKeysOK(obsApp, obsSess, u, s, sq) ==
  /\ {[iface |-> e.iface, qer |-> e.qer, fseid |-> e.fseid] : e \in {x \in obsApp : x.fseid = u}} = AppQerKeys(u, s, sq)
  /\ {[iface |-> e.iface, fseid |-> e.fseid] : e \in {x \in obsSess : x.fseid = u}} = SessQerKeys(u, s, sq)
  /\ Cardinality({x \in obsApp : x.fseid = u}) = Cardinality(AppQerKeys(u, s, sq))     \* one entry per key
  /\ Cardinality({x \in obsSess : x.fseid = u}) = Cardinality(SessQerKeys(u, s, sq))

\* candidates for the session-level QER: a QER id of the session, or none (<<>>)
SessQerChoices(s) == (DOMAIN s.qers) \cup {<<>>}
\* C09: a QER may be the session-wide limiter only if every PDR of the session references it
SoundSessQer(s, sq) == sq = <<>> \/ \A id \in DOMAIN s.pdrs : sq \in SeqSet(s.pdrs[id].qers)

SessionImageOK(tables, u, s, sq) ==
  /\ PdrImageOK(tables.pdr, u, s, sq)
  /\ FarImageOK(tables.far, u, s)
  /\ QerKeysOK(tables.appQer, tables.sessQer, u, s, sq)

----------------------------------------------------------------------------
(* Named slack for the listed known finding F-QER-RELABEL (DESIGN 6): after a modification that      *)
(* creates or updates QERs the agent may label a QER differently in its store and in the datapath    *)
(* (application vs session level) without re-programming it, so that its entries stay in the table   *)
(* of the old level, old PDR entries keep the old QER id, and the entries outlive the session.       *)
(* For such sessions only, the QER part of                                                           *)
(* the image is relaxed to: every QER is represented in one of the two tables, and every PDR entry  *)
(* carries a QER id that some choice of session-level QER explains.  PDR match fields, FAR entries  *)
(* and every other session stay exact.                                                              *)
PdrImageRelabelOK(obs, u, s) ==
  LET mine == {e \in obs : e.fseid = u}
      Bases(p) == {PdrBase(u, p, sq) : sq \in SessQerChoices(s)}
  IN
  /\ \A id \in DOMAIN s.pdrs :
        \E b \in Bases(s.pdrs[id]) :
           LET E == {e \in mine : EntryBase(e) = b} IN E # {} /\ PortsCovered(E, s.pdrs[id].flt)
  /\ \A e \in mine : \E id \in DOMAIN s.pdrs : EntryBase(e) \in Bases(s.pdrs[id])
QerKeysRelabelOK(obsApp, obsSess, u, s) ==
  \A q \in DOMAIN s.qers :
     \/ \A i \in {1, 2} : \E e \in obsApp : e.fseid = u /\ e.qer = q /\ e.iface = i
     \/ \A i \in {1, 2} : \E e \in obsSess : e.fseid = u /\ e.iface = i
SessionImageRelabelOK(tables, u, s) ==
  /\ PdrImageRelabelOK(tables.pdr, u, s)
  /\ FarImageOK(tables.far, u, s)
  /\ QerKeysRelabelOK(tables.appQer, tables.sessQer, u, s)

\* tables: [pdr, far, appQer, sessQer : sets of entries]; sess: [token -> session]
\* nothing is present for tokens that are not live sessions, and each live session is represented exactly
\* relaxed: set of session tokens to which the named slack applies; exempt: tokens whose entries are not judged (C01 taint)
TablesAreImage(tables, sess, stale, relaxed, exempt) ==
  /\ \A u \in DOMAIN sess :
        \/ \E sq \in SessQerChoices(sess[u]) : SessionImageOK(tables, u, sess[u], sq)
        \/ u \in relaxed /\ SessionImageRelabelOK(tables, u, sess[u])
  /\ \A e \in tables.pdr \cup tables.far \cup tables.appQer \cup tables.sessQer :
        e.fseid \in DOMAIN sess \/ e \in stale \/ e.fseid \in exempt

\* nothing of ended sessions remains (C05); the same statement restricted to one token
NoEntriesOf(tables, u) ==
  \A e \in tables.pdr \cup tables.far \cup tables.appQer \cup tables.sessQer : e.fseid # u

----------------------------------------------------------------------------
(* C09 on BESS: QER values.  qos: configured burst parameters [qfi -> [cbs, pbs, ebs, dur]] with   *)
(* entry 0 always present (the agent installs a default for QFI 0).                                 *)
QosCfgOf(qos, qfi) == IF qfi \in DOMAIN qos THEN qos[qfi] ELSE qos[0]

\* floor(kbps * ms / 8) = bytes that arrive in ms milliseconds at kbps kbit/s
BurstOf(kbps, ms) == DivSmall(MulSmall(kbps, ms), 8)

\* e: observed QoS entry for direction dir ("ul" | "dl") of QER q
QerValuesOK(e, q, dir, qos) ==
  LET gateSig == IF dir = "ul" THEN q.ulGate ELSE q.dlGate
      mbr == IF dir = "ul" THEN q.ulMbr ELSE q.dlMbr
      gbr == IF dir = "ul" THEN q.ulGbr ELSE q.dlGbr
      c == QosCfgOf(qos, q.qfi)
  IN IF gateSig # 0 THEN e.gate = 5                                      \* closed gate drops that direction
     ELSE IF IsZero(mbr) /\ IsZero(gbr) THEN e.gate = 6                  \* both rates zero: unmetered
     ELSE /\ e.gate = 0
          /\ (Leq(gbr, mbr) =>
                /\ Eq(e.pir, BigMax(MulSmall(mbr, 125), BigMax(MulSmall(gbr, 125), <<1>>)))
                /\ Eq(e.cir, BigMax(MulSmall(gbr, 125), <<1>>)))
          /\ Leq(c.cbs, e.cbs) /\ Leq(c.pbs, e.pbs) /\ Leq(c.ebs, e.ebs)
          /\ Leq(BurstOf(gbr, c.dur), e.cbs) /\ Leq(BurstOf(mbr, c.dur), e.pbs) /\ Leq(BurstOf(mbr, c.dur), e.ebs)

\* relaxed reading for sessions under F-QER-RELABEL: every QER has, in one of the two tables, an uplink and a
\* downlink entry with the values it was last signalled with
QerValuesRelabelOK(tables, u, s, qos) ==
  \A q \in DOMAIN s.qers : \A i \in {1, 2} :
     \/ \E e \in tables.appQer : e.fseid = u /\ e.qer = q /\ e.iface = i /\ e.qfi = s.qers[q].qfi
                                  /\ QerValuesOK(e, s.qers[q], IF i = 1 THEN "ul" ELSE "dl", qos)
     \/ \E e \in tables.sessQer : e.fseid = u /\ e.iface = i /\ QerValuesOK(e, s.qers[q], IF i = 1 THEN "ul" ELSE "dl", qos)

QerImageValuesOK(tables, u, s, sq, qos) ==
  /\ \A e \in {x \in tables.appQer : x.fseid = u} :
        e.qer \in DOMAIN s.qers =>
          /\ QerValuesOK(e, s.qers[e.qer], IF e.iface = 1 THEN "ul" ELSE "dl", qos)
          /\ e.qfi = s.qers[e.qer].qfi
  /\ \A e \in {x \in tables.sessQer : x.fseid = u} :
        sq \in DOMAIN s.qers => QerValuesOK(e, s.qers[sq], IF e.iface = 1 THEN "ul" ELSE "dl", qos)
=============================================================================

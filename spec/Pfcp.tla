-------------------------------- MODULE Pfcp --------------------------------
(***************************************************************************)
(* Reference specification (R-spec) of the PFCP-level behaviour of the     *)
(* agent: associations, sessions with their current PDR/FAR/QER rules, PFD *)
(* tables, and the abstract allocators (UE addresses, TEIDs, SEIDs).       *)
(*                                                                         *)
(* It states WHAT must be true at the level of the properties C01-C14 and  *)
(* is deliberately silent about what the properties leave open (which free *)
(* address / TEID / SEID is chosen, whether a valid request is accepted).  *)
(* Everything the agent chose is an explicit parameter of the transition   *)
(* operators; the trace specification binds those parameters from what the *)
(* real agent answered, and the bounded model (MCPfcp) lets TLC choose     *)
(* them.                                                                   *)
(*                                                                         *)
(* Values: 32-bit quantities are limb pairs (Bits32), bit rates are BigNat *)
(* limb sequences, SEIDs and node ids are opaque tokens (strings).         *)
(* The reading of PFCP follows DESIGN Appendix A.1.                        *)
(***************************************************************************)
EXTENDS Integers, Sequences, FiniteSets, TLC, Bits32, BigNat

----------------------------------------------------------------------------
(* generic helpers *)
SeqSet(s) == {s[i] : i \in 1..Len(s)}
Override(f, g) == [x \in (DOMAIN f) \cup (DOMAIN g) |-> IF x \in DOMAIN g THEN g[x] ELSE f[x]]
Without(f, S) == [x \in (DOMAIN f) \ S |-> f[x]]
EmptyFn == [x \in {} |-> 0]
\* function built from a sequence of records, keyed by field "id" (later entries win)
ById(s) == [k \in {s[i].id : i \in 1..Len(s)} |->
              s[CHOOSE i \in 1..Len(s) : s[i].id = k /\ \A j \in (i + 1)..Len(s) : s[j].id # k]]
NoDupIds(s) == \A i, j \in 1..Len(s) : i # j => s[i].id # s[j].id

----------------------------------------------------------------------------
(* Port ranges as the agent reads them: <<lo, hi>>; 0-0 and 0-65535 both mean "any port" *)
WildPorts == <<0, 65535>>
IsWildPorts(r) == (r[1] = 0 /\ r[2] = 65535) \/ (r[1] = 0 /\ r[2] = 0)

----------------------------------------------------------------------------
(* Flow descriptions (IPFilterRule) -> application filter, DESIGN A.1                          *)
(* ast: [action, dir, proto (255 = no protocol match), src, dst],                               *)
(* endpoint: [kind: any|assigned|net, ip: V32, len, ports: none|one|range, lo, hi]              *)

EpNet(ep, ue) ==   \* <<address, mask>>
  CASE ep.kind = "any" -> <<Zero32, Zero32>>
    [] ep.kind = "assigned" -> IF ue = Zero32 THEN <<Zero32, Zero32>> ELSE <<ue, Full32>>
    [] OTHER -> <<And32(ep.ip, MaskOfLen(ep.len)), MaskOfLen(ep.len)>>
EpPorts(ep) ==
  CASE ep.ports = "none" -> WildPorts
    [] ep.ports = "one" -> <<ep.lo, ep.lo>>
    [] OTHER -> <<ep.lo, ep.hi>>

NoFilter == [sip |-> Zero32, smask |-> Zero32, dip |-> Zero32, dmask |-> Zero32,
             sports |-> <<0, 0>>, dports |-> <<0, 0>>, proto |-> 0, pmask |-> 0]

\* the match on the UE address that every PDR starts with (nothing if the UE address is 0 / absent)
BaseFilter(src, ue) ==
  IF ue = Zero32 THEN NoFilter
  ELSE IF src = "core" THEN [NoFilter EXCEPT !.dip = ue, !.dmask = Full32]
  ELSE IF src = "access" THEN [NoFilter EXCEPT !.sip = ue, !.smask = Full32]
  ELSE NoFilter

ProtoOf(ast, f) == IF ast.proto = 255 THEN f ELSE [f EXCEPT !.proto = ast.proto, !.pmask = 255]

\* verbatim: source -> packet source, destination -> packet destination (PFD-provisioned descriptions)
VerbatimFilter(ast, ue, f) ==
  LET s == EpNet(ast.src, ue)  d == EpNet(ast.dst, ue) IN
  [ProtoOf(ast, f) EXCEPT !.sip = s[1], !.smask = s[2], !.dip = d[1], !.dmask = d[2],
                          !.sports = EpPorts(ast.src), !.dports = EpPorts(ast.dst)]

\* The documented work-around of the agent for control planes that put the application's port on the
\* UE side of the description (named so that its effect is explicit; C08 reads it the same way).
PortWorkaround(src, f) ==
  IF src = "core" /\ ~IsWildPorts(f.dports) THEN [f EXCEPT !.sports = f.dports, !.dports = WildPorts]
  ELSE IF src = "access" /\ ~IsWildPorts(f.sports) THEN [f EXCEPT !.dports = f.sports, !.sports = WildPorts]
  ELSE f

\* inline SDF filter: oriented by the PDR's source interface
SdfFilter(ast, src, ue, f) ==
  LET s == EpNet(ast.src, ue)  d == EpNet(ast.dst, ue) IN
  IF src = "core"
  THEN PortWorkaround(src, [ProtoOf(ast, f) EXCEPT !.sip = s[1], !.smask = s[2], !.dip = d[1], !.dmask = d[2],
                                                   !.sports = EpPorts(ast.src), !.dports = EpPorts(ast.dst)])
  ELSE IF src = "access"
  THEN PortWorkaround(src, [ProtoOf(ast, f) EXCEPT !.sip = d[1], !.smask = d[2], !.dip = s[1], !.dmask = s[2],
                                                   !.sports = EpPorts(ast.dst), !.dports = EpPorts(ast.src)])
  ELSE ProtoOf(ast, f)

\* PFD table of a peer: [appId -> sequence of [ok |-> BOOLEAN, ast |-> ...]]
\* the description whose direction keyword is the agent's for this PDR direction, if the descriptions
\* before it all parse
AppDirKeyword(src) == IF src = "access" THEN "out" ELSE IF src = "core" THEN "in" ELSE "none"
RECURSIVE AppPick(_, _, _)
AppPick(flows, src, i) ==   \* 0 = none applies, -1 = an unparsable description stops the search
  IF i > Len(flows) THEN 0
  ELSE IF ~flows[i].ok THEN -1
  ELSE IF flows[i].ast.dir = AppDirKeyword(src) THEN i
  ELSE AppPick(flows, src, i + 1)

\* r: a PDR as sent (JSON shape, see TraceE2E), ue: the UE address that applies, tbl: PFD table of the peer
\* result: [ok |-> request not refused because of the filter, flt |-> filter]
PdrFilter(r, ue, tbl) ==
  LET base == BaseFilter(r.src, ue)
      afterApp ==
        IF r.app = "-" THEN [ok |-> TRUE, stop |-> FALSE, flt |-> base]
        ELSE IF r.app \notin DOMAIN tbl THEN [ok |-> FALSE, stop |-> TRUE, flt |-> base]
        ELSE LET k == AppPick(tbl[r.app], r.src, 1) IN
             IF k = -1 THEN [ok |-> TRUE, stop |-> TRUE, flt |-> base]
             ELSE IF k = 0 THEN [ok |-> TRUE, stop |-> FALSE, flt |-> base]
             ELSE [ok |-> TRUE, stop |-> FALSE, flt |-> VerbatimFilter(tbl[r.app][k].ast, ue, base)]
  IN IF afterApp.stop \/ r.sdf = "none" THEN [ok |-> afterApp.ok, flt |-> afterApp.flt]
     ELSE IF r.sdf = "flow" THEN [ok |-> TRUE, flt |-> SdfFilter(r.flow, r.src, ue, afterApp.flt)]
     ELSE \* "text": a description outside the grammar; its reading is bound by the trace (C08)
          [ok |-> TRUE, flt |-> afterApp.flt]

----------------------------------------------------------------------------
(* Rules as stored (normal form).  u: UP SEID token of the session.                              *)

\* r: PDR as sent; teid: TEID chosen by the agent for a CHOOSE F-TEID (Zero32 if none);
\* ue: UE address that applies (explicit, or the session's UP-allocated one); n3: access address
StoredPdr(r, teid, ue, n3, tbl) ==
  [id |-> r.id, prec |-> r.prec, src |-> r.src,
   tun |-> IF r.fteid = "choose" THEN <<n3, teid>>
           ELSE IF r.fteid = "explicit" /\ r.teid # Zero32 THEN <<r.tunip, r.teid>>
           ELSE <<>>,
   ue |-> ue,
   flt |-> PdrFilter(r, ue, tbl).flt,
   decap |-> IF r.ohr THEN 1 ELSE 0,
   far |-> r.far, qers |-> r.qers,
   choseTeid |-> r.fteid = "choose", choseUe |-> r.ue = "alloc"]

\* f: FAR as sent; create: Create FAR (Forwarding Parameters read only when FORW is set)
ActFORW == 2
ActDROP == 1
ActBUFF == 4
ActNOCP == 8
HasBit(x, b) == (x \div b) % 2 = 1
StoredFar(f, create, access, core) ==
  LET readFp == f.fp /\ (~create \/ HasBit(f.action, ActFORW)) IN
  [id |-> f.id, action |-> f.action,
   dst |-> IF readFp /\ f.dst # "" THEN f.dst ELSE "none",      \* "" and "none": no Destination Interface IE
   ohc |-> readFp /\ f.ohc,
   peer |-> IF readFp /\ f.ohc THEN f.peer ELSE Zero32,
   teid |-> IF readFp /\ f.ohc THEN f.teid ELSE Zero32,
   tsrc |-> IF readFp /\ f.dst = "access" THEN access ELSE IF readFp /\ f.dst = "core" THEN core ELSE Zero32,
   sndem |-> readFp /\ f.sndem]

StoredQer(q) == q    \* [id, qfi, ulGate, dlGate, ulMbr, dlMbr, ulGbr, dlGbr]

\* is a rule as sent well-formed enough for the agent's mandatory-element checks (DESIGN A.1)
PdrParses(r, tbl) == ~r.nofar /\ ~r.noprec /\ r.src \in {"access", "core", "other"} /\ PdrFilter(r, Zero32, tbl).ok
FarParses(f, create) == f.action # 0 /\ (create => (HasBit(f.action, ActFORW) => f.fp)) /\ (~create => f.fp)

----------------------------------------------------------------------------
(* Session state and the effect of requests on it *)

\* session: [peer, cp, pdrs: [id -> StoredPdr], fars: [id -> StoredFar], qers: [id -> StoredQer]]
NewSession(p, cp) == [peer |-> p, cp |-> cp, pdrs |-> EmptyFn, fars |-> EmptyFn, qers |-> EmptyFn]

\* teids: [pdr id -> chosen TEID] for the CHOOSE PDRs; ue: session's UP-allocated address or Zero32
UeOf(r, allocAddr) == IF r.ue = "explicit" THEN r.ueip ELSE IF r.ue = "alloc" THEN allocAddr ELSE Zero32
TeidOf(r, teids) == IF r.fteid = "choose" /\ r.id \in DOMAIN teids THEN teids[r.id] ELSE Zero32

PdrsOf(rs, teids, allocAddr, n3, tbl) ==
  ById([i \in 1..Len(rs) |-> StoredPdr(rs[i], TeidOf(rs[i], teids), UeOf(rs[i], allocAddr), n3, tbl)])
FarsOf(fs, create, access, core) == ById([i \in 1..Len(fs) |-> StoredFar(fs[i], create, access, core)])
QersOf(qs) == ById([i \in 1..Len(qs) |-> StoredQer(qs[i])])

\* Create: adds; Update: replaces the whole rule, an Update for an unknown id is skipped
ApplyCreates(s, req, teids, allocAddr, cfg, tbl) ==
  [s EXCEPT !.pdrs = Override(@, PdrsOf(req.cpdr, teids, allocAddr, cfg.access, tbl)),
            !.fars = Override(@, FarsOf(req.cfar, TRUE, cfg.access, cfg.core)),
            !.qers = Override(@, QersOf(req.cqer))]
\* in a modification a CHOOSE flag is parsed and then ignored: no TEID, no tunnel match
ModPdr(r) == IF r.fteid = "choose" THEN [r EXCEPT !.fteid = "ignored"] ELSE r
ApplyUpdates(s, req, allocAddr, cfg, tbl) ==
  LET up == PdrsOf([i \in 1..Len(req.updr) |-> ModPdr(req.updr[i])], EmptyFn, allocAddr, cfg.access, tbl)
      uf == FarsOf(req.ufar, FALSE, cfg.access, cfg.core)
      uq == QersOf(req.uqer)
  IN [s EXCEPT !.pdrs = Override(@, [k \in (DOMAIN up) \cap (DOMAIN @) |-> up[k]]),
               \* Update Forwarding Parameters carry the Destination Interface only when it changes: without it the FAR
               \* keeps its interface and the source address of its tunnel (everything else is replaced, DESIGN A.1)
               !.fars = Override(@, [k \in (DOMAIN uf) \cap (DOMAIN @) |->
                                       IF uf[k].dst = "none" THEN [uf[k] EXCEPT !.dst = s.fars[k].dst, !.tsrc = s.fars[k].tsrc] ELSE uf[k]]),
               !.qers = Override(@, [k \in (DOMAIN uq) \cap (DOMAIN @) |-> uq[k]])]
ApplyRemoves(s, req) ==
  [s EXCEPT !.pdrs = Without(@, SeqSet(req.rpdr)), !.fars = Without(@, SeqSet(req.rfar)), !.qers = Without(@, SeqSet(req.rqer))]
RemovesKnown(s, req) ==
  /\ SeqSet(req.rpdr) \subseteq DOMAIN s.pdrs /\ SeqSet(req.rfar) \subseteq DOMAIN s.fars /\ SeqSet(req.rqer) \subseteq DOMAIN s.qers

\* the session after an accepted modification
Modified(s, req, allocAddr, cfg, tbl) ==
  LET s1 == ApplyCreates(s, [req EXCEPT !.cpdr = [i \in 1..Len(req.cpdr) |-> ModPdr(req.cpdr[i])]], EmptyFn, allocAddr, cfg, tbl)
      s2 == ApplyUpdates(s1, req, allocAddr, cfg, tbl)
      s3 == ApplyRemoves(s2, req)
  IN IF req.newcp = "-" THEN s3 ELSE [s3 EXCEPT !.cp = req.newcp]

\* envelope of the request generators (DESIGN A.1): ids occur at most once per rule kind per message,
\* creates name fresh ids
ReqInEnvelope(s, req) ==
  /\ NoDupIds(req.cpdr) /\ NoDupIds(req.cfar) /\ NoDupIds(req.cqer)
  /\ NoDupIds(req.updr) /\ NoDupIds(req.ufar) /\ NoDupIds(req.uqer)
  /\ \A i \in 1..Len(req.cpdr) : req.cpdr[i].id \notin DOMAIN s.pdrs
  /\ \A i \in 1..Len(req.cfar) : req.cfar[i].id \notin DOMAIN s.fars
  /\ \A i \in 1..Len(req.cqer) : req.cqer[i].id \notin DOMAIN s.qers

----------------------------------------------------------------------------
(* End markers (C14): for every Update FAR of an existing FAR with the SNDEM flag, one marker to   *)
(* the tunnel the FAR used BEFORE the update                                                       *)
EndMarkersDue(s, req, cfg) ==
  IF ~cfg.endMarker THEN {}
  ELSE {[peer |-> s.fars[req.ufar[i].id].peer, teid |-> s.fars[req.ufar[i].id].teid, src |-> s.fars[req.ufar[i].id].tsrc] :
          i \in {j \in 1..Len(req.ufar) : req.ufar[j].id \in DOMAIN s.fars /\ req.ufar[j].fp /\ req.ufar[j].sndem}}
\* one marker per such rule: several rules may have used the same tunnel, so the markers due form a bag;
\* EndMarkersDueTo(s, req, cfg, t) is the number of rules whose old tunnel is t
EndMarkersDueTo(s, req, cfg, t) ==
  IF ~cfg.endMarker THEN 0
  ELSE Cardinality({j \in 1..Len(req.ufar) : req.ufar[j].id \in DOMAIN s.fars /\ req.ufar[j].fp /\ req.ufar[j].sndem /\
                      [peer |-> s.fars[req.ufar[j].id].peer, teid |-> s.fars[req.ufar[j].id].teid, src |-> s.fars[req.ufar[j].id].tsrc] = t})

----------------------------------------------------------------------------
(* Allocators (set based; C06, C07) *)

\* usable addresses of the pool <<net, len>>: inside the prefix, neither network nor broadcast address
InPool(a, pool) == Matches32(a, pool.net, MaskOfLen(pool.len))
IsNetAddr(a, pool) == a = And32(pool.net, MaskOfLen(pool.len))
IsBcastAddr(a, pool) == And32(a, Not32(MaskOfLen(pool.len))) = Not32(MaskOfLen(pool.len))
Usable(a, pool) == InPool(a, pool) /\ ~IsNetAddr(a, pool) /\ ~IsBcastAddr(a, pool)
PoolSize(pool) == 2^(32 - pool.len) - 2     \* for len >= 2 (fits an integer)

\* a legal result of lookup-or-allocate for session u that returned address a
IpAllocLegal(ipHeld, u, a, pool) ==
  IF u \in DOMAIN ipHeld THEN a = ipHeld[u]                            \* sticky
  ELSE Usable(a, pool) /\ \A v \in DOMAIN ipHeld : ipHeld[v] # a       \* in range, exclusive
\* refusal is legal only when every usable address is held
IpRefusalLegal(ipHeld, u, pool) == u \notin DOMAIN ipHeld /\ Cardinality({ipHeld[v] : v \in DOMAIN ipHeld}) >= PoolSize(pool)

TeidLegal(teidHeld, t) == t # Zero32 /\ t \notin teidHeld
SeidLegal(sess, p, u) == u # "zero" /\ ~(u \in DOMAIN sess /\ sess[u].peer = p)
=============================================================================

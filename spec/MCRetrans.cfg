SPECIFICATION RSpec
CONSTANTS N = 3
INVARIANTS AtMostOnePlusN DeadOnlyAfterAllTransmissions
PROPERTIES AnsweredStops DeadIsFinal
CHECK_DEADLOCK FALSE

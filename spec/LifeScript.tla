------------------------------ MODULE LifeScript ------------------------------
(***************************************************************************)
(* GEN for C10: the teardown schedules of one association, read off the    *)
(* as-coded life-cycle model (Lifecycle.tla).                              *)
(*                                                                         *)
(* The model is extended by one history variable, sig: every time a        *)
(* goroutine of the association calls Shutdown() (BeginSD in the model) an *)
(* element "goroutine.cause.step" is appended (a string), where           *)
(*   goroutine  "S" serve loop, "R" reader, "H" heartbeat monitor          *)
(*   cause      "ctx" (the agent is being stopped), "tmo" (read time-out), *)
(*              "release" (Association Release Request), "dead" (heartbeat *)
(*              budget exhausted)                                          *)
(*   step       how far the teardown of the association had got at that    *)
(*              moment: "idle" (nobody has called yet), "close" (entered,  *)
(*              channel not yet closed), "hb", "sess" (removing sessions), *)
(*              "send" (before the completion is sent to the node),        *)
(*              "sockclose", "done"                                        *)
(* TLC explores the complete graph of the model and prints every signature *)
(* it reaches (a line <<"SIG", sig>> per extension).  Which goroutine can  *)
(* still call at which step follows from the model - a reader that has     *)
(* reported the read time-out is gone, a serve loop woken by the closed    *)
(* channel returns without calling, the same goroutine never calls twice - *)
(* so the set is smaller than the product of causes and steps.  The        *)
(* harness (worker e2e-life-scope) forces each printed signature on the    *)
(* real agent through the scheduling gates: every caller is parked at the  *)
(* gate of its trigger, the first one is let go up to the gate of the      *)
(* step, then the next caller is let go; the recorded steps are validated  *)
(* by TraceE2E_C10.cfg like every other C10 trace.                         *)
(***************************************************************************)
EXTENDS Lifecycle

VARIABLE sig
svars == <<vars, sig>>

\* the association whose teardown is scripted
TheConn == CHOOSE c \in Conns : TRUE

Running(c) == {g \in G : sd[g].c = c /\ sd[g].step \notin {"none", "waitonce"}}
StepOf(c) ==
  IF once[c] = "no" THEN "idle"
  ELSE IF once[c] = "done" THEN "done"
  ELSE IF Running(c) = {} THEN "done"
  ELSE sd[CHOOSE g \in Running(c) : TRUE].step

\* goroutine g calls Shutdown in this step
Calls(g) == sd[g].step = "none" /\ sd'[g].step # "none"
CauseOf(g) ==
  IF g[1] = "R" THEN "release"
  ELSE IF g[1] = "H" THEN "dead"
  ELSE wake[g[2]]      \* "ctx" or "tmo"

SInit == Init /\ sig = ""
SNext ==
  /\ Next
  /\ IF \E g \in G : g[2] = TheConn /\ Calls(g)
     THEN LET g == CHOOSE h \in G : h[2] = TheConn /\ Calls(h)
              e == g[1] \o "." \o CauseOf(g) \o "." \o StepOf(TheConn) IN
          /\ sig' = (IF sig = "" THEN e ELSE sig \o "," \o e)
          /\ PrintT(<<"SIG", sig'>>)
     ELSE sig' = sig
SSpec == SInit /\ [][SNext]_svars

\* the signature does not influence the model: the design-level invariants are those of Lifecycle
=============================================================================

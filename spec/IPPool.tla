------------------------------- MODULE IPPool -------------------------------
(***************************************************************************)
(* UE IP address pool (C06).                                               *)
(*                                                                         *)
(* R-level: the set-based allocator.  A pool is a finite set Usable of     *)
(* addresses; held maps sessions to addresses.  Lookup-or-allocate returns *)
(* the held address (sticky) or ANY free address; it may refuse only when  *)
(* every address is held; release frees exactly the session's address.     *)
(* Which free address is handed out is not fixed (FIFO, LIFO, lowest ...   *)
(* all conform).                                                           *)
(*                                                                         *)
(* I-level: ip_pool.go as coded: a FIFO free list and an inventory map.    *)
(* MCIPPool checks that every I-level step is an R-level step (refinement  *)
(* by step simulation) on the complete state graphs of small pools.        *)
(***************************************************************************)
EXTENDS Naturals, Sequences, FiniteSets, TLC

CONSTANTS Usable,     \* set of usable addresses
          Sessions    \* set of session ids

NoAddr == "none"

----------------------------------------------------------------------------
(* R-level: legality of a call's outcome in state held *)
Free(held) == Usable \ {held[s] : s \in DOMAIN held}

\* lookup-or-allocate for s returned address a
AllocOK(held, s, a) == IF s \in DOMAIN held THEN a = held[s] ELSE a \in Free(held)
\* lookup-or-allocate for s was refused
RefuseOK(held, s) == s \notin DOMAIN held /\ Free(held) = {}
\* release of s: succeeded / failed
FreeOK(held, s, ok) == ok <=> s \in DOMAIN held

AfterAlloc(held, s, a) == [x \in (DOMAIN held) \cup {s} |-> IF x = s THEN a ELSE held[x]]
AfterFree(held, s) == [x \in (DOMAIN held) \ {s} |-> held[x]]

\* invariants of the R-level state
Exclusive(held) == \A s, t \in DOMAIN held : s # t => held[s] # held[t]
InRange(held) == \A s \in DOMAIN held : held[s] \in Usable

----------------------------------------------------------------------------
(* I-level: FIFO free list + inventory, as coded *)
VARIABLES freeList, inventory, lastOp
ivars == <<freeList, inventory, lastOp>>

\* the initial free list is the usable range in ascending order; any order satisfies the R-level
IInit(order) == freeList = order /\ inventory = [s \in {} |-> NoAddr] /\ lastOp = [op |-> "init"]

ILookupOrAlloc(s) ==
  IF s \in DOMAIN inventory
  THEN /\ lastOp' = [op |-> "alloc", s |-> s, ok |-> TRUE, ip |-> inventory[s], pre |-> inventory]
       /\ UNCHANGED <<freeList, inventory>>
  ELSE IF Len(freeList) = 0
  THEN /\ lastOp' = [op |-> "alloc", s |-> s, ok |-> FALSE, ip |-> NoAddr, pre |-> inventory]
       /\ UNCHANGED <<freeList, inventory>>
  ELSE /\ inventory' = AfterAlloc(inventory, s, Head(freeList))
       /\ freeList' = Tail(freeList)
       /\ lastOp' = [op |-> "alloc", s |-> s, ok |-> TRUE, ip |-> Head(freeList), pre |-> inventory]

IDealloc(s) ==
  IF s \in DOMAIN inventory
  THEN /\ freeList' = Append(freeList, inventory[s])
       /\ inventory' = AfterFree(inventory, s)
       /\ lastOp' = [op |-> "free", s |-> s, ok |-> TRUE, pre |-> inventory]
  ELSE /\ lastOp' = [op |-> "free", s |-> s, ok |-> FALSE, pre |-> inventory]
       /\ UNCHANGED <<freeList, inventory>>

INext == \E s \in Sessions : ILookupOrAlloc(s) \/ IDealloc(s)

\* refinement: the last I-level step is a legal R-level step from the state before it
StepRefines ==
  CASE lastOp.op = "init" -> TRUE
    [] lastOp.op = "alloc" -> IF lastOp.ok THEN AllocOK(lastOp.pre, lastOp.s, lastOp.ip) /\ inventory = AfterAlloc(lastOp.pre, lastOp.s, lastOp.ip)
                              ELSE RefuseOK(lastOp.pre, lastOp.s) /\ inventory = lastOp.pre
    [] lastOp.op = "free" -> FreeOK(lastOp.pre, lastOp.s, lastOp.ok) /\ inventory = (IF lastOp.ok THEN AfterFree(lastOp.pre, lastOp.s) ELSE lastOp.pre)
IExclusive == Exclusive(inventory)
IInRange == InRange(inventory)
\* conservation: held and free partition the usable set, no address twice in the free list
IConserved ==
  /\ {freeList[i] : i \in 1..Len(freeList)} \cup {inventory[s] : s \in DOMAIN inventory} = Usable
  /\ Len(freeList) + Cardinality(DOMAIN inventory) = Cardinality(Usable)
=============================================================================

------------------------------- MODULE Bits32 -------------------------------
(* 32-bit values as pairs <<hi16, lo16>> of 16-bit limbs (TLC integers are 32-bit signed and the *)
(* Json module wraps numbers >= 2^31), with the bitwise operations and the order the             *)
(* specifications need.                                                                          *)
EXTENDS Naturals, Sequences, Bitwise

L16 == 65535
Zero32 == <<0, 0>>
Full32 == <<L16, L16>>
IsV32(x) == Len(x) = 2 /\ x[1] \in 0..L16 /\ x[2] \in 0..L16

And32(a, b) == <<a[1] & b[1], a[2] & b[2]>>
Not32(a)    == <<L16 - a[1], L16 - a[2]>>
Lt32(a, b)  == a[1] < b[1] \/ (a[1] = b[1] /\ a[2] < b[2])
Le32(a, b)  == a = b \/ Lt32(a, b)

\* network mask of a prefix length 0..32
Mask16(n) == IF n <= 0 THEN 0 ELSE IF n >= 16 THEN L16 ELSE L16 - (2^(16 - n) - 1)
MaskOfLen(n) == <<Mask16(n), Mask16(n - 16)>>

\* a value matches (value, mask) iff it agrees on the mask bits
Matches32(x, v, m) == And32(x, m) = And32(v, m)
\* a + 1 and a - 1 with wrap-around (boundary samples)
Inc32(a) == IF a[2] < L16 THEN <<a[1], a[2] + 1>> ELSE IF a[1] < L16 THEN <<a[1] + 1, 0>> ELSE Zero32
Dec32(a) == IF a[2] > 0 THEN <<a[1], a[2] - 1>> ELSE IF a[1] > 0 THEN <<a[1] - 1, L16>> ELSE Full32
=============================================================================

SPECIFICATION Spec
CONSTANTS N = 4
  MaxRetries = 100
INVARIANTS DesignOK Emit
CHECK_DEADLOCK FALSE

---------------------------- MODULE Up4QosScript ----------------------------
(***************************************************************************)
(* GEN: the control-plane scripts of the bounded-exhaustive QoS part of    *)
(* C09 on the UP4 datapath.  One session whose QERs change: which of a     *)
(* session's QERs the agent takes for the session QER depends on which     *)
(* PDRs refer to it, on the guaranteed rates and on the order of the       *)
(* maximum rates (session_qer.go MarkSessionQer, re-run on every           *)
(* modification), while the meters on the switch are allocated once.  The  *)
(* shapes of the establishment and the operations below span those         *)
(* dimensions; TLC enumerates every behaviour of N operations and prints   *)
(* each as a line <<"SEQ", <<op, ...>>>>; the harness replays every        *)
(* printed script into the real agent (worker e2e-up4-qos) and the         *)
(* recorded steps are validated by TraceE2E_C09.cfg.                       *)
(***************************************************************************)
EXTENDS Naturals, Sequences, TLC

CONSTANT N              \* length of the scripts

VARIABLES live, nf, sq, hist    \* session live, its number of flows, it has a session-level QER, operations so far
vars == <<live, nf, sq, hist>>

\* establishment shapes: number of flows (1, 2), session-level QER (s) or none (n), flow QERs without (z) / with (g) guaranteed rates,
\* or without guaranteed rate and with a maximum rate above the session-level QER's (b)
Shapes == {"E:1sz", "E:1sg", "E:1sb", "E:1nz", "E:1ng", "E:2sz", "E:2sg", "E:2sb", "E:2nz", "E:2ng"}
Flows(sh) == IF sh \in {"E:1sz", "E:1sg", "E:1sb", "E:1nz", "E:1ng"} THEN 1 ELSE 2
HasSq(sh) == sh \in {"E:1sz", "E:1sg", "E:1sb", "E:2sz", "E:2sg", "E:2sb"}

Init == live = FALSE /\ nf = 0 /\ sq = FALSE /\ hist = <<>>

Do(op) == hist' = Append(hist, op)
Next ==
  /\ Len(hist) < N
  /\ \/ ~live /\ \E sh \in Shapes : live' = TRUE /\ nf' = Flows(sh) /\ sq' = HasSq(sh) /\ Do(sh)
     \* the session-level QER gets a rate below / above the flows' rates
     \/ live /\ sq /\ UNCHANGED <<live, nf, sq>> /\ (Do("sq:low") \/ Do("sq:high"))
     \* the first flow's QER: same rate in both directions, different rates, a rate above the session-level QER's, gates
     \/ live /\ UNCHANGED <<live, nf, sq>> /\ (Do("fq:sym") \/ Do("fq:asym") \/ Do("fq:big") \/ Do("fq:gate"))
     \/ live /\ nf < 3 /\ nf' = nf + 1 /\ UNCHANGED <<live, sq>> /\ Do("add")
     \/ live /\ nf > 1 /\ nf' = nf - 1 /\ UNCHANGED <<live, sq>> /\ Do("rm")
     \/ live /\ live' = FALSE /\ nf' = 0 /\ sq' = FALSE /\ Do("D")
Spec == Init /\ [][Next]_vars

\* always true; prints the complete scripts
Emit == (Len(hist) = N) => PrintT(<<"SEQ", hist>>)
=============================================================================

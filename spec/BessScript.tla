------------------------------ MODULE BessScript ------------------------------
(***************************************************************************)
(* GEN: the control-plane scripts of the bounded-exhaustive part of C03.   *)
(* Two sessions A (association p1) and B (association p2) and what a       *)
(* control plane - or a crash - can do to them.  TLC enumerates every      *)
(* behaviour of N operations and prints each as <<"SEQ", <<op, ...>>>>;    *)
(* the harness replays every script into the real agent on the BESS        *)
(* datapath (worker e2e-bess-scope) and the recorded steps are validated   *)
(* against BessImage by TraceE2E_C03.cfg.                                  *)
(***************************************************************************)
EXTENDS Naturals, Sequences, TLC

CONSTANT N              \* length of the scripts

VARIABLES a, b, hist    \* A live, B live, operations so far
vars == <<a, b, hist>>

\* Update FAR (handover), Update QER, Update PDR, new bearer, bearer removed, new CP F-SEID; a modification that is
\* refused half way (rules updated / removed in the same message before an unknown Remove id), a modification without
\* any rule, every rule of the session removed (the session stays and is modified further)
\* A:ufarn: a handover whose Update Forwarding Parameters carry the new Outer Header Creation alone (no Destination Interface:
\* the FAR keeps its interface - also the second time in a row)
OpsA == {"A:ufar", "A:ufarn", "A:uqer", "A:updr", "A:add", "A:rm", "A:newcp", "A:rej", "A:empty", "A:rmall"}
OpsB == {"B:ufar", "B:rm"}

Init == a = FALSE /\ b = FALSE /\ hist = <<>>

Do(op) == hist' = Append(hist, op)
Next ==
  /\ Len(hist) < N
  /\ \/ ~a /\ a' = TRUE /\ UNCHANGED b /\ Do("EA")
     \/ ~b /\ b' = TRUE /\ UNCHANGED a /\ Do("EB")
     \/ a /\ UNCHANGED <<a, b>> /\ \E op \in OpsA : Do(op)
     \/ b /\ UNCHANGED <<a, b>> /\ \E op \in OpsB : Do(op)
     \/ a /\ a' = FALSE /\ UNCHANGED b /\ (Do("DA") \/ Do("XA"))         \* delete A / release A's association
     \/ b /\ b' = FALSE /\ UNCHANGED a /\ Do("DB")
     \/ (a \/ b) /\ a' = FALSE /\ b' = FALSE /\ Do("KILL")                \* SIGKILL with live sessions, restart against the populated tables
Spec == Init /\ [][Next]_vars

Emit == (Len(hist) = N) => PrintT(<<"SEQ", hist>>)
=============================================================================

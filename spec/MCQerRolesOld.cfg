SPECIFICATION Spec
CONSTANTS
  Rates = {1, 2, 3}
  RoleByPosition = TRUE
  GateFromFirstOnly = FALSE
INVARIANTS TypeOK C09_EveryQerEnforced
CHECK_DEADLOCK FALSE

------------------------------- MODULE BigNat -------------------------------
(* Natural numbers beyond 2^31 as little-endian sequences of base-10^4 limbs (<<>> is zero).     *)
(* Every intermediate value stays below 2^31.  Used for bit rates, burst sizes and the REST      *)
(* unit conversion.                                                                               *)
EXTENDS Naturals, Sequences

Base == 10000
IsBig(a) == \A i \in 1..Len(a) : a[i] \in 0..(Base - 1)

RECURSIVE Trim(_)
Trim(a) == IF a # <<>> /\ a[Len(a)] = 0 THEN Trim(SubSeq(a, 1, Len(a) - 1)) ELSE a

RECURSIVE LeqFrom(_, _, _)
LeqFrom(a, b, i) == IF i = 0 THEN TRUE
                    ELSE IF a[i] < b[i] THEN TRUE
                    ELSE IF a[i] > b[i] THEN FALSE ELSE LeqFrom(a, b, i - 1)
Leq(x, y) == LET a == Trim(x) b == Trim(y) IN IF Len(a) # Len(b) THEN Len(a) < Len(b) ELSE LeqFrom(a, b, Len(a))
Eq(x, y)  == Trim(x) = Trim(y)
Lt(x, y)  == Leq(x, y) /\ ~Eq(x, y)
IsZero(x) == Trim(x) = <<>>
BigMax(x, y) == IF Leq(x, y) THEN y ELSE x

RECURSIVE AddC(_, _, _)
AddC(a, b, c) == IF a = <<>> /\ b = <<>> THEN (IF c = 0 THEN <<>> ELSE <<c>>)
                 ELSE LET x == IF a = <<>> THEN 0 ELSE Head(a)
                          y == IF b = <<>> THEN 0 ELSE Head(b)
                          t == x + y + c
                      IN <<t % Base>> \o AddC(IF a = <<>> THEN <<>> ELSE Tail(a), IF b = <<>> THEN <<>> ELSE Tail(b), t \div Base)
Add(a, b) == AddC(a, b, 0)

\* a * k for a small k (k < 100000 keeps Head(a) * k + carry below 2^31)
RECURSIVE MulSmallC(_, _, _)
MulSmallC(a, k, carry) ==
  IF a = <<>> THEN (IF carry = 0 THEN <<>> ELSE <<carry % Base>> \o MulSmallC(<<>>, k, carry \div Base))
  ELSE LET t == Head(a) * k + carry IN <<t % Base>> \o MulSmallC(Tail(a), k, t \div Base)
MulSmall(a, k) == Trim(MulSmallC(a, k, 0))

RECURSIVE Mul(_, _)
Mul(a, b) == IF b = <<>> THEN <<>> ELSE Add(MulSmall(a, Head(b)), IF Mul(a, Tail(b)) = <<>> THEN <<>> ELSE <<0>> \o Mul(a, Tail(b)))

\* floor(a / k) for a small k (k < 100000)
DivSmall(a, k) ==
  LET RECURSIVE Go(_, _)
      Go(i, rem) == IF i = 0 THEN <<>>
                    ELSE LET cur == rem * Base + a[i] IN Go(i - 1, cur % k) \o <<cur \div k>>
  IN Trim(Go(Len(a), 0))

FromNat(n) == IF n = 0 THEN <<>> ELSE IF n < Base THEN <<n>> ELSE <<n % Base, (n \div Base) % Base, n \div (Base * Base)>>
=============================================================================

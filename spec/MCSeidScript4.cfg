SPECIFICATION Spec
CONSTANTS N = 5
  MaxRetries = 100
INVARIANTS DesignOK Emit
CHECK_DEADLOCK FALSE

SPECIFICATION Spec
CONSTANTS
  Rates = {1, 2, 3}
  RoleByPosition = FALSE
  GateFromFirstOnly = FALSE
INVARIANTS TypeOK C09_EveryQerEnforced C09_QfiFromOwnQer C09_EveryGateHonoured C04_CellsInTheirRole
CHECK_DEADLOCK FALSE

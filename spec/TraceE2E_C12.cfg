SPECIFICATION Spec
CONSTANTS KnownDevs = {}
INVARIANTS
  InEnvelope
  C12_AtMostOnePlusNTransmissions
  C12_SpacedByResponseTimeout
  C12_StopsOnResponseDeadOnlyWhenAllUnanswered
  C12_PeerHeartbeatPostponesOwn
  C12_RecoveryTimeStampConstant
  C12_AssociationAcceptedIffConnected
  C12_FeaturesMatchConfiguration
  C12_HeartbeatAnsweredAnyTime
  C05_NoDatapathResidue
POSTCONDITION TraceAccepted
ALIAS Alias
CHECK_DEADLOCK FALSE

SPECIFICATION Spec
CONSTANTS
  Rates = {1, 2, 3}
  RoleByPosition = FALSE
  GateFromFirstOnly = TRUE
INVARIANTS TypeOK C09_QfiFromOwnQer
CHECK_DEADLOCK FALSE

SPECIFICATION Spec
CONSTANTS
  Key = {k1, k2, k3}
  User = {u1, u2, u3}
  MaxId = 2
  MaxFaults = 3
  ReleaseEarly = TRUE
INVARIANTS
  TypeOK
  NotFreeWhileInUse
  NoIdTwice
  OneKeyPerId
  HoldersAreUsers
  HeldMeansProgrammed
  CleanImage
CHECK_DEADLOCK FALSE

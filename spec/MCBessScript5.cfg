SPECIFICATION Spec
CONSTANTS N = 5
INVARIANTS Emit
CHECK_DEADLOCK FALSE

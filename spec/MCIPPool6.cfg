SPECIFICATION Spec
CONSTANTS
  N = 4
  Usable <- UsableDef
  Sessions = {"s1", "s2", "s3", "s4", "s5", "s6"}
INVARIANTS StepRefines IExclusive IInRange IConserved
CHECK_DEADLOCK FALSE

SPECIFICATION Spec
CONSTANTS
  W = 8
  ExactLimit = 100
INVARIANTS AcceptedImpliesExact TrivialExact TernaryTotal ExactRefusal
CHECK_DEADLOCK FALSE

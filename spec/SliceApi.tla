------------------------------ MODULE SliceApi ------------------------------
(***************************************************************************)
(* The slice-configuration REST endpoint (C19), reference specification.   *)
(*                                                                         *)
(* Request(method, body) -> HTTP status and effect on the slice meter.     *)
(*  - PUT / POST with a well-formed network-slice document: 201, and the   *)
(*    slice meter holds, per direction, peak rate = floor(bps / 8) bytes/s *)
(*    with bps = posted MBR converted by the stated unit (bps, Kbps, Mbps, *)
(*    Gbps; Mbps when unstated or unknown), peak burst = the posted burst  *)
(*    size (the default when none).  Asserted exactly when the posted rate *)
(*    is non-zero and the converted value fits in 63 bits.                 *)
(*  - unreadable or malformed body: exactly one 4xx, datapath untouched.   *)
(*  - other methods: 405, datapath untouched.                              *)
(* Rates are BigNat limb sequences (64-bit values do not fit TLC ints).    *)
(***************************************************************************)
EXTENDS Naturals, Sequences, FiniteSets, TLC, BigNat

UnitFactor(u) == CASE u = "bps" -> <<1>> [] u = "Kbps" -> <<1000>> [] u = "Gbps" -> <<0, 0, 10>> [] OTHER -> <<0, 100>>   \* Mbps default
Two63 == <<5808, 5477, 368, 3372, 922>>      \* 2^63 = 9223372036854775808
Converted(mbr, unit) == Mul(mbr, UnitFactor(unit))
Fits63(x) == Lt(x, Two63)

DefaultBurst == <<8448, 4>>                   \* 32 * 1514 = 48448 bytes
\* slice-meter entry of one direction: [gate, cir, pir, cbs, pbs]
\* gate 0 = metered, 6 = unmetered
\* (a posted rate of zero is outside the statement: the code programs the 63-bit maximum for it unless the unit is bps)
DirOK(e, mbr, unit, burst) ==
  LET bps == Converted(mbr, unit) IN
  (~IsZero(mbr) /\ Fits63(bps)) =>
    /\ e.gate = 0
    /\ Eq(e.pir, DivSmall(bps, 8)) /\ Eq(e.cir, <<1>>)
    /\ Eq(e.pbs, IF IsZero(burst) THEN DefaultBurst ELSE burst)

\* UP4: one cell of slice_tc_meter (unit: bytes) for both directions, at index (slice << 2) + default TC, holding the
\* larger of the two converted rates with the burst posted for that direction.  Asserted when both rates are non-zero
\* and fit 63 bits; a posted burst of zero is not constrained.
\* (P4Runtime meter configurations are signed 64-bit: a posted burst of 2^63 bytes or more has no representation and
\* is not constrained either)
CellOK(c, mbr, unit, burst) ==
  /\ Eq(c.pir, DivSmall(Converted(mbr, unit), 8)) /\ IsZero(c.cir)
  /\ (IsZero(burst) \/ ~Fits63(burst)) \/ (~c.neg /\ Eq(c.pbs, burst))
Up4OK(e) ==
  LET ulb == Converted(e.ul, e.unit)  dlb == Converted(e.dl, e.unit)
      C == {e.cells[i] : i \in 1..Len(e.cells)}
      mine == {c \in C : c.idx = e.cellIdx} IN
  (~IsZero(e.ul) /\ ~IsZero(e.dl) /\ Fits63(ulb) /\ Fits63(dlb)) =>
    /\ Cardinality(mine) = 1
    /\ \A c \in mine :
         \/ Leq(dlb, ulb) /\ CellOK(c, e.ul, e.unit, e.ulBurst)
         \/ Leq(ulb, dlb) /\ CellOK(c, e.dl, e.unit, e.dlBurst)

MethodWrites(m) == m \in {"PUT", "POST"}
=============================================================================

SPECIFICATION Spec
CONSTANTS KnownDevs = {}
INVARIANTS
  Up4Envelope
  InEnvelope
  EnvDistinctMatchKeys
  C08_FilterMeansWhatItSays
  C08_PfdTableReplacedOrKept
  C08_Up4ApplicationsMeanWhatTheySay
  C08_ProvisionedApplicationUsable
  C02_ExactlyOneResponse
POSTCONDITION TraceAccepted
ALIAS Alias
CHECK_DEADLOCK FALSE

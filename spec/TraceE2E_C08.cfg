SPECIFICATION Spec
CONSTANTS KnownDevs = {}
INVARIANTS
  InEnvelope
  EnvDistinctMatchKeys
  C08_FilterMeansWhatItSays
  C08_PfdTableReplacedOrKept
  C08_ProvisionedApplicationUsable
  C02_ExactlyOneResponse
POSTCONDITION TraceAccepted
ALIAS Alias
CHECK_DEADLOCK FALSE

SPECIFICATION Spec
CONSTANTS KnownDevs = {}
INVARIANTS
  C08_FilterMeansWhatItSays
  C08_PfdTableReplacedOrKept
  C08_ProvisionedApplicationUsable
  C02_ExactlyOneResponse
  InEnvelope
  EnvDistinctMatchKeys
POSTCONDITION TraceAccepted
ALIAS Alias
CHECK_DEADLOCK FALSE

SPECIFICATION Spec
CONSTANTS KnownDevs = {}
INVARIANTS
  InEnvelope
  C02_ExactlyOneResponse
  C02_ResponseTypeMatches
  C02_SequenceNumberEchoed
  C02_HeaderSeidAddressing
  C02_CauseCarried
  C02_EstablishmentResponseShape
  C02_CreatedPdrPerChosenValue
  C02_FseidAddressesSession
POSTCONDITION TraceAccepted
ALIAS Alias
CHECK_DEADLOCK FALSE

SPECIFICATION Spec
CONSTANTS KnownDevs = {}
INVARIANTS
  C02_ExactlyOneResponse
  C02_ResponseTypeMatches
  C02_SequenceNumberEchoed
  C02_HeaderSeidAddressing
  C02_CauseCarried
  C02_EstablishmentResponseShape
  C02_CreatedPdrPerChosenValue
  C02_FseidAddressesSession
  InEnvelope
POSTCONDITION TraceAccepted
ALIAS Alias
CHECK_DEADLOCK FALSE

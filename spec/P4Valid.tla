------------------------------ MODULE P4Valid ------------------------------
(***************************************************************************)
(* Reference specification (R-spec) of "a P4Runtime write conforms to the  *)
(* pipeline's P4Info" (C16).                                               *)
(*                                                                         *)
(* info: the P4Info the harness' switch serves (parsed by the harness from *)
(*   the shipped conf/p4/bin/p4info.txt, not taken from the agent):        *)
(*   [tables: Seq([id: V32, fields: Seq([id, kind, width]),                *)
(*                 actions: Seq([id: V32, defaultOnly]), needPrio, size]), *)
(*    actions: Seq([id: V32, params: Seq([id, width])]),                   *)
(*    meters, counters: Seq([id: V32, size])]                              *)
(* w: one update as received (harness e2e/up4.go writeJSON): ids and byte  *)
(*   strings exactly as sent, values as [v: V32, big, len].                *)
(***************************************************************************)
EXTENDS Integers, Sequences, FiniteSets, Bits32

SeqSetV(s) == {s[i] : i \in 1..Len(s)}
Pow2(n) == 2^n

\* the value (a byte string read as an unsigned integer) fits width bits
Fits(x, width) ==
  /\ ~x.big
  /\ x.len >= 1                                 \* P4Runtime: the empty byte string is not a value
  /\ IF width >= 32 THEN TRUE
     ELSE IF width > 16 THEN x.v[1] < Pow2(width - 16)
     ELSE x.v[1] = 0 /\ x.v[2] < Pow2(width)

MatchFits(m, f) ==
  CASE m.kind = "EXACT" -> Fits(m.a, f.width)
    [] m.kind = "LPM" -> Fits(m.a, f.width) /\ m.plen >= 0 /\ m.plen <= f.width
    [] m.kind = "TERNARY" -> Fits(m.a, f.width) /\ Fits(m.b, f.width)
    [] m.kind = "RANGE" -> Fits(m.a, f.width) /\ Fits(m.b, f.width)
    [] OTHER -> FALSE

\* every match belongs to the table, has the declared kind and fits; no field twice
MatchesValid(w, t) ==
  /\ \A i \in 1..Len(w.match) : \E f \in SeqSetV(t.fields) : f.id = w.match[i].id /\ f.kind = w.match[i].kind /\ MatchFits(w.match[i], f)
  /\ \A i, j \in 1..Len(w.match) : i # j => w.match[i].id # w.match[j].id

\* the action is one the table allows for entries and carries exactly its declared parameters, each fitting
ActionValid(w, t, info) ==
  /\ \E r \in SeqSetV(t.actions) : r.id = w.action /\ ~r.defaultOnly
  /\ \E a \in SeqSetV(info.actions) : a.id = w.action /\
       /\ {w.params[i].id : i \in 1..Len(w.params)} = {a.params[i].id : i \in 1..Len(a.params)}
       /\ Len(w.params) = Len(a.params)
       /\ \A i \in 1..Len(w.params) : \E p \in SeqSetV(a.params) : p.id = w.params[i].id /\ Fits(w.params[i].a, p.width)

TableWriteValid(w, info) ==
  \E t \in SeqSetV(info.tables) : t.id = w.table /\
     /\ MatchesValid(w, t)
     /\ (w.op \in {"INSERT", "MODIFY"}) => w.hasAction
     /\ w.hasAction => ActionValid(w, t, info)
     /\ t.needPrio => w.prio > 0

IndexWriteValid(w, arrays) ==
  \E a \in SeqSetV(arrays) : a.id = w.obj /\ w.op = "MODIFY" /\ (w.hasIndex => (w.index >= 0 /\ w.index < a.size))

WriteValid(w, info) ==
  CASE w.kind = "table" -> w.op \in {"INSERT", "MODIFY", "DELETE"} /\ TableWriteValid(w, info)
    [] w.kind = "meter" -> IndexWriteValid(w, info.meters)
    [] w.kind = "counter" -> IndexWriteValid(w, info.counters)
    [] OTHER -> FALSE

\* which clause fails (for the error trace)
WriteDiag(w, info) ==
  IF w.kind # "table" THEN [kind |-> w.kind, ok |-> WriteValid(w, info)]
  ELSE IF ~\E t \in SeqSetV(info.tables) : t.id = w.table THEN [kind |-> "table", table |-> "unknown"]
  ELSE LET t == CHOOSE x \in SeqSetV(info.tables) : x.id = w.table IN
       [kind |-> "table", table |-> t.name, op |-> w.op, matches |-> MatchesValid(w, t),
        action |-> (w.hasAction => ActionValid(w, t, info)), hasAction |-> w.hasAction, prio |-> (t.needPrio => w.prio > 0), prioValue |-> w.prio]
=============================================================================

SPECIFICATION Spec
INVARIANTS C18_ReturnedConfigurationIsValidated C18_DefaultsFilledIn C18_CommentsNeverAlterValues C18_ShippedSamplesLoad
POSTCONDITION TraceAccepted
ALIAS Alias
CHECK_DEADLOCK FALSE

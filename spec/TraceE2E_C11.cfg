SPECIFICATION Spec
CONSTANTS KnownDevs = {"F-QER-RELABEL"}
INVARIANTS
  InEnvelope
  EnvDistinctMatchKeys
  Up4Envelope
  C02_ExactlyOneResponse
  C02_ResponseTypeMatches
  C02_SequenceNumberEchoed
  C02_HeaderSeidAddressing
  C02_CauseCarried
  C02_EstablishmentResponseShape
  C03_TablesAreImage
  C04_TablesAreImage
  C05_NoDatapathResidue
  C05_Up4PoolsRestored
  C05_DeletionOfLiveSessionNotRefused
  C05_SessionRecordsForgotten
  C05_AddressesReturned
  C05_TeidsReturned
  C05_GaugeCountsLiveSessions
  C07_SeidFreshPerAssociation
  C07_TeidNonZeroAndUnique
  C15_CounterCellsExclusive
  C15_MeterCellsExclusive
  C15_NotFreeWhileInUse
  C15_NoIdTwiceInPool
  C15_PeerIdsInUseStayAllocated
POSTCONDITION TraceAccepted
ALIAS Alias
CHECK_DEADLOCK FALSE

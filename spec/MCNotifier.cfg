SPECIFICATION NSpec
CONSTANTS
  Sessions = {"a", "b", "c"}
  Interval = 3
  MaxTime = 8
INVARIANTS AtMostOncePerInterval FirstNeverSuppressed
CHECK_DEADLOCK FALSE

SPECIFICATION Spec
CONSTANTS KnownDevs = {"F-QER-RELABEL"}
INVARIANTS
  InEnvelope
  EnvDistinctMatchKeys
  C03_TablesAreImage
  C03_UnknownOrUnassociatedRejected
  C03_RejectedWritesNothing
  C03_StartClearsLookupModules
POSTCONDITION TraceAccepted
ALIAS Alias
CHECK_DEADLOCK FALSE

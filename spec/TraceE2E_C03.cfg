SPECIFICATION Spec
CONSTANTS KnownDevs = {"F-QER-RELABEL"}
INVARIANTS
  C03_TablesAreImage
  C03_UnknownOrUnassociatedRejected
  C03_RejectedWritesNothing
  C03_StartClearsLookupModules
  InEnvelope
  EnvDistinctMatchKeys
POSTCONDITION TraceAccepted
ALIAS Alias
CHECK_DEADLOCK FALSE

SPECIFICATION Spec
CONSTANTS
  N = 2
  Usable <- UsableDef
  Sessions = {"s1", "s2", "s3", "s4"}
INVARIANTS StepRefines IExclusive IInRange IConserved
CHECK_DEADLOCK FALSE

SPECIFICATION Spec
CONSTANTS
  Conns = {c1, c2}
  Sess = {s1, s2}
  K = 1
  OwnerOf <- OwnerOf2
INVARIANTS NoPanic DeletedAtMostOnce NoDeleteAgainstClosedDatapath StoppedClean
CHECK_DEADLOCK FALSE

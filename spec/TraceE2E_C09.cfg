SPECIFICATION Spec
CONSTANTS KnownDevs = {}
INVARIANTS
  C09_QerValuesAsSignalled
  C09_SessionQerSound
  C09_Up4PeakRatesAsSignalled
  Up4Envelope
  InEnvelope
  EnvDistinctMatchKeys
POSTCONDITION TraceAccepted
ALIAS AliasC09
CHECK_DEADLOCK FALSE

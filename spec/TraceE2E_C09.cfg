SPECIFICATION Spec
CONSTANTS KnownDevs = {}
INVARIANTS
  Up4Envelope
  InEnvelope
  EnvDistinctMatchKeys
  C09_QerValuesAsSignalled
  C09_SessionQerSound
  C09_Up4PeakRatesAsSignalled
POSTCONDITION TraceAccepted
ALIAS AliasC09
CHECK_DEADLOCK FALSE

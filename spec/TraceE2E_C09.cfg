SPECIFICATION Spec
CONSTANTS KnownDevs = {}
INVARIANTS
  C09_QerValuesAsSignalled
  C09_SessionQerSound
  InEnvelope
  EnvDistinctMatchKeys
POSTCONDITION TraceAccepted
ALIAS AliasC09
CHECK_DEADLOCK FALSE

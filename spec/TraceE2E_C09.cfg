SPECIFICATION Spec
CONSTANTS KnownDevs = {}
INVARIANTS
  Up4Envelope
  InEnvelope
  EnvDistinctMatchKeys
  C09_QerValuesAsSignalled
  C09_SessionQerSound
  C09_Up4PeakRatesAsSignalled
  C09_Up4GateAndTrafficClass
POSTCONDITION TraceAccepted
ALIAS AliasC09
CHECK_DEADLOCK FALSE

------------------------------ MODULE Notifier ------------------------------
(***************************************************************************)
(* Downlink-data notification rate limiter (C13).                          *)
(* R-level: per session, a report is forwarded or suppressed; at most one  *)
(* forwarded report in any window shorter than Interval, and the first     *)
(* report of a session is always forwarded.                                *)
(* I-level: notifier.go as coded (time of the last FORWARDED report per    *)
(* F-SEID; forward iff none recorded or now - last >= Interval).           *)
(* MCNotifier explores all report/tick sequences for small constants.      *)
(***************************************************************************)
EXTENDS Naturals, Sequences, FiniteSets, TLC
CONSTANTS Sessions, Interval, MaxTime

VARIABLES now, last, fwd, seen
\* last: [s -> time of the last forwarded report] (as coded); fwd: [s -> set of times a report was forwarded] (history);
\* seen: sessions that have reported at least once
nvars == <<now, last, fwd, seen>>

NInit == now = 0 /\ last = [s \in {} |-> 0] /\ fwd = [s \in Sessions |-> {}] /\ seen = {}

\* R-level decision rules
MustForward(l, s, t) == s \notin DOMAIN l \/ t - l[s] >= Interval
MaySuppress(l, s, t) == s \in DOMAIN l /\ t - l[s] < Interval

Report(s) ==
  /\ seen' = seen \cup {s}
  /\ IF MustForward(last, s, now)
     THEN /\ last' = [x \in (DOMAIN last) \cup {s} |-> IF x = s THEN now ELSE last[x]]
          /\ fwd' = [fwd EXCEPT ![s] = @ \cup {now}]
     ELSE UNCHANGED <<last, fwd>>
  /\ UNCHANGED now
Tick == now < MaxTime /\ now' = now + 1 /\ UNCHANGED <<last, fwd, seen>>
NNext == Tick \/ \E s \in Sessions : Report(s)
NSpec == NInit /\ [][NNext]_nvars

\* properties
AtMostOncePerInterval == \A s \in Sessions : \A a, b \in fwd[s] : a # b => (IF a < b THEN b - a ELSE a - b) >= Interval
FirstNeverSuppressed == \A s \in seen : fwd[s] # {}
=============================================================================

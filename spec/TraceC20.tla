------------------------------ MODULE TraceC20 ------------------------------
(* Trace validation for C20: kernel events replayed into the real RouteController handlers (under stubs); every   *)
(* line carries the module graph of the recording BESS stand-in after the event.                                *)
(*  {"op":"reset","managed":[..]}                                                                                *)
(*  {"op":"newroute"|"delroute","iface":i,"prefix":p,"len":n,"nh":h,"g":graph}  {"op":"neigh","nh":h,"mac":m,"g":graph} *)
(*  {"op":"pair","evs":[line, line],"held":b,"g":graph}  two events delivered at the same time (first one held inside   *)
(*     its first BESS command while the second is delivered), graph after both                                    *)
(*  {"op":"raised",...}  a handler raised an exception: consumed by no action                                     *)
EXTENDS RouteControl, TraceLib
VARIABLES l, managed, kroutes, macs, g
vars == <<l, managed, kroutes, macs, g>>
AsSet(s) == {s[i] : i \in 1..Len(s)}
Graph(x) == [routes |-> AsSet(x.routes), mods |-> AsSet(x.mods), links |-> AsSet(x.links)]
EmptyGraph == [routes |-> {}, mods |-> {}, links |-> {}]
NoMacs == [x \in {} |-> ""]

\* effect of one kernel event on the kernel's routes / neighbours (what the module graph must mirror)
RouteOf(e) == [iface |-> e.iface, prefix |-> e.prefix, len |-> e.len, nh |-> e.nh]
ApplyK(kr, mg, e) ==
  IF e.op = "newroute" THEN (IF e.iface \in mg THEN kr \cup {RouteOf(e)} ELSE kr)
  ELSE IF e.op = "delroute" THEN kr \ {RouteOf(e)} ELSE kr
ApplyM(m, e) == IF e.op = "neigh" THEN [x \in (DOMAIN m) \cup {e.nh} |-> IF x = e.nh THEN e.mac ELSE m[x]] ELSE m

Init == l = 1 /\ managed = {} /\ kroutes = {} /\ macs = NoMacs /\ g = EmptyGraph /\ InitHw
Step(e) ==
  CASE e.op = "reset" -> managed' = AsSet(e.managed) /\ kroutes' = {} /\ macs' = NoMacs /\ g' = EmptyGraph
    [] e.op = "newroute" ->
         /\ kroutes' = IF e.iface \in managed THEN kroutes \cup {[iface |-> e.iface, prefix |-> e.prefix, len |-> e.len, nh |-> e.nh]} ELSE kroutes
         /\ g' = Graph(e.g) /\ UNCHANGED <<managed, macs>>
    [] e.op = "delroute" ->
         /\ kroutes' = kroutes \ {[iface |-> e.iface, prefix |-> e.prefix, len |-> e.len, nh |-> e.nh]}
         /\ g' = Graph(e.g) /\ UNCHANGED <<managed, macs>>
    [] e.op = "neigh" ->
         /\ macs' = [x \in (DOMAIN macs) \cup {e.nh} |-> IF x = e.nh THEN e.mac ELSE macs[x]]
         /\ g' = Graph(e.g) /\ UNCHANGED <<managed, kroutes>>
    \* two events the kernel delivered at the same time (they commute in the kernel): whatever order the handlers took
    \* effect in, the graph after both mirrors the kernel state after both
    [] e.op = "pair" ->
         /\ kroutes' = ApplyK(ApplyK(kroutes, managed, e.evs[1]), managed, e.evs[2])
         /\ macs' = ApplyM(ApplyM(macs, e.evs[1]), e.evs[2])
         /\ g' = Graph(e.g) /\ UNCHANGED managed
Next == /\ l <= Len(Trace) /\ Trace[l].op \in {"reset", "newroute", "delroute", "neigh", "pair"}
        /\ Step(Trace[l])
        /\ l' = l + 1 /\ BumpHw(l + 1)
Spec == Init /\ [][Next]_vars

C20_InstalledIffKernelHasItAndResolved == InstalledIffResolved(kroutes, macs, g)
C20_OneGateOneModulePerNextHop == OneGateOneModulePerHop(kroutes, macs, g)
C20_RewriteModuleExistsIffUsed == ModuleIffUsed(kroutes, macs, g)
C20_LiveNextHopsNeverShareAGate == GatesInjective(kroutes, macs, g)
Alias == [l |-> l, kroutes |-> kroutes, macs |-> macs, g |-> g]
=============================================================================

------------------------------ MODULE MCIPPool ------------------------------
(* Complete state graph of the pool as coded (FIFO free list) for N usable addresses: every step *)
(* is a legal step of the set-based allocator, and the pool invariants hold in every state.      *)
EXTENDS IPPool
CONSTANT N
UsableDef == 1..N
Order == [i \in 1..N |-> i]
Init == IInit(Order)
Next == INext
Spec == Init /\ [][Next]_ivars
View == <<freeList, inventory>>    \* lastOp is an observation of the step, not state
=============================================================================

------------------------------ MODULE TraceE2E ------------------------------
(***************************************************************************)
(* Trace specification for the end-to-end properties on the BESS datapath  *)
(* (C02, C03, C05, C06, C07, C09, C14 and the state part of C01, C12).     *)
(*                                                                         *)
(* One line of the trace = one script step executed against the real agent *)
(* process, recorded after the step was quiescent: the abstract request    *)
(* the peer sent, every datagram the peer received for it, and the content *)
(* of the harness' BESS server afterwards.  Each line is consumed by one   *)
(* step of the reference specification (Pfcp / BessImage); what the agent  *)
(* chose (accept or reject, UP SEID, TEIDs, UE address) is read from its   *)
(* response and becomes a parameter of the step; everything the properties *)
(* constrain is evaluated as a named invariant (C<nn>_...).  The cfg file  *)
(* of a check lists the invariants of its property only.                   *)
(***************************************************************************)
EXTENDS BessImage, TraceLib, SequencesExt

CONSTANT KnownDevs     \* names of the deviations listed as open known findings (named slack)

VARIABLES
  l,          \* next trace line
  alive,      \* the agent process runs
  cfg,        \* configuration of the running incarnation (from the start event)
  assoc,      \* [peer -> [node]]            peers with an accepted Association Setup
  pfd,        \* [peer -> [appId -> Seq([ok, ast])]]
  sess,       \* [UP SEID token -> session]  live sessions
  ipHeld,     \* [UP SEID token -> address]  UP-allocated UE addresses of live sessions
  teidHeld,   \* [UP SEID token -> [PDR id -> TEID the agent chose for that PDR]]
  ended,      \* tokens of sessions that have ended in this incarnation
  stale,      \* named slack: datapath entries a listed known finding is allowed to leave behind
  relabel,    \* named slack: sessions that had an accepted modification creating or updating QERs (F-QER-RELABEL)
  peerTs,     \* C12: [peer -> Recovery Time Stamp the agent showed this peer in the current association]
  ddnLast,    \* C13: [UP SEID token -> time (ms) of the last forwarded downlink data report]
  srrSeqs,    \* C13: sequence numbers of the Session Report Requests seen so far, per peer
  tainted,    \* C01: UP SEID tokens whose rules are unknown after a mutated message (their table entries are not judged)
  used,       \* ids of the listed known findings whose slack was actually needed so far
  tables,     \* observed BESS tables after the last consumed line
  cmds,       \* observed length of the command stream after the last consumed line
  snap,       \* guarded state snapshot taken with the last consumed line ([has |-> FALSE] if none)
  chk,        \* verdicts of the per-step checks of the last consumed line (record of booleans)
  last        \* summary of the last consumed line: [ev, kind, accepted, u]
vars == <<l, alive, cfg, assoc, pfd, sess, ipHeld, teidHeld, ended, stale, relabel, peerTs, ddnLast, srrSeqs, tainted, used, tables, cmds, snap, chk, last>>

Dev(name) == name \in KnownDevs
OnUp4 == cfg.dp = "up4"      \* the trace was recorded on the UP4 datapath

----------------------------------------------------------------------------
(* reading a line *)
AsSet(s) == {s[i] : i \in 1..Len(s)}
\* the UP4 form of the observation (harness e2e/up4.go); on a BESS trace it is empty and vice versa
U4 == INSTANCE Up4Image
NoUp4 == [sessUL |-> {}, sessDL |-> {}, termUL |-> {}, termDL |-> {}, apps |-> {}, peers |-> {}, ifaces |-> {},
          appMeters |-> {}, sessMeters |-> {}, sliceMeters |-> {}]
Up4Of(dp) == [sessUL |-> AsSet(dp.sessUL), sessDL |-> AsSet(dp.sessDL), termUL |-> AsSet(dp.termUL), termDL |-> AsSet(dp.termDL),
              apps |-> AsSet(dp.apps), peers |-> AsSet(dp.peers), ifaces |-> AsSet(dp.ifaces),
              appMeters |-> AsSet(dp.appMeters), sessMeters |-> AsSet(dp.sessMeters), sliceMeters |-> AsSet(dp.sliceMeters)]
ToTables(dp) ==
  IF "sessUL" \in DOMAIN dp THEN [pdr |-> {}, far |-> {}, appQer |-> {}, sessQer |-> {}, up4 |-> Up4Of(dp)]
  ELSE [pdr |-> AsSet(dp.pdr), far |-> AsSet(dp.far), appQer |-> AsSet(dp.appQer), sessQer |-> AsSet(dp.sessQer), up4 |-> NoUp4]
EmptyTables == [pdr |-> {}, far |-> {}, appQer |-> {}, sessQer |-> {}, up4 |-> NoUp4]
NoSnap == [has |-> FALSE]
SnapOf(e) == IF "snap" \in DOMAIN e THEN e.snap ELSE NoSnap
NoResp == [type |-> "none", seq |-> <<>>, hasSeid |-> FALSE, seid |-> "zero", cause |-> 0, node |-> "-",
           hasFseid |-> FALSE, fseid |-> "zero", fseidIp |-> Zero32, created |-> <<>>, hasTs |-> FALSE, ts |-> Zero32,
           features |-> <<>>, offend |-> 0]
Main(e) == IF Len(e.resps) >= 1 THEN e.resps[1] ELSE NoResp

RespType(kind) ==
  CASE kind = "hb" -> "HeartbeatResponse"
    [] kind = "assoc" -> "AssociationSetupResponse"
    [] kind = "release" -> "AssociationReleaseResponse"
    [] kind = "pfd" -> "PFDManagementResponse"
    [] kind = "estab" -> "SessionEstablishmentResponse"
    [] kind = "mod" -> "SessionModificationResponse"
    [] kind = "del" -> "SessionDeletionResponse"
    [] OTHER -> "none"

Answered(e) == Len(e.resps) >= 1 /\ Main(e).type = RespType(e.kind)
Accepted(e) == Answered(e) /\ Main(e).cause = 1

\* all checks a step can make; TRUE unless the step sets them
ChkOK == [one |-> TRUE, type |-> TRUE, seq |-> TRUE, hdrSeid |-> TRUE, cause |-> TRUE, shape |-> TRUE, created |-> TRUE,
          mustReject |-> TRUE, writesNothing |-> TRUE, seidLegal |-> TRUE, teidLegal |-> TRUE, ipLegal |-> TRUE,
          ipRefusal |-> TRUE, teidProgrammed |-> TRUE, addressed |-> TRUE, mustAccept |-> TRUE, srrDue |-> TRUE, srrNone |-> TRUE, srrRate |-> TRUE, srrShape |-> TRUE, tsConst |-> TRUE, assocIffConn |-> TRUE, features |-> TRUE, rtCount |-> TRUE, rtSpacing |-> TRUE, rtOutcome |-> TRUE, postponed |-> TRUE, stopClean |-> TRUE, stopOnce |-> TRUE, stopTime |-> TRUE, startEmpty |-> TRUE, envelope |-> TRUE, markers |-> TRUE,
          pfdKept |-> TRUE, hbTs |-> TRUE]

\* C02 checks common to every request kind
CommonChk(e) ==
  LET m == Main(e) IN
  [ChkOK EXCEPT !.one = (Len(e.resps) = 1),
                !.type = (Len(e.resps) >= 1 => m.type = RespType(e.kind)),
                !.seq = (Len(e.resps) >= 1 => m.seq = e.req.seq),
                !.cause = (Answered(e) /\ e.kind # "hb" => m.cause \in 1..255)]

----------------------------------------------------------------------------
(* session helpers *)
SessOfPeer(p) == {u \in DOMAIN sess : sess[u].peer = p}
HasAssoc(p) == p \in DOMAIN assoc
PfdOf(p) == IF p \in DOMAIN pfd THEN pfd[p] ELSE EmptyFn
PoolOf == [net |-> cfg.poolNet, len |-> cfg.poolLen]

CreatedTeids(m) == [id \in {m.created[i].pdr : i \in {j \in 1..Len(m.created) : m.created[j].hasTeid}} |->
                      (m.created[CHOOSE i \in 1..Len(m.created) : m.created[i].hasTeid /\ m.created[i].pdr = id]).teid]
CreatedUe(m) == LET I == {i \in 1..Len(m.created) : m.created[i].hasUe} IN
                IF I = {} THEN Zero32 ELSE m.created[CHOOSE i \in I : TRUE].ueip

ChoosePdrs(req) == {req.cpdr[i].id : i \in {j \in 1..Len(req.cpdr) : req.cpdr[j].fteid = "choose"}}
AllocCorePdrs(req) == {req.cpdr[i].id : i \in {j \in 1..Len(req.cpdr) : req.cpdr[j].ue = "alloc" /\ req.cpdr[j].src = "core"}}
WantsAlloc(rs) == \E i \in 1..Len(rs) : rs[i].ue = "alloc"

\* must an establishment be refused (the statement of C03: no matching association; plus unparsable rules)
EstabMustReject(p, req) ==
  \/ ~HasAssoc(p) \/ assoc[p].node # req.node
  \/ \E i \in 1..Len(req.cpdr) : ~PdrParses(req.cpdr[i], PfdOf(p))
  \/ \E i \in 1..Len(req.cfar) : ~FarParses(req.cfar[i], TRUE)
EstabNoAssoc(p, req) == ~HasAssoc(p) \/ assoc[p].node # req.node

ModMustReject(p, u, req) ==
  \/ u \notin DOMAIN sess \/ sess[u].peer # p
  \/ \E i \in 1..Len(req.cpdr) : ~PdrParses(req.cpdr[i], PfdOf(p))
  \/ \E i \in 1..Len(req.updr) : ~PdrParses(req.updr[i], PfdOf(p))
  \/ \E i \in 1..Len(req.cfar) : ~FarParses(req.cfar[i], TRUE)
  \/ \E i \in 1..Len(req.ufar) : ~FarParses(req.ufar[i], FALSE)
UnknownSess(p, u) == u \notin DOMAIN sess \/ sess[u].peer # p

----------------------------------------------------------------------------
(* steps *)
Init ==
  /\ l = 1 /\ alive = FALSE /\ cfg = [dp |-> "none"] /\ assoc = EmptyFn /\ pfd = EmptyFn /\ sess = EmptyFn
  /\ ipHeld = EmptyFn /\ teidHeld = EmptyFn /\ ended = {} /\ stale = {} /\ relabel = {} /\ peerTs = EmptyFn /\ ddnLast = EmptyFn /\ srrSeqs = EmptyFn /\ tainted = {} /\ used = {}
  /\ tables = EmptyTables /\ cmds = 0 /\ snap = NoSnap
  /\ chk = ChkOK /\ last = [ev |-> "init", kind |-> "-", accepted |-> FALSE, u |-> "-"]
  /\ InitHw /\ TLCSet(2, {})

Advance == l' = l + 1 /\ BumpHw(l + 1)

\* a new incarnation of the agent starts against the (possibly still populated) datapath
StartEv ==
  LET e == Trace[l] IN
  /\ e.ev = "start"
  /\ alive' = TRUE /\ cfg' = e.cfg
  /\ assoc' = EmptyFn /\ pfd' = EmptyFn /\ sess' = EmptyFn /\ ipHeld' = EmptyFn /\ teidHeld' = EmptyFn
  /\ ended' = {} /\ stale' = {} /\ relabel' = {} /\ ddnLast' = EmptyFn /\ srrSeqs' = EmptyFn /\ peerTs' = EmptyFn
  /\ tables' = ToTables(e.dp) /\ cmds' = e.cmds /\ snap' = SnapOf(e)
  /\ chk' = [ChkOK EXCEPT !.startEmpty = (ToTables(e.dp) = EmptyTables)]
  /\ last' = [ev |-> "start", kind |-> "-", accepted |-> FALSE, u |-> "-"]
  /\ Advance

\* the agent was killed (SIGKILL) or stopped: the datapath keeps what it has
KillEv ==
  LET e == Trace[l] IN
  /\ e.ev \in {"kill", "stopped"}
  /\ alive' = FALSE
  /\ UNCHANGED <<cfg, assoc, pfd, sess, ipHeld, teidHeld, ended, stale, relabel, tables, cmds>>
  /\ snap' = NoSnap
  /\ chk' = ChkOK /\ last' = [ev |-> e.ev, kind |-> "-", accepted |-> FALSE, u |-> "-"]
  /\ Advance

Obs(e) == tables' = ToTables(e.dp) /\ cmds' = e.cmds /\ snap' = SnapOf(e)

HbEv ==
  LET e == Trace[l] IN
  /\ e.ev = "req" /\ e.kind = "hb"
  /\ UNCHANGED <<alive, cfg, assoc, pfd, sess, ipHeld, teidHeld, ended, stale, relabel>>
  /\ Obs(e)
  /\ chk' = [CommonChk(e) EXCEPT !.hbTs = (Answered(e) => Main(e).hasTs),
                                 !.tsConst = ((Answered(e) /\ e.peer \in DOMAIN peerTs) => Main(e).ts = peerTs[e.peer])]
  /\ peerTs' = IF Answered(e) /\ e.peer \notin DOMAIN peerTs THEN Override(peerTs, [x \in {e.peer} |-> Main(e).ts]) ELSE peerTs
  /\ last' = [ev |-> "req", kind |-> IF "burst" \in DOMAIN e /\ e.burst THEN "hb-burst" ELSE "hb", accepted |-> Answered(e), u |-> "-"]
  /\ Advance

AssocEv ==
  LET e == Trace[l]  p == e.peer IN
  /\ e.ev = "req" /\ e.kind = "assoc"
  /\ assoc' = IF Accepted(e) THEN Override(assoc, [x \in {p} |-> [node |-> e.req.node]]) ELSE assoc
  /\ UNCHANGED <<alive, cfg, pfd, sess, ipHeld, teidHeld, ended, stale, relabel>>
  /\ Obs(e)
  /\ chk' = [CommonChk(e) EXCEPT
                !.shape = (Answered(e) => Main(e).node = cfg.node /\ Main(e).hasTs),
                !.tsConst = ((Answered(e) /\ p \in DOMAIN peerTs) => Main(e).ts = peerTs[p]),
                \* accepted exactly when the datapath was connected at that moment (the agent's view, read from the guarded
                \* snapshot immediately before the request; "unknown" when no snapshot was taken)
                !.assocIffConn = ((Answered(e) /\ "connBefore" \in DOMAIN e /\ e.connBefore # "unknown") => (Accepted(e) <=> e.connBefore = "yes")),
                \* advertised UP features: F-TEID allocation always, UE IP allocation and end markers iff enabled
                !.features = (Answered(e) =>
                                /\ Len(Main(e).features) >= 3
                                /\ HasBit(Main(e).features[1], 16)
                                /\ (HasBit(Main(e).features[3], 4) <=> cfg.ueAlloc)
                                /\ (HasBit(Main(e).features[2], 1) <=> cfg.endMarker))]
  /\ peerTs' = IF Answered(e) /\ p \notin DOMAIN peerTs THEN Override(peerTs, [x \in {p} |-> Main(e).ts]) ELSE peerTs
  /\ last' = [ev |-> "req", kind |-> "assoc", accepted |-> Accepted(e), u |-> "-"]
  /\ Advance

\* every session of peer p ends (Association Release, peer lost)
\* QER entries of a re-labelled session may outlive it (F-QER-RELABEL): they become stale when it ends
RelabelResidue(U, newTables) ==
  IF Dev("F-QER-RELABEL") THEN {e \in newTables.appQer \cup newTables.sessQer : e.fseid \in U \cap relabel} ELSE {}
EndAllOf(p) ==
  /\ sess' = Without(sess, SessOfPeer(p))
  /\ ipHeld' = Without(ipHeld, SessOfPeer(p))
  /\ teidHeld' = Without(teidHeld, SessOfPeer(p))
  /\ ended' = ended \cup SessOfPeer(p)
  /\ assoc' = Without(assoc, {p})
  /\ pfd' = Without(pfd, {p})

ReleaseEv ==
  LET e == Trace[l]  p == e.peer IN
  /\ e.ev = "req" /\ e.kind = "release"
  /\ IF Answered(e) THEN EndAllOf(p) ELSE UNCHANGED <<assoc, pfd, sess, ipHeld, teidHeld, ended>>
  /\ UNCHANGED <<alive, cfg>>
  /\ Obs(e)
  /\ stale' = IF Answered(e) THEN stale \cup RelabelResidue(SessOfPeer(p), ToTables(e.dp)) ELSE stale
  /\ relabel' = IF Answered(e) THEN relabel \ SessOfPeer(p) ELSE relabel
  /\ peerTs' = IF Answered(e) THEN Without(peerTs, {p}) ELSE peerTs
  /\ chk' = CommonChk(e)
  /\ last' = [ev |-> "req", kind |-> IF "burst" \in DOMAIN e /\ e.burst THEN "release-burst" ELSE "release", accepted |-> Answered(e), u |-> "-"]
  /\ Advance

\* the peer stayed silent past the read time-out / did not answer heartbeats: observed as "lost"
LostEv ==
  LET e == Trace[l]  p == e.peer IN
  /\ e.ev = "lost"
  /\ EndAllOf(p)
  /\ UNCHANGED <<alive, cfg>>
  /\ Obs(e)
  /\ stale' = stale \cup RelabelResidue(SessOfPeer(p), ToTables(e.dp))
  /\ relabel' = relabel \ SessOfPeer(p)
  /\ peerTs' = Without(peerTs, {p})
  /\ chk' = ChkOK
  /\ last' = [ev |-> "lost", kind |-> "-", accepted |-> TRUE, u |-> "-"]
  /\ Advance

PfdTable(req) == [a \in {req.apps[i].id : i \in 1..Len(req.apps)} |->
                    (req.apps[CHOOSE i \in 1..Len(req.apps) : req.apps[i].id = a /\ \A j \in (i + 1)..Len(req.apps) : req.apps[j].id # a]).flows]
PfdEv ==
  LET e == Trace[l]  p == e.peer IN
  /\ e.ev = "req" /\ e.kind = "pfd"
  /\ pfd' = IF Accepted(e) THEN Override(pfd, [x \in {p} |-> PfdTable(e.req)]) ELSE pfd
  /\ UNCHANGED <<alive, cfg, assoc, sess, ipHeld, teidHeld, ended, stale, relabel>>
  /\ Obs(e)
  /\ chk' = CommonChk(e)
  /\ last' = [ev |-> "req", kind |-> "pfd", accepted |-> Accepted(e), u |-> "-"]
  /\ Advance

EstabEv ==
  LET e == Trace[l]  p == e.peer  req == e.req  m == Main(e)
      u == m.fseid
      teids == CreatedTeids(m)
      allocAddr == CreatedUe(m)
      s0 == NewSession(p, req.cp)
      s1 == ApplyCreates(s0, req, teids, allocAddr, cfg, PfdOf(p))
      acc == Accepted(e)
      common == CommonChk(e)
  IN
  /\ e.ev = "req" /\ e.kind = "estab"
  /\ IF acc
     THEN /\ sess' = Override(sess, [x \in {u} |-> s1])
          /\ ipHeld' = IF WantsAlloc(req.cpdr) THEN Override(ipHeld, [x \in {u} |-> allocAddr]) ELSE ipHeld
          /\ teidHeld' = Override(teidHeld, [x \in {u} |-> teids])
          /\ ended' = ended \ {u}      \* a UP SEID may be used again once its session has ended
     ELSE UNCHANGED <<sess, ipHeld, teidHeld, ended>>
  /\ UNCHANGED <<alive, cfg, assoc, pfd, stale, relabel>>
  /\ Obs(e)
  /\ chk' =
       IF acc
       THEN [common EXCEPT
               !.hdrSeid = (m.hasSeid /\ m.seid = req.cp),
               !.shape = (m.node = cfg.node /\ m.hasFseid /\ m.fseid # "zero" /\ m.fseidIp = cfg.n4),
               !.created =
                  /\ {m.created[i].pdr : i \in {j \in 1..Len(m.created) : m.created[j].hasTeid}} = ChoosePdrs(req)
                  /\ {m.created[i].pdr : i \in {j \in 1..Len(m.created) : m.created[j].hasUe}} = AllocCorePdrs(req)
                  /\ Len(m.created) = Cardinality(ChoosePdrs(req)) + Cardinality(AllocCorePdrs(req))
                  /\ \A i \in 1..Len(m.created) : m.created[i].hasTeid => m.created[i].tunip = cfg.access,
               !.mustReject = ~EstabMustReject(p, req),
               !.seidLegal = SeidLegal(sess, p, u),
               !.teidLegal =
                  /\ \A id \in DOMAIN teids : teids[id] # Zero32 /\ \A v \in DOMAIN teidHeld : \A k \in DOMAIN teidHeld[v] : teids[id] # teidHeld[v][k]
                  /\ \A a, b \in DOMAIN teids : a # b => teids[a] # teids[b],
               !.ipLegal = (WantsAlloc(req.cpdr) => Usable(allocAddr, PoolOf) /\ \A v \in DOMAIN ipHeld : ipHeld[v] # allocAddr),
               !.envelope = ReqInEnvelope(s0, req)]
       ELSE [common EXCEPT
               \* a rejection carries the CP SEID of the request or zero; for an unknown association the statement fixes nothing more
               !.hdrSeid = (Answered(e) => (m.seid = "zero" \/ m.seid = req.cp)),
               !.writesNothing = (Answered(e) /\ EstabNoAssoc(p, req) => e.cmds = cmds),
               \* (used by C08 only, whose runs inject no fault and allocate nothing: there a well-formed establishment on an
               \* association has no reason to be refused - e.g. not because a rejected PFD request damaged the table)
               \* a PDR whose filter has a true port range may be refused (how wide a range the installation strategy
               \* represents is an implementation constant, C17)
               !.mustAccept = (EstabMustReject(p, req)
                               \/ \E i \in 1..Len(req.cpdr) :
                                     LET f == PdrFilter(req.cpdr[i], UeOf(req.cpdr[i], Zero32), PfdOf(p)).flt
                                     IN IsTrueRange(f.sports) \/ IsTrueRange(f.dports)),
               !.ipRefusal = TRUE]
  \* establishments sent concurrently are recorded one after the other with the tables as they were after the
  \* whole burst; the image is judged at the last line of the burst only (it carries burst = FALSE)
  /\ last' = [ev |-> "req", kind |-> IF "burst" \in DOMAIN e /\ e.burst THEN "estab-burst" ELSE "estab", accepted |-> acc, u |-> IF acc THEN u ELSE "-"]
  /\ Advance

ModEv ==
  LET e == Trace[l]  p == e.peer  req == e.req  m == Main(e)
      u == req.hdr
      acc == Accepted(e)
      known == ~UnknownSess(p, u)
      s0 == sess[u]
      allocAddr == IF u \in DOMAIN ipHeld THEN ipHeld[u] ELSE Zero32
      s1 == Modified(s0, req, allocAddr, cfg, PfdOf(p))
      common == CommonChk(e)
  IN
  /\ e.ev = "req" /\ e.kind = "mod"
  /\ IF acc /\ known THEN sess' = [sess EXCEPT ![u] = s1] ELSE UNCHANGED sess
  \* trigger of F-QER-RELABEL: the marking is re-run over the stored QERs and separately over the QERs of the
  \* message (session_qer.go, "FIXME" in messages_session.go); the two can disagree whenever a modification
  \* creates or updates QERs
  /\ relabel' = IF acc /\ known /\ Len(req.cqer) + Len(req.uqer) > 0 THEN relabel \cup {u} ELSE relabel
  \* the TEID chosen for a PDR is released when the PDR is removed
  /\ teidHeld' = IF acc /\ known /\ u \in DOMAIN teidHeld THEN [teidHeld EXCEPT ![u] = Without(@, SeqSet(req.rpdr))] ELSE teidHeld
  /\ UNCHANGED <<alive, cfg, assoc, pfd, ipHeld, ended, stale>>
  /\ Obs(e)
  /\ chk' =
       IF acc
       THEN [common EXCEPT
               !.mustReject = (known /\ ~ModMustReject(p, u, req) /\ RemovesKnown(ApplyUpdates(ApplyCreates(s0, req, EmptyFn, allocAddr, cfg, PfdOf(p)), req, allocAddr, cfg, PfdOf(p)), req)),
               !.hdrSeid = (known => m.hasSeid /\ m.seid = s1.cp),
               !.envelope = (known => ReqInEnvelope(s0, req)),
               !.markers = (known =>
                  /\ {[peer |-> e.markers[i].peer, teid |-> e.markers[i].teid, src |-> e.markers[i].src] : i \in 1..Len(e.markers)}
                       = EndMarkersDue(s0, req, cfg)
                  /\ \A t \in EndMarkersDue(s0, req, cfg) :                       \* exactly one per rule (rules may share a tunnel)
                        Cardinality({i \in 1..Len(e.markers) : [peer |-> e.markers[i].peer, teid |-> e.markers[i].teid, src |-> e.markers[i].src] = t})
                          = EndMarkersDueTo(s0, req, cfg, t)
                  /\ \A i \in 1..Len(e.markers) :
                        /\ e.markers[i].ok /\ e.markers[i].gtpType = 254              \* a GTP-U End Marker ...
                        /\ e.markers[i].sport = 2152 /\ e.markers[i].dport = 2152     \* ... UDP 2152 -> 2152
                        /\ e.markers[i].afterProg)]                                  \* ... after the new rule was programmed
       ELSE [common EXCEPT
               !.hdrSeid = (Answered(e) /\ ~known => m.seid = "zero"),
               !.writesNothing = (Answered(e) /\ ~known => e.cmds = cmds),
               !.markers = (Len(e.markers) = 0)]
  /\ last' = [ev |-> "req", kind |-> IF "burst" \in DOMAIN e /\ e.burst THEN "mod-burst" ELSE "mod", accepted |-> acc /\ known, u |-> IF acc /\ known THEN u ELSE "-"]
  /\ Advance

\* did the datapath refuse something in this step (BESS: any command error so far; UP4: an update of this step answered
\* with anything but OK, NOT_FOUND or ALREADY_EXISTS, which the plug-in tolerates by design)
DpFailed(e) == IF "writes" \in DOMAIN e THEN \E i \in 1..Len(e.writes) : e.writes[i].result \notin {0, 5, 6} ELSE e.errs # 0

DelEv ==
  LET e == Trace[l]  p == e.peer  req == e.req  m == Main(e)
      u == req.hdr
      acc == Accepted(e)
      known == ~UnknownSess(p, u)
      common == CommonChk(e)
  IN
  /\ e.ev = "req" /\ e.kind = "del"
  /\ IF acc /\ known
     THEN /\ sess' = Without(sess, {u}) /\ ipHeld' = Without(ipHeld, {u}) /\ teidHeld' = Without(teidHeld, {u})
          /\ ended' = ended \cup {u}
     ELSE UNCHANGED <<sess, ipHeld, teidHeld, ended>>
  /\ UNCHANGED <<alive, cfg, assoc, pfd>>
  /\ Obs(e)
  /\ stale' = IF acc /\ known THEN stale \cup RelabelResidue({u}, ToTables(e.dp)) ELSE stale
  /\ relabel' = IF acc /\ known THEN relabel \ {u} ELSE relabel
  /\ chk' =
       IF acc
       THEN [common EXCEPT !.mustReject = known, !.hdrSeid = (known => m.hasSeid /\ m.seid = sess[u].cp)]
       ELSE [common EXCEPT !.hdrSeid = (Answered(e) /\ ~known => m.seid = "zero"),
                           !.writesNothing = (Answered(e) /\ ~known => e.cmds = cmds),
                           \* the UP F-SEID returned at establishment addresses the session: a deletion that names a
                           \* live session of this peer is not refused (no datapath fault is injected in these runs)
                           !.addressed = ~(Answered(e) /\ known /\ ~DpFailed(e))]
  /\ last' = [ev |-> "req", kind |-> IF "burst" \in DOMAIN e /\ e.burst THEN "del-burst" ELSE "del", accepted |-> acc /\ known, u |-> IF acc /\ known THEN u ELSE "-"]
  /\ Advance

\* The datapath reported downlink data for session e.u; e.srr = the datagrams the peer received (Session Report
\* Requests), e.cause = the cause the peer answered with (0 = no answer).  An answer "session context not found"
\* ends the session (C05).
CauseCtxNotFound == 65
DdnInterval == IF "ddnMs" \in DOMAIN cfg THEN cfg.ddnMs ELSE 20000
\* the session's downlink PDRs and whether its downlink forwarding rule asks for notification (NOCP bit of the FAR)
CorePdrs(s) == {id \in DOMAIN s.pdrs : s.pdrs[id].src = "core"}
Notifying(s) == \E id \in CorePdrs(s) : s.pdrs[id].far \in DOMAIN s.fars /\ HasBit(s.fars[s.pdrs[id].far].action, ActNOCP)
AllNotifying(s) == CorePdrs(s) # {} /\ \A id \in CorePdrs(s) : s.pdrs[id].far \in DOMAIN s.fars /\ HasBit(s.fars[s.pdrs[id].far].action, ActNOCP)
\* did the report line e need the slack of F-DDN-UNFORWARDED (evaluated in the state before the step)
DdnShadowUsed(e) ==
  LET u == e.u
      known == u \in DOMAIN sess /\ sess[u].peer = e.peer
      forwarded == Len(e.srr) >= 1 /\ e.srr[1].type = "SessionReportRequest"
      fwdAt == IF u \in DOMAIN ddnLast THEN ddnLast[u][1] ELSE -1
      seenAt == IF u \in DOMAIN ddnLast THEN ddnLast[u][2] ELSE -1
  IN /\ Dev("F-DDN-UNFORWARDED") /\ known /\ ~forwarded /\ AllNotifying(sess[u])
     /\ (fwdAt < 0 \/ 2 * (e.t - fwdAt) >= 3 * DdnInterval)
     /\ seenAt >= 0 /\ seenAt > fwdAt /\ 2 * (e.t - seenAt) <= 3 * DdnInterval

ReportEv ==
  LET e == Trace[l]  u == e.u  p == e.peer
      known == u \in DOMAIN sess /\ sess[u].peer = p
      s == sess[u]
      forwarded == Len(e.srr) >= 1 /\ e.srr[1].type = "SessionReportRequest"
      \* ddnLast[u] = <<time of the last forwarded notification or -1, time of the last report the rate limiter counted>>
      fwdAt == IF u \in DOMAIN ddnLast THEN ddnLast[u][1] ELSE -1
      seenAt == IF u \in DOMAIN ddnLast THEN ddnLast[u][2] ELSE -1
      since == IF fwdAt >= 0 THEN e.t - fwdAt ELSE 0
      first == fwdAt < 0
      \* listed known finding F-DDN-UNFORWARDED: the rate limiter sits in front of the decision to forward and also counts
      \* reports that are then not forwarded (the session did not ask for notification at that moment); a report that
      \* follows such a report within the interval is suppressed.  Named slack: only if a counted, unforwarded report
      \* of this session lies at most 1.5 intervals back.
      shadowed == Dev("F-DDN-UNFORWARDED") /\ seenAt >= 0 /\ seenAt > fwdAt /\ 2 * (e.t - seenAt) <= 3 * DdnInterval
      counted == ~forwarded /\ (seenAt < 0 \/ 2 * (e.t - seenAt) >= DdnInterval)
      ends == e.cause = CauseCtxNotFound /\ forwarded /\ known
      seqsOfP == IF p \in DOMAIN srrSeqs THEN srrSeqs[p] ELSE {}
  IN
  /\ e.ev = "report"
  /\ IF ends
     THEN /\ sess' = Without(sess, {u}) /\ ipHeld' = Without(ipHeld, {u}) /\ teidHeld' = Without(teidHeld, {u})
          /\ ended' = ended \cup {u}
          /\ stale' = stale \cup RelabelResidue({u}, ToTables(e.dp))
          /\ relabel' = relabel \ {u}
     ELSE UNCHANGED <<sess, ipHeld, teidHeld, ended, stale, relabel>>
  /\ ddnLast' = IF forwarded THEN Override(ddnLast, [x \in {u} |-> <<e.t, e.t>>])
                ELSE IF counted THEN Override(ddnLast, [x \in {u} |-> <<fwdAt, e.t>>])
                ELSE ddnLast
  /\ srrSeqs' = IF forwarded THEN Override(srrSeqs, [x \in {p} |-> seqsOfP \cup {e.srr[1].seq}]) ELSE srrSeqs
  /\ UNCHANGED <<alive, cfg, assoc, pfd>>
  /\ Obs(e)
  /\ chk' = [ChkOK EXCEPT
       \* due: the session exists, every downlink rule asks for notification, and it is the first report or the interval
       \* has clearly passed (>= 1.5 x) since the last forwarded one
       !.srrDue = ((known /\ AllNotifying(s) /\ (first \/ 2 * since >= 3 * DdnInterval)) => (forwarded \/ shadowed)),
       \* none for unknown sessions and for sessions whose downlink rule does not ask for notification
       !.srrNone = ((~known \/ ~Notifying(s)) => Len(e.srr) = 0),
       \* at most one notification per session and interval: never two for one report, none clearly inside (<= 0.5 x)
       !.srrRate = (Len(e.srr) <= 1 /\ ((~first /\ 2 * since <= DdnInterval) => Len(e.srr) = 0)),
       \* addressed with the control plane's SEID, a fresh sequence number, a Downlink Data Report naming a downlink PDR
       !.srrShape = (forwarded /\ known =>
                       /\ e.srr[1].hasSeid /\ e.srr[1].seid = s.cp
                       /\ e.srr[1].seq \notin seqsOfP
                       /\ e.srr[1].hasDldr /\ e.srr[1].dldr \in CorePdrs(s)
                       /\ e.srr[1].report % 2 = 1)]
  /\ last' = [ev |-> "report", kind |-> "-", accepted |-> ends, u |-> u]
  /\ Advance

\* a response-type message injected by the peer: never answered, changes nothing
InjectRespEv ==
  LET e == Trace[l] IN
  /\ e.ev = "req" /\ e.kind = "injectResp"
  /\ UNCHANGED <<alive, cfg, assoc, pfd, sess, ipHeld, teidHeld, ended, stale, relabel>>
  /\ Obs(e)
  /\ chk' = [ChkOK EXCEPT !.one = (Len(e.resps) = 0)]
  /\ last' = [ev |-> "req", kind |-> "injectResp", accepted |-> FALSE, u |-> "-"]
  /\ Advance

\* which listed findings' slack does the current state need (strict reading fails, relaxed reading holds)
Relaxed == IF Dev("F-QER-RELABEL") THEN relabel ELSE {}
ImageCheckApplies == (last.ev = "req" /\ last.kind \in {"estab", "mod", "del"} /\ last.accepted) \/ last.ev = "start"
UsedNow ==
  (IF ImageCheckApplies /\ cfg.dp # "up4" /\ ~TablesAreImage(tables, sess, stale, {}, tainted) /\ TablesAreImage(tables, sess, stale, Relaxed, tainted)
   THEN {"F-QER-RELABEL"} ELSE {})
  \cup (IF \E e \in stale : e \in tables.appQer \cup tables.sessQer THEN {"F-QER-RELABEL"} ELSE {})

\* last line of every trace: nothing happens (lets the bookkeeping of `used' see the final state)
EndEv ==
  /\ Trace[l].ev = "end"
  /\ UNCHANGED <<alive, cfg, assoc, pfd, sess, ipHeld, teidHeld, ended, stale, relabel, tables, cmds, snap>>
  /\ chk' = ChkOK /\ last' = [ev |-> "end", kind |-> "-", accepted |-> FALSE, u |-> "-"]
  /\ Advance

\* C12: one agent-originated request (Heartbeat Request, Association Setup Request) as the scripted peer saw it:
\* e.tx = arrival times (ms) of the transmissions with that sequence number, e.n = max_req_retries, e.tMs = response
\* time-out, e.mode = what the peer did: "kth" (answered the e.k-th transmission only), "none", "dup" (answered the
\* e.k-th twice), "wrongseq" (answered every transmission with another sequence number, the e.k-th also correctly),
\* e.dead = the association was torn down afterwards
RetransEv ==
  LET e == Trace[l]  cnt == Len(e.tx) IN
  /\ e.ev = "retrans"
  /\ UNCHANGED <<alive, cfg, assoc, pfd, sess, ipHeld, teidHeld, ended, stale, relabel, peerTs, tables, cmds, snap>>
  /\ chk' = [ChkOK EXCEPT
       !.rtCount = (cnt >= 1 /\ cnt <= 1 + e.n),
       \* spaced by the response time-out (lower bound, 20 % tolerance)
       !.rtSpacing = (\A i \in 1..(cnt - 1) : 10 * (e.tx[i + 1] - e.tx[i]) >= 8 * e.tMs),
       \* it stops as soon as a response with that sequence number arrives; dead only when every transmission went unanswered
       \* (not judged for an answered request when the harness or the agent was visibly held up: e.slow - the scripted peer's own
       \* answer left more than half a time-out late; a gap between two transmissions more than 20 % above the time-out - the
       \* agent's timer fired late, so its handling of the answer may have been late as well)
       \* mode "gap": the answer to the k-th transmission arrived after its time-out had fired and before the retransmission
       \* (the requester was held at that point): at most that retransmission leaves, and the peer is not given up
       !.rtOutcome = (IF e.mode = "none" THEN cnt = 1 + e.n /\ e.dead
                      ELSE IF e.mode = "gap" THEN cnt <= e.k + 1 /\ ~e.dead
                      ELSE e.slow \/ (\E i \in 1..(cnt - 1) : 10 * (e.tx[i + 1] - e.tx[i]) > 12 * e.tMs) \/ (cnt = e.k /\ ~e.dead))]
  /\ last' = [ev |-> "retrans", kind |-> e.mode, accepted |-> FALSE, u |-> "-"]
  /\ Advance
\* C12: a Heartbeat Request of the peer in the middle of the agent's heartbeat interval postpones the agent's next one
PostponeEv ==
  LET e == Trace[l] IN
  /\ e.ev = "postpone"
  /\ UNCHANGED <<alive, cfg, assoc, pfd, sess, ipHeld, teidHeld, ended, stale, relabel, peerTs, tables, cmds, snap>>
  /\ chk' = [ChkOK EXCEPT !.postponed = (10 * (e.nextAgentHb - e.peerHb) >= 8 * e.intervalMs)]
  /\ last' = [ev |-> "postpone", kind |-> "-", accepted |-> FALSE, u |-> "-"]
  /\ Advance

\* C10: the agent was asked to stop (SIGTERM).  e.exited: the process ended within the time limit, e.exit: its exit
\* status, e.panic: headline of a panic ("-" if none), e.ms: how long it took, e.errs: commands the datapath answered
\* with an error so far (a second delete of an entry is answered ENOENT), e.dp: the tables afterwards.
\* Every session of every association ends: each is removed from the datapath exactly once.
StopEv ==
  LET e == Trace[l] IN
  /\ e.ev = "stop"
  /\ alive' = FALSE
  /\ sess' = EmptyFn /\ ipHeld' = EmptyFn /\ teidHeld' = EmptyFn /\ assoc' = EmptyFn /\ pfd' = EmptyFn
  /\ ended' = ended \cup DOMAIN sess
  /\ stale' = stale \cup RelabelResidue(DOMAIN sess, ToTables(e.dp))
  /\ relabel' = {} /\ peerTs' = EmptyFn
  /\ UNCHANGED cfg
  /\ tables' = ToTables(e.dp) /\ cmds' = e.cmds /\ snap' = NoSnap
  /\ chk' = [ChkOK EXCEPT
       !.stopClean = (e.exited /\ e.panic = "-" /\ e.exit = 0),       \* no panic, no deadlock: the process ends by itself
       !.stopOnce = (e.errs = e.errsBefore),                           \* no delete was issued twice / against a closed datapath
       !.stopTime = (e.exited => e.ms <= e.limitMs)]                   \* in bounded time
  /\ last' = [ev |-> "stop", kind |-> "-", accepted |-> TRUE, u |-> "-"]
  /\ Advance

\* The agent logged that it dropped a datagram of an associated peer at the node's listening socket (the harness then
\* transmitted the request again): consumed only as the listed known finding F-LISTENER-DROP
ListenerDropEv ==
  LET e == Trace[l] IN
  /\ e.ev = "listenerdrop" /\ Dev("F-LISTENER-DROP")
  /\ UNCHANGED <<alive, cfg, assoc, pfd, sess, ipHeld, teidHeld, ended, stale, relabel, peerTs, tables, cmds, snap>>
  /\ chk' = ChkOK /\ last' = [ev |-> "listenerdrop", kind |-> "-", accepted |-> FALSE, u |-> "-"]
  /\ Advance

\* C10 / C11: the race detector reported a data race in the agent (reduced to the unordered pair of the topmost
\* repository frames of the two accesses); consumed only if that pair is a listed known finding ("race:<pair>")
RaceEv ==
  LET e == Trace[l] IN
  /\ e.ev = "race" /\ Dev("race:" \o e.pair)
  /\ UNCHANGED <<alive, cfg, assoc, pfd, sess, ipHeld, teidHeld, ended, stale, relabel, peerTs, tables, cmds, snap>>
  /\ chk' = ChkOK /\ last' = [ev |-> "race", kind |-> "-", accepted |-> FALSE, u |-> "-"]
  /\ Advance

\* C01: a mutated or garbage datagram was sent by peer e.peer.  Whatever it did to that peer's association and
\* sessions is not constrained: they become tainted (their table entries are no longer judged) and the peer is
\* treated as not associated.  The agent must survive and answer at most once.
InjectEv ==
  LET e == Trace[l]  p == e.peer IN
  /\ e.ev = "inject"
  /\ tainted' = tainted \cup SessOfPeer(p) \cup AsSet(e.newToks) \cup {e.resps[i].fseid : i \in 1..Len(e.resps)}
  /\ sess' = Without(sess, SessOfPeer(p)) /\ ipHeld' = Without(ipHeld, SessOfPeer(p)) /\ teidHeld' = Without(teidHeld, SessOfPeer(p))
  /\ assoc' = Without(assoc, {p}) /\ pfd' = Without(pfd, {p})
  /\ relabel' = relabel \ SessOfPeer(p)
  /\ UNCHANGED <<alive, cfg, ended, stale>>
  /\ Obs(e)
  /\ chk' = [ChkOK EXCEPT !.one = (Len(e.resps) <= 1)]
  /\ last' = [ev |-> "inject", kind |-> "-", accepted |-> FALSE, u |-> "-"]
  /\ Advance
\* the harness cleans up after an injection (Association Release on the tainted peer): nothing is asserted
CleanupEv ==
  LET e == Trace[l] IN
  /\ e.ev = "cleanup"
  /\ tainted' = tainted \cup AsSet(e.newToks)
  /\ UNCHANGED <<alive, cfg, assoc, pfd, sess, ipHeld, teidHeld, ended, stale, relabel>>
  /\ Obs(e)
  /\ chk' = ChkOK
  /\ last' = [ev |-> "cleanup", kind |-> "-", accepted |-> FALSE, u |-> "-"]
  /\ Advance
\* the agent died at a crash site that is a listed known finding ("crash:<site>"); any other death is consumed by
\* no action, so that the trace is rejected at this line
DiedEv ==
  LET e == Trace[l] IN
  /\ e.ev = "died" /\ Dev("crash:" \o e.site)
  /\ alive' = FALSE
  /\ UNCHANGED <<cfg, assoc, pfd, sess, ipHeld, teidHeld, ended, stale, relabel, tainted, tables, cmds>>
  /\ snap' = NoSnap /\ chk' = ChkOK /\ last' = [ev |-> "died", kind |-> "-", accepted |-> FALSE, u |-> "-"]
  /\ Advance

NotInject == UNCHANGED tainted
NotReport == UNCHANGED <<ddnLast, srrSeqs>>
NotTs == UNCHANGED peerTs
Next == /\ l <= Len(Trace)
        /\ \/ NotReport /\ NotTs /\ (InjectEv \/ CleanupEv \/ DiedEv)
           \/ NotInject /\ NotTs /\ ReportEv
           \/ NotInject /\ StartEv
           \/ NotInject /\ NotReport /\ StopEv
           \/ NotInject /\ NotReport /\ (HbEv \/ AssocEv \/ ReleaseEv \/ LostEv \/ RetransEv \/ PostponeEv \/ RaceEv \/ ListenerDropEv)
           \/ NotInject /\ NotReport /\ NotTs /\ (EndEv \/ KillEv \/ PfdEv \/ EstabEv \/ ModEv \/ DelEv \/ InjectRespEv)
        /\ used' = used \cup UsedNow \cup (IF Trace[l].ev = "died" THEN {"crash:" \o Trace[l].site} ELSE {}) \cup (IF Trace[l].ev = "race" THEN {"race:" \o Trace[l].pair} ELSE {}) \cup (IF Trace[l].ev = "listenerdrop" THEN {"F-LISTENER-DROP"} ELSE {}) \cup (IF Trace[l].ev = "report" /\ DdnShadowUsed(Trace[l]) THEN {"F-DDN-UNFORWARDED"} ELSE {})      \* the state BEFORE this step (every trace ends with an "end" line)
        /\ TLCSet(2, used')
Spec == Init /\ [][Next]_vars
\* printed at the end: the listed findings that manifested (the check prints a KNOWN-FINDING line for each)
ReportUsed == PrintT(<<"USED", TLCGet(2)>>)

----------------------------------------------------------------------------
(* invariants, named by property *)

\* C01
C01_AtMostOneResponsePerDatagram == last.ev = "inject" => chk.one

\* C02
C02_ExactlyOneResponse == chk.one
C02_ResponseTypeMatches == chk.type
C02_SequenceNumberEchoed == chk.seq
C02_HeaderSeidAddressing == chk.hdrSeid
C02_CauseCarried == chk.cause
C02_EstablishmentResponseShape == chk.shape
C02_CreatedPdrPerChosenValue == chk.created
C02_FseidAddressesSession == chk.addressed

\* C03
AfterAcceptedSessionReq == last.ev = "req" /\ last.kind \in {"estab", "mod", "del"} /\ last.accepted
C03_TablesAreImage == (cfg.dp # "up4" /\ (AfterAcceptedSessionReq \/ last.ev = "start")) => TablesAreImage(tables, sess, stale, Relaxed, tainted)
C03_UnknownOrUnassociatedRejected == chk.mustReject
C03_RejectedWritesNothing == chk.writesNothing
C03_StartClearsLookupModules == chk.startEmpty

\* C05 (BESS part): nothing of an ended session remains
\* lines of a concurrent phase except its last one carry the tables / snapshot of the end of the phase
NotBurst == last.kind \notin {"estab-burst", "mod-burst", "del-burst", "hb-burst", "release-burst"}
C05_NoDatapathResidue == (last.ev \in {"req", "lost", "report"} /\ NotBurst) => \A u \in ended : \A x \in tables.pdr \cup tables.far \cup tables.appQer \cup tables.sessQer : x.fseid # u \/ x \in stale \/ u \in tainted

\* UP4: when no session is live, nothing but the interfaces entries (and the slice meter) is left in the switch
C05_NoUp4Residue == (cfg.dp = "up4" /\ last.ev \in {"req", "lost"} /\ NotBurst /\ DOMAIN sess = {} /\ (last.kind \in {"del", "release", "-"} => last.accepted)) =>
  LET t == tables.up4 IN
  t.sessUL = {} /\ t.sessDL = {} /\ t.termUL = {} /\ t.termDL = {} /\ t.apps = {} /\ t.peers = {} /\ t.appMeters = {} /\ t.sessMeters = {}
\* UP4: when no session is live, every identifier is back in its pool (counter cells, meter cells, tunnel peer and application IDs)
C05_Up4PoolsRestored ==
  (cfg.dp = "up4" /\ snap.has /\ "up4" \in DOMAIN snap /\ last.ev \in {"req", "lost"} /\ NotBurst /\ DOMAIN sess = {}
     /\ (last.kind \in {"del", "release", "-"} => last.accepted)) =>
  /\ snap.up4.ctrOut = <<>> /\ snap.up4.appCellOut = <<>> /\ snap.up4.sessCellOut = <<>>
  /\ snap.up4.peerOut = <<>> /\ snap.up4.appIdOut = <<>> /\ snap.up4.meters = <<>>
\* a session that cannot be deleted never ends: the deletion of a live session is not refused unless the datapath failed
C05_DeletionOfLiveSessionNotRefused == chk.addressed
C05_Applies == last.ev \in {"req", "lost", "report"} /\ NotBurst
\* ... and everything allocated for it is returned (read from the guarded snapshot when the line carries one)
SnapStore == UNION {AsSet(snap.store[i].seids) : i \in 1..Len(snap.store)}
C05_SessionRecordsForgotten == (C05_Applies /\ snap.has) => SnapStore = DOMAIN sess
C05_AddressesReturned == (C05_Applies /\ snap.has) => {snap.ipHeld[i].u : i \in 1..Len(snap.ipHeld)} = DOMAIN ipHeld
TeidsHeldNow == UNION {{teidHeld[u][k] : k \in DOMAIN teidHeld[u]} : u \in DOMAIN teidHeld}
C05_TeidsReturned == (C05_Applies /\ snap.has) => snap.teidCount = Cardinality(TeidsHeldNow)
C05_GaugeCountsLiveSessions == (C05_Applies /\ snap.has) => snap.gauge = Cardinality(DOMAIN sess)

\* C06 / C07 (end-to-end part)
C06_AddressInPoolAndExclusive == chk.ipLegal
C07_SeidFreshPerAssociation == chk.seidLegal
C07_TeidNonZeroAndUnique == chk.teidLegal

\* the F-SEID and F-TEIDs reported in the response are the values programmed: the session's pdrLookup entries carry
\* its UP SEID token and, for CHOOSE PDRs, the TEID of the Created PDR
C07_ReportedEqualsProgrammed ==
  (last.ev = "req" /\ last.kind = "estab" /\ last.accepted) =>
     \/ \E sq \in SessQerChoices(sess[last.u]) : PdrImageOK(tables.pdr, last.u, sess[last.u], sq)
     \/ last.u \in Relaxed /\ PdrImageRelabelOK(tables.pdr, last.u, sess[last.u])

\* C08: the pdrLookup entries of the session just established / modified carry exactly the filter its PDRs denote
\* (inline SDF filter oriented by the PDR's direction, PFD-backed application id verbatim, malformed text ignored)
C08_FilterMeansWhatItSays ==
  (~OnUp4 /\ last.ev = "req" /\ last.kind \in {"estab", "mod"} /\ last.accepted) =>
     \/ \E sq \in SessQerChoices(sess[last.u]) : PdrImageOK(tables.pdr, last.u, sess[last.u], sq)
     \/ last.u \in Relaxed /\ PdrImageRelabelOK(tables.pdr, last.u, sess[last.u])
\* a PFD Management Request is answered; the table it leaves (whole replacement on accept, unchanged on reject) is what
\* later PDRs naming an application id are judged against by C08_FilterMeansWhatItSays
\* on UP4 the filters are the applications entries (and the terminations keyed by their IDs)
C08_Up4ApplicationsMeanWhatTheySay ==
  (OnUp4 /\ AfterAcceptedSessionReq) => (U4!AppsOK(tables.up4, sess, cfg.up4) /\ U4!TermsOK(tables.up4, sess, cfg.up4))
C08_PfdTableReplacedOrKept == (last.ev = "req" /\ last.kind = "pfd") => chk.one /\ chk.type
C08_ProvisionedApplicationUsable == chk.mustAccept

\* C09 (BESS): QER values as signalled, session-level QER chosen soundly
QosCfg == [q \in {cfg.qos[i].qfi : i \in 1..Len(cfg.qos)} |-> cfg.qos[CHOOSE i \in 1..Len(cfg.qos) : cfg.qos[i].qfi = q]]
C09_QerValuesAsSignalled ==
  (AfterAcceptedSessionReq /\ ~OnUp4) =>
    \A u \in DOMAIN sess :
       \/ \E sq \in SessQerChoices(sess[u]) :
             /\ QerKeysOK(tables.appQer, tables.sessQer, u, sess[u], sq)
             /\ QerImageValuesOK(tables, u, sess[u], sq, QosCfg)
       \/ u \in Relaxed /\ QerValuesRelabelOK(tables, u, sess[u], QosCfg)
\* the QER the datapath treats as session-wide limiter is referenced by every PDR of the session
C09_SessionQerSound ==
  (AfterAcceptedSessionReq /\ ~OnUp4) =>
    \A u \in DOMAIN sess :
       \/ \E sq \in SessQerChoices(sess[u]) :
             /\ QerKeysOK(tables.appQer, tables.sessQer, u, sess[u], sq)
             /\ SoundSessQer(sess[u], sq)
       \/ u \in Relaxed

\* C09 on the UP4 datapath (the traffic class and the gates are part of C04_TablesAreImage)
C09_Up4PeakRatesAsSignalled == (OnUp4 /\ last.ev = "req" /\ last.kind \in {"estab", "mod"} /\ last.accepted) => U4!PeakRatesOK(tables.up4, sess, cfg.up4)

\* ... and the gates and the traffic class as C09 states them: drop / forward, QFI and TC of every terminations entry
C09_Up4GateAndTrafficClass == (OnUp4 /\ last.ev = "req" /\ last.kind \in {"estab", "mod"} /\ last.accepted) => U4!TermsOK(tables.up4, sess, cfg.up4)

\* C10
C10_StopCompletesWithoutPanic == chk.stopClean
C10_StopInBoundedTime == chk.stopTime
C10_EachSessionRemovedExactlyOnce ==
  /\ chk.stopOnce
  /\ ((last.ev \in {"stop", "lost"} \/ (last.ev = "req" /\ last.kind = "release")) =>
        \A u \in ended : \A x \in tables.pdr \cup tables.far \cup tables.appQer \cup tables.sessQer : x.fseid # u \/ x \in stale \/ u \in tainted)
\* the association is forgotten (the same peer associates afresh) and other associations are unaffected: the steps that
\* follow a teardown are judged by the C02 / C03 invariants listed in the same configuration

\* C12
C12_AtMostOnePlusNTransmissions == chk.rtCount
C12_SpacedByResponseTimeout == chk.rtSpacing
C12_StopsOnResponseDeadOnlyWhenAllUnanswered == chk.rtOutcome
C12_PeerHeartbeatPostponesOwn == chk.postponed
C12_RecoveryTimeStampConstant == chk.tsConst
C12_AssociationAcceptedIffConnected == chk.assocIffConn
C12_FeaturesMatchConfiguration == chk.features
C12_HeartbeatAnsweredAnyTime == (last.ev = "req" /\ last.kind = "hb") => chk.one /\ chk.type /\ chk.hbTs

\* C13
C13_ReportForwardedWhenDue == chk.srrDue
C13_NoneForUnknownOrSilentSessions == chk.srrNone
C13_AtMostOncePerInterval == chk.srrRate
C13_ReportRequestShape == chk.srrShape

\* C04 (UP4 datapath)
AfterAccepted4 == last.ev = "req" /\ last.kind \in {"estab", "mod", "del", "release"} /\ last.accepted
C04_Applies == OnUp4 /\ (AfterAccepted4 \/ last.ev \in {"start", "lost"})
C04_TablesAreImage == C04_Applies => U4!TablesAreImage(tables.up4, sess, cfg.up4)
C04_InterfacesThroughout == (OnUp4 /\ alive) => U4!IfacesOK(tables.up4, cfg.up4)
Up4Envelope == OnUp4 => U4!WorldEnvelope(sess)

\* C15 (UP4 datapath): identifiers under write failures
HasPools == OnUp4 /\ snap.has /\ "up4" \in DOMAIN snap
PoolsOf(sn) == [ctrOut |-> AsSet(sn.up4.ctrOut), appCellOut |-> AsSet(sn.up4.appCellOut), sessCellOut |-> AsSet(sn.up4.sessCellOut),
                peerOut |-> AsSet(sn.up4.peerOut), peerDup |-> AsSet(sn.up4.peerDup), appIdOut |-> AsSet(sn.up4.appIdOut), appIdDup |-> AsSet(sn.up4.appIdDup)]
C15_CounterCellsExclusive == OnUp4 => U4!CountersExclusive(tables.up4)
C15_MeterCellsExclusive == OnUp4 => U4!AppCellsExclusive(tables.up4) /\ U4!SessCellsExclusive(tables.up4)
C15_NotFreeWhileInUse == (HasPools /\ last.ev = "req") => U4!NotFreeWhileUsed(tables.up4, PoolsOf(snap))
C15_NoIdTwiceInPool == HasPools => U4!NoDuplicatesInPools(PoolsOf(snap))
\* no meter cell has left its pool for the other one (or for good): the plug-in's meter records account for exactly the cells out of each pool
C15_MeterCellsStayInOwnPool == (HasPools /\ last.ev = "req" /\ NotBurst) => U4!MeterCellsInOwnPool(PoolsOf(snap), AsSet(snap.up4.meters))
\* a counter cell that a stored PDR of a session refers to is not free (a request that was refused half way must not have given
\* back what the session still holds: the cell would be handed to another session while this one still uses it)
C15_CellsOfStoredRulesStayAllocated ==
  (HasPools /\ last.ev = "req" /\ NotBurst /\ "storedCtr" \in DOMAIN snap.up4) => AsSet(snap.up4.storedCtr) \subseteq PoolsOf(snap).ctrOut
\* a tunnel peer ID that an entry of the switch still refers to is neither freed nor without its tunnel_peers entry
C15_PeerIdsInUseStayAllocated == (OnUp4 /\ last.ev = "req") => U4!PeerRefsOK(tables.up4, IF HasPools THEN PoolsOf(snap) ELSE U4!NoPools, HasPools)
LineOfLast == IF l > 1 /\ l - 1 <= Len(Trace) THEN Trace[l - 1] ELSE [ev |-> "none"]
ForcedFailure == LineOfLast.ev = "req" /\ "fault" \in DOMAIN LineOfLast /\ LineOfLast.fault.hit
C15_FailedWriteMeansRejection == (OnUp4 /\ last.ev = "req" /\ last.kind \in {"estab", "mod"} /\ ForcedFailure) => ~last.accepted
AliasC15 == [l |-> l, last |-> last, live |-> DOMAIN sess,
             fault |-> IF ForcedFailure THEN LineOfLast.fault ELSE <<>>,
             diag |-> IF OnUp4 THEN U4!IdDiag(tables.up4, IF HasPools THEN PoolsOf(snap) ELSE U4!NoPools) ELSE <<>>]

\* C16 (UP4 datapath): every update received with the last consumed line conforms to the served P4Info
PV == INSTANCE P4Valid
WritesOfLast == IF l > 1 /\ l - 1 <= Len(Trace) /\ "writes" \in DOMAIN Trace[l - 1] THEN Trace[l - 1].writes ELSE <<>>
C16_WritesConformToP4Info == OnUp4 => \A i \in 1..Len(WritesOfLast) : PV!WriteValid(WritesOfLast[i], cfg.p4info)
AliasC16 == [l |-> l, last |-> last,
             bad |-> IF OnUp4 THEN {PV!WriteDiag(WritesOfLast[i], cfg.p4info) : i \in {j \in 1..Len(WritesOfLast) : ~PV!WriteValid(WritesOfLast[j], cfg.p4info)}} ELSE {}]

\* C14
C14_EndMarkersToOldTunnelOnce == chk.markers

\* structural (not a property verdict): the script stayed inside the generators' envelope
InEnvelope == chk.envelope
\* ... and no two live PDRs have the same match key (they could not coexist in a wildcard-match table)
MatchKey(u, p) == LET b == PdrBase(u, p, <<>>) IN <<b.iface, b.tip, b.teid, b.sip, b.dip, b.proto, p.flt.sports, p.flt.dports>>
EnvDistinctMatchKeys ==      \* (BESS: pdrLookup is one table for all sessions; on UP4 the envelope is Up4Envelope)
  (AfterAcceptedSessionReq /\ ~OnUp4) =>
    \A u, v \in DOMAIN sess : \A i \in DOMAIN sess[u].pdrs : \A j \in DOMAIN sess[v].pdrs :
       (u # v \/ i # j) => MatchKey(u, sess[u].pdrs[i]) # MatchKey(v, sess[v].pdrs[j])

\* diagnostics printed with a counterexample (which session / which table does not match)
DbgSess(u) == [pdr |-> \E sq \in SessQerChoices(sess[u]) : PdrImageOK(tables.pdr, u, sess[u], sq),
               far |-> FarImageOK(tables.far, u, sess[u]),
               qer |-> \E sq \in SessQerChoices(sess[u]) : QerKeysOK(tables.appQer, tables.sessQer, u, sess[u], sq),
               all |-> \E sq \in SessQerChoices(sess[u]) : SessionImageOK(tables, u, sess[u], sq)]
Dbg == IF AfterAcceptedSessionReq \/ last.ev = "start"
       THEN [bad |-> {<<u, DbgSess(u)>> : u \in {v \in DOMAIN sess : ~DbgSess(v).all}},
             strays |-> {e.fseid : e \in {x \in tables.pdr \cup tables.far \cup tables.appQer \cup tables.sessQer : x.fseid \notin DOMAIN sess /\ x \notin stale /\ x.fseid \notin tainted}}]
       ELSE [bad |-> {}, strays |-> {}]
DbgQerEntry(e, q, dir) ==
  LET mbr == IF dir = "ul" THEN q.ulMbr ELSE q.dlMbr
      gbr == IF dir = "ul" THEN q.ulGbr ELSE q.dlGbr
      c == QosCfgOf(QosCfg, q.qfi)
  IN [gate |-> e.gate, sig |-> IF dir = "ul" THEN q.ulGate ELSE q.dlGate, mbr |-> mbr, gbr |-> gbr, cfg |-> c,
      pirOK |-> Eq(e.pir, MulSmall(mbr, 125)), cirOK |-> Eq(e.cir, BigMax(MulSmall(gbr, 125), <<1>>)),
      floors |-> <<Leq(c.cbs, e.cbs), Leq(c.pbs, e.pbs), Leq(c.ebs, e.ebs)>>,
      bursts |-> <<Leq(BurstOf(gbr, c.dur), e.cbs), Leq(BurstOf(mbr, c.dur), e.pbs), Leq(BurstOf(mbr, c.dur), e.ebs)>>,
      want |-> <<BurstOf(gbr, c.dur), BurstOf(mbr, c.dur)>>, e |-> e]
DbgQer == IF AfterAcceptedSessionReq
          THEN {DbgQerEntry(e, sess[e.fseid].qers[e.qer], IF e.iface = 1 THEN "ul" ELSE "dl") :
                  e \in {x \in tables.appQer : x.fseid \in DOMAIN sess /\ x.qer \in DOMAIN sess[x.fseid].qers
                                               /\ ~QerValuesOK(x, sess[x.fseid].qers[x.qer], IF x.iface = 1 THEN "ul" ELSE "dl", QosCfg)}}
          ELSE {}
AliasC09 == [l |-> l, last |-> last, relabel |-> relabel, qerbad |-> DbgQer]
Alias == [l |-> l, last |-> last, chk |-> chk, live |-> DOMAIN sess, relabel |-> relabel, used |-> used, dbg |-> Dbg]
Alias4 == [l |-> l, last |-> last, chk |-> chk, live |-> DOMAIN sess,
           diag |-> IF OnUp4 THEN U4!ImageDiag(tables.up4, sess, cfg.up4) ELSE <<>>]
=============================================================================

------------------------------ MODULE SessionImpl ------------------------------
(***************************************************************************)
(* The Session Modification handler AS CODED (I-model), with Go's slice    *)
(* semantics made explicit: a rule list is a window (length) on a backing  *)
(* array (capacity); a copy of the slice header shares the array, so that  *)
(* Update (write in place) and Remove (shift in place) on a working copy   *)
(* change what the stored session sees, while append writes in place only  *)
(* when the capacity allows and otherwise moves to a new array.            *)
(*                                                                         *)
(* One kind of rule (PDRs) is enough: FARs and QERs go through the same    *)
(* code.  A rule is [id, ver]; ver stands for its match key, so an Update  *)
(* with another ver is the "Update PDR with a new match key" case whose    *)
(* old datapath entry has to be deleted.  The datapath is the set of       *)
(* (id, ver) entries (pdrLookup: add = upsert under the key, delete by     *)
(* key).                                                                   *)
(*                                                                         *)
(* Handler (messages_session.go handleSessionModificationRequest), phases: *)
(*   1 working copy of the stored rule list              (Mode)            *)
(*   2 Create: append to the working copy                                  *)
(*   3 Update: write in place, remember stale entries; unknown id: skipped *)
(*   4 check the Remove IEs against the working copy     (Mode)            *)
(*   5 program created + updated rules (upsert)                            *)
(*   6 delete the stale entries                                            *)
(*   7 Remove: shift in place; an unknown id refuses the request           *)
(*   8 delete the removed rules' entries                                   *)
(*   9 store the working copy                                              *)
(* Mode selects the variant of the code:                                   *)
(*   "fixed"      the tree as repaired: step 1 copies into a new array,    *)
(*                step 4 refuses before anything is programmed             *)
(*   "nocopy"     before repair 3fa6008: step 1 copies the slice header    *)
(*   "latecheck"  before repair eb21414: no step 4 (an unknown Remove id   *)
(*                is noticed in step 7, after steps 5 and 6)               *)
(*   "clipped"    seeded changes R7-C03a / R7-C05b: step 1 is s[:len:len]  *)
(* Design-level properties (the C03 / C05 statements on this abstraction): *)
(*   RejectedChangesNothing  a refused request leaves the stored rules and *)
(*                           the datapath as they were                     *)
(*   DatapathIsImage         after every request the datapath holds        *)
(*                           exactly the stored rules' entries             *)
(* TLC checks both on the complete graph for "fixed"; for the other modes  *)
(* it must find a counterexample (negative controls, run by check C03).    *)
(* The model gives no verdict about the code - the traces of the real      *)
(* agent do (TraceE2E); it says which request shapes matter, and they are  *)
(* the ones the generators send (A:rej in BessScript.tla, the refused-     *)
(* half-way modifications of the random histories).                        *)
(***************************************************************************)
EXTENDS Naturals, Sequences, FiniteSets, TLC

CONSTANTS Ids,        \* rule ids a request may name (one more id, Unknown, is never created)
          Vers,       \* match-key versions
          Mode,       \* "fixed" | "nocopy" | "latecheck" | "clipped"
          MaxItems    \* room the agent's lists are created with (10 in the code; small here)

Unknown == 99
Nil == [id |-> 0, ver |-> 0]

VARIABLES arr,     \* backing array of the stored list: sequence of rules (unused slots are Nil)
          len,     \* stored length
          dp,      \* datapath entries: set of [id, ver]
          lastOK   \* the two properties, evaluated for the last request
vars == <<arr, len, dp, lastOK>>

Stored(a, n) == [i \in 1..n |-> a[i]]
Image(a, n) == {a[i] : i \in 1..n}
Cap(a) == Len(a)
IdxOf(a, n, id) == IF \E i \in 1..n : a[i].id = id THEN CHOOSE i \in 1..n : a[i].id = id /\ \A j \in 1..(i - 1) : a[j].id # id ELSE 0

\* a request: rules created (ids not in the session, envelope of the generators), updates id -> new ver (any id),
\* removes: a sequence of ids (possibly unknown, possibly repeated)
Requests(a, n) ==
  LET have == {a[i].id : i \in 1..n} IN
  [creates : SUBSET [id : Ids \ have, ver : Vers],
   updates : SUBSET [id : Ids \cup {Unknown}, ver : Vers],
   removes : {<<>>} \cup {<<x>> : x \in Ids \cup {Unknown}} \cup {<<x, y>> : x \in Ids, y \in Ids \cup {Unknown}}]

NoDupCreates(r) == \A c1, c2 \in r.creates : c1.id = c2.id => c1 = c2
NoDupUpdates(r) == \A u1, u2 \in r.updates : u1.id = u2.id => u1 = u2

\* ---- Go slices ----------------------------------------------------------
\* a working slice: [a |-> array, n |-> length, shared |-> BOOLEAN (the array is the stored one)]
\* writes to a shared array are visible through the stored slice header (arr', with the stored len)
SliceAppend(w, x) ==
  IF w.n < Cap(w.a) THEN [w EXCEPT !.a = [w.a EXCEPT ![w.n + 1] = x], !.n = w.n + 1]                 \* in place
  ELSE [a |-> [i \in 1..(2 * w.n + 1) |-> IF i <= w.n THEN w.a[i] ELSE IF i = w.n + 1 THEN x ELSE Nil],
        n |-> w.n + 1, shared |-> FALSE]                                                              \* new array
WriteAt(w, i, x) == [w EXCEPT !.a = [w.a EXCEPT ![i] = x]]
RemoveAt(w, i) ==       \* append(s[:i], s[i+1:]...): shift left in place, the last slot keeps its old content
  [w EXCEPT !.a = [k \in 1..Cap(w.a) |-> IF k >= i /\ k < w.n THEN w.a[k + 1] ELSE w.a[k]], !.n = w.n - 1]

WorkingCopy ==
  CASE Mode \in {"fixed", "latecheck"} ->
         [a |-> [i \in 1..(len + MaxItems) |-> IF i <= len THEN arr[i] ELSE Nil], n |-> len, shared |-> FALSE]
    [] Mode = "nocopy"  -> [a |-> arr, n |-> len, shared |-> TRUE]
    [] Mode = "clipped" -> [a |-> [i \in 1..len |-> arr[i]], n |-> len, shared |-> TRUE]   \* s[:len:len]: same array, capacity = len

\* what the stored slice header sees after the handler wrote through working slice w (only the first Cap(arr) slots can be shared)
SeenByStore(w) == IF w.shared THEN [i \in 1..Cap(arr) |-> IF i <= Cap(w.a) THEN w.a[i] ELSE arr[i]] ELSE arr

\* ---- the handler -----------------------------------------------------------
RECURSIVE ApplyCreates(_, _), ApplyUpdates(_, _, _), ApplyRemoves(_, _, _)
ApplyCreates(w, cs) == IF cs = {} THEN w ELSE LET c == CHOOSE x \in cs : TRUE IN ApplyCreates(SliceAppend(w, c), cs \ {c})
\* result: [w, stale]
ApplyUpdates(w, us, stale) ==
  IF us = {} THEN [w |-> w, stale |-> stale]
  ELSE LET u == CHOOSE x \in us : TRUE
           i == IdxOf(w.a, w.n, u.id) IN
       IF i = 0 THEN ApplyUpdates(w, us \ {u}, stale)                                  \* unknown id: logged and skipped
       ELSE ApplyUpdates(WriteAt(w, i, u), us \ {u}, IF w.a[i].ver # u.ver THEN stale \cup {w.a[i]} ELSE stale)
\* result: [ok, w, removed]
ApplyRemoves(w, rs, removed) ==
  IF rs = <<>> THEN [ok |-> TRUE, w |-> w, removed |-> removed]
  ELSE LET i == IdxOf(w.a, w.n, Head(rs)) IN
       IF i = 0 THEN [ok |-> FALSE, w |-> w, removed |-> removed]
       ELSE ApplyRemoves(RemoveAt(w, i), Tail(rs), removed \cup {w.a[i]})
RemovalsCheck(w, rs) ==    \* checkRemovals: every id present, none named twice
  /\ \A k \in 1..Len(rs) : IdxOf(w.a, w.n, rs[k]) # 0
  /\ \A k1, k2 \in 1..Len(rs) : k1 # k2 => rs[k1] # rs[k2]

Handle(r) ==
  LET w0 == WorkingCopy
      w1 == ApplyCreates(w0, r.creates)
      u  == ApplyUpdates(w1, r.updates, {})
      w2 == u.w
      early == Mode \in {"fixed", "nocopy", "clipped"} /\ ~RemovalsCheck(w2, r.removes)   \* (the check was added with eb21414)
      programmed == {x \in r.creates : TRUE} \cup {x \in r.updates : IdxOf(w1.a, w1.n, x.id) # 0}
      dp1 == (dp \cup programmed) \ u.stale
      rm == ApplyRemoves(w2, r.removes, {})
  IN IF early
     THEN \* refused before anything is programmed
          [accepted |-> FALSE, arr |-> SeenByStore(w2), len |-> len, dp |-> dp]
     ELSE IF ~rm.ok
     THEN \* refused in the remove phase: steps 5 and 6 have been carried out
          [accepted |-> FALSE, arr |-> SeenByStore(rm.w), len |-> len, dp |-> dp1]
     ELSE [accepted |-> TRUE, arr |-> rm.w.a, len |-> rm.w.n, dp |-> dp1 \ rm.removed]

Init == /\ arr = [i \in 1..MaxItems |-> Nil] /\ len = 0 /\ dp = {} /\ lastOK = [rejected |-> TRUE, image |-> TRUE]

Step ==
  \E r \in Requests(arr, len) :
    /\ NoDupCreates(r) /\ NoDupUpdates(r)
    /\ LET o == Handle(r) IN
       /\ arr' = o.arr /\ len' = o.len /\ dp' = o.dp
       /\ lastOK' = [rejected |-> (o.accepted \/ (Stored(o.arr, o.len) = Stored(arr, len) /\ o.dp = dp)),
                     image |-> (o.dp = Image(o.arr, o.len))]
Spec == Init /\ [][Step]_vars

RejectedChangesNothing == lastOK.rejected
DatapathIsImage == lastOK.image
\* lastOK is an observation, not part of the handler's state
View == <<Stored(arr, len), Cap(arr), dp, lastOK>>
=============================================================================

SPECIFICATION Spec
CONSTANTS
  W = 5
  ExactLimit = 10
INVARIANTS AcceptedImpliesExact TrivialExact TernaryTotal ExactRefusal OracleSound
CHECK_DEADLOCK FALSE

------------------------------ MODULE Up4Image ------------------------------
(***************************************************************************)
(* Reference specification (R-spec) of the UP4 datapath image (C04) and of *)
(* the identifier discipline of the P4 plug-in (C15).                      *)
(*                                                                         *)
(* TablesAreImage(t, sess, c) says when the observed state t of the        *)
(* harness' P4Runtime switch is exactly what the live sessions' rules      *)
(* denote.  It is stated from the PFCP rules (Pfcp.tla normal form) and    *)
(* the configuration only; identifiers the agent chooses (application ids, *)
(* tunnel peer ids, counter and meter cells) are existentially bound: the  *)
(* relation demands that SOME consistent choice explains the tables.       *)
(*                                                                         *)
(* t: [sessUL, sessDL, termUL, termDL, apps, peers, ifaces, appMeters,     *)
(*     sessMeters, sliceMeters]  (sets of records, see harness e2e/up4.go) *)
(* c: [slice, qfiTc (sequence of [qfi, tc]), defaultTc, n3, n3len,         *)
(*     uePoolNet, uePoolLen]                                               *)
(* Envelope (DESIGN 11.4, checked by Up4Envelope): every live session has   *)
(* downlink PDRs with one common non-zero UE address; per direction the    *)
(* application filters of a session are pairwise different; the downlink   *)
(* PDRs of a session agree on buffering and tunnel; a PDR has at most one  *)
(* QER with a QFI.                                                         *)
(***************************************************************************)
EXTENDS Pfcp

GtpuPort == 2152
IfaceAccess == 1
IfaceCore == 2
DirUplink == 1
DirDownlink == 2

RangeOf(f) == {f[x] : x \in DOMAIN f}
IsUL(p) == p.src = "access"
IsDL(p) == p.src = "core"
PdrsOf4(s) == RangeOf(s.pdrs)
DlPdrs(s) == {p \in PdrsOf4(s) : IsDL(p)}
\* (a session whose downlink PDRs were all removed keeps the address its uplink PDRs name)
UeAddrs(s) == IF DlPdrs(s) # {} THEN {p.ue : p \in DlPdrs(s)} ELSE {p.ue : p \in {x \in PdrsOf4(s) : IsUL(x)}}
SessUe(s) == CHOOSE a \in UeAddrs(s) : TRUE

NormPorts(r) == IF IsWildPorts(r) THEN WildPorts ELSE r
LenOfMask(m) == IF \E n \in 0..32 : MaskOfLen(n) = m THEN CHOOSE n \in 0..32 : MaskOfLen(n) = m ELSE -1

\* the application side of a PDR's filter: remote address, remote port, protocol
AppFlt(p) ==
  IF IsUL(p) THEN [ip |-> p.flt.dip, plen |-> LenOfMask(p.flt.dmask), ports |-> NormPorts(p.flt.dports), proto |-> p.flt.proto, pmask |-> p.flt.pmask]
  ELSE [ip |-> p.flt.sip, plen |-> LenOfMask(p.flt.smask), ports |-> NormPorts(p.flt.sports), proto |-> p.flt.proto, pmask |-> p.flt.pmask]
HasApp(p) == LET f == AppFlt(p) IN f.plen # 0 \/ f.ports # WildPorts \/ f.pmask # 0

AppEntries(t, f, c) ==
  {e \in t.apps : e.slice = c.slice /\ e.ip = f.ip /\ e.plen = f.plen /\ <<e.lo, e.hi>> = f.ports /\ e.proto = f.proto /\ e.pmask = f.pmask}
AppIdOf(t, p, c) ==
  IF ~HasApp(p) THEN 0
  ELSE LET E == AppEntries(t, AppFlt(p), c) IN IF E = {} THEN -1 ELSE (CHOOSE e \in E : TRUE).app

LivePdrs(sess) == UNION {PdrsOf4(sess[u]) : u \in DOMAIN sess}
LiveFilters(sess) == {AppFlt(p) : p \in {x \in LivePdrs(sess) : HasApp(x)}}

\* one applications entry per distinct application filter, present iff a live rule uses it; ids identify
AppsOK(t, sess, c) ==
  /\ \A f \in LiveFilters(sess) : Cardinality(AppEntries(t, f, c)) = 1
  /\ \A e \in t.apps : \E f \in LiveFilters(sess) : e \in AppEntries(t, f, c)
  /\ \A e1, e2 \in t.apps : e1 # e2 => e1.app # e2.app
  /\ \A e \in t.apps : e.app # 0

\* FARs that send to a GTP peer (an Update FAR that does not repeat the Destination Interface reads as 0 = Access)
Tunnels(s) == {f \in RangeOf(s.fars) : f.ohc /\ HasBit(f.action, ActFORW) /\ f.dst \in {"access", "none"} /\ f.teid # Zero32}
LivePeers(sess) == UNION {{f.peer : f \in Tunnels(sess[u])} : u \in DOMAIN sess}
PeerEntries(t, a, c) == {e \in t.peers : e.dst = a /\ e.src = c.n3 /\ e.sport = GtpuPort}
PeersOK(t, sess, c) ==
  /\ \A a \in LivePeers(sess) : Cardinality(PeerEntries(t, a, c)) = 1
  /\ \A e \in t.peers : \E a \in LivePeers(sess) : e \in PeerEntries(t, a, c)
  /\ \A e1, e2 \in t.peers : e1 # e2 => e1.id # e2.id

UlKey(p) == IF p.tun = <<>> THEN <<Zero32, Zero32>> ELSE p.tun
ExpSessUL(sess) == {UlKey(p) : p \in {x \in LivePdrs(sess) : IsUL(x)}}
SessULOK(t, sess) ==
  /\ {<<e.n3, e.teid>> : e \in t.sessUL} = ExpSessUL(sess)
  /\ Cardinality(t.sessUL) = Cardinality(ExpSessUL(sess))

FarOf(s, p) == s.fars[p.far]
HasFar(s, p) == p.far \in DOMAIN s.fars
SessWithDl(sess) == {u \in DOMAIN sess : DlPdrs(sess[u]) # {}}
SessDLOK(t, sess, c) ==
  /\ {e.ue : e \in t.sessDL} = {SessUe(sess[u]) : u \in SessWithDl(sess)}
  /\ Cardinality(t.sessDL) = Cardinality({SessUe(sess[u]) : u \in SessWithDl(sess)})
  /\ \A u \in SessWithDl(sess) : \A p \in DlPdrs(sess[u]) :
       HasFar(sess[u], p) =>
         LET f == FarOf(sess[u], p)
             E == {e \in t.sessDL : e.ue = SessUe(sess[u])} IN
         \A e \in E :
           IF HasBit(f.action, ActBUFF) THEN e.act = "buff"
           ELSE IF f \in Tunnels(sess[u]) THEN e.act = "fwd" /\ \E pe \in PeerEntries(t, f.peer, c) : pe.id = e.peer
           ELSE TRUE

\* the QER of a PDR that carries the QoS flow: the one with a QFI (if exactly one)
QfiQers(s, p) == {s.qers[p.qers[i]] : i \in {j \in 1..Len(p.qers) : p.qers[j] \in DOMAIN s.qers /\ s.qers[p.qers[j]].qfi # 0}}
HasFlowQer(s, p) == Cardinality(QfiQers(s, p)) = 1
FlowQer(s, p) == CHOOSE q \in QfiQers(s, p) : TRUE
TcMap(c) == [q \in {c.qfiTc[i].qfi : i \in 1..Len(c.qfiTc)} |-> c.qfiTc[CHOOSE i \in 1..Len(c.qfiTc) : c.qfiTc[i].qfi = q].tc]
TcOf(c, qfi) == IF qfi \in DOMAIN TcMap(c) THEN TcMap(c)[qfi] ELSE c.defaultTc
GateClosed(s, p) ==
  \E i \in 1..Len(p.qers) : p.qers[i] \in DOMAIN s.qers /\
     (IF IsUL(p) THEN s.qers[p.qers[i]].ulGate = 1 ELSE s.qers[p.qers[i]].dlGate = 1)

TermKey(t, s, p, c) == <<SessUe(s), AppIdOf(t, p, c)>>
TermOK(t, s, p, c) ==
  LET tab == IF IsUL(p) THEN t.termUL ELSE t.termDL
      k == TermKey(t, s, p, c)
      E == {e \in tab : <<e.ue, e.app>> = k} IN
  /\ Cardinality(E) = 1
  /\ HasFar(s, p) =>
       LET f == FarOf(s, p)
           e == CHOOSE x \in E : TRUE
           drop == HasBit(f.action, ActDROP) \/ GateClosed(s, p) IN
       /\ e.act = IF drop THEN "drop" ELSE "fwd"
       /\ (~drop /\ IsDL(p) /\ f \in Tunnels(s)) => e.teid = f.teid
       /\ (~drop /\ HasFlowQer(s, p)) => e.tc = TcOf(c, FlowQer(s, p).qfi)
       /\ (~drop /\ IsDL(p) /\ HasFlowQer(s, p)) => e.qfi = FlowQer(s, p).qfi

SessWithUe(sess) == {u \in DOMAIN sess : UeAddrs(sess[u]) # {}}
ExpTermKeys(t, sess, c, dir) ==
  UNION {{TermKey(t, sess[u], p, c) : p \in {x \in PdrsOf4(sess[u]) : x.src = dir}} : u \in SessWithUe(sess)}
TermsOK(t, sess, c) ==
  /\ \A u \in SessWithUe(sess) : \A p \in PdrsOf4(sess[u]) : (IsUL(p) \/ IsDL(p)) => TermOK(t, sess[u], p, c)
  /\ {<<e.ue, e.app>> : e \in t.termUL} = ExpTermKeys(t, sess, c, "access")
  /\ {<<e.ue, e.app>> : e \in t.termDL} = ExpTermKeys(t, sess, c, "core")

IfacesOK(t, c) ==
  /\ \E e \in t.ifaces : e.ip = c.n3 /\ e.plen = c.n3len /\ e.iface = IfaceAccess /\ e.dir = DirUplink /\ e.slice = c.slice
  /\ \E e \in t.ifaces : e.ip = c.uePoolNet /\ e.plen = c.uePoolLen /\ e.iface = IfaceCore /\ e.dir = DirDownlink /\ e.slice = c.slice

NumLiveQers(sess) == LET S == {<<u, q>> : u \in DOMAIN sess, q \in UNION {DOMAIN sess[v].qers : v \in DOMAIN sess}} IN
                     Cardinality({x \in S : x[2] \in DOMAIN sess[x[1]].qers})
\* configured meter cells only for QERs of live sessions: a QER owns at most two cells
MetersOK(t, sess) == Cardinality(t.appMeters) + Cardinality(t.sessMeters) <= 2 * NumLiveQers(sess)

\* C09 on UP4: the meter cell a forwarding terminations entry names is configured with peak rate MBR x 125 bytes/s of
\* the PDR's flow QER in that direction and a peak burst of at least 10 ms at that rate; likewise the session meter
\* cell of a sessions entry with the session QER (the QER of the PDR without a QFI).  Rates are BigNat (kbit/s).
CellsAt(cells, i) == IF i > 0 THEN {x \in cells : x.idx = i} ELSE {}
CellHolds(x, mbr) == ~x.neg /\ Eq(x.pir, MulSmall(mbr, 125)) /\ Leq(DivSmall(MulSmall(mbr, 125), 100), x.pbs)
\* the meter cells on the path of a PDR's packets: the application-meter cell its terminations entry names and the
\* session-meter cell its sessions entry names
PathCells(t, s, p, c) ==
  LET k == TermKey(t, s, p, c)
      E == {e \in (IF IsUL(p) THEN t.termUL ELSE t.termDL) : <<e.ue, e.app>> = k /\ e.act = "fwd"}
      S == IF IsUL(p) THEN {x \in t.sessUL : <<x.n3, x.teid>> = UlKey(p)} ELSE {x \in t.sessDL : x.ue = SessUe(s)} IN
  UNION {CellsAt(t.appMeters, e.ameter) : e \in E} \cup UNION {CellsAt(t.sessMeters, x.smeter) : x \in S}
Forwarded(t, s, p, c) ==
  \E e \in (IF IsUL(p) THEN t.termUL ELSE t.termDL) : <<e.ue, e.app>> = TermKey(t, s, p, c) /\ e.act = "fwd"
QersOfPdr(s, p) == {s.qers[p.qers[i]] : i \in {j \in 1..Len(p.qers) : p.qers[j] \in DOMAIN s.qers}}
DirMbr(q, p) == IF IsUL(p) THEN q.ulMbr ELSE q.dlMbr
\* every QER of a forwarded PDR with a non-zero MBR in the PDR's direction is enforced by a cell on the PDR's path
\* (whichever of the two meters the agent uses for it), and no cell on the path enforces anything else
PeakRatesOK(t, sess, c) ==
  \A u \in SessWithDl(sess) : \A p \in {x \in PdrsOf4(sess[u]) : (IsUL(x) \/ IsDL(x)) /\ Forwarded(t, sess[u], x, c)} :
     LET s == sess[u]  P == PathCells(t, s, p, c) IN
     /\ \A q \in QersOfPdr(s, p) : ~IsZero(DirMbr(q, p)) => \E x \in P : CellHolds(x, DirMbr(q, p))
     /\ \A x \in P : \E q \in QersOfPdr(s, p) : CellHolds(x, DirMbr(q, p))

TablesAreImage(t, sess, c) ==
  /\ IfacesOK(t, c) /\ AppsOK(t, sess, c) /\ PeersOK(t, sess, c) /\ SessULOK(t, sess) /\ SessDLOK(t, sess, c)
  /\ TermsOK(t, sess, c) /\ MetersOK(t, sess)

\* which conjunct fails (for the error trace)
ImageDiag(t, sess, c) ==
  [ifaces |-> IfacesOK(t, c), apps |-> AppsOK(t, sess, c), peers |-> PeersOK(t, sess, c), sessUL |-> SessULOK(t, sess),
   sessDL |-> SessDLOK(t, sess, c), terms |-> TermsOK(t, sess, c), meters |-> MetersOK(t, sess)]

----------------------------------------------------------------------------
(* envelope of the generators *)
SessEnvelope(s) ==
  /\ Cardinality(UeAddrs(s)) = 1 /\ SessUe(s) # Zero32
  /\ \A p1, p2 \in PdrsOf4(s) : (p1 # p2 /\ p1.src = p2.src /\ p1.src \in {"access", "core"}) => AppFlt(p1) # AppFlt(p2) \/ HasApp(p1) # HasApp(p2)
  /\ \A p1, p2 \in DlPdrs(s) : (HasFar(s, p1) /\ HasFar(s, p2)) =>
        /\ HasBit(FarOf(s, p1).action, ActBUFF) = HasBit(FarOf(s, p2).action, ActBUFF)
        /\ (FarOf(s, p1) \in Tunnels(s)) = (FarOf(s, p2) \in Tunnels(s))
        /\ FarOf(s, p1).peer = FarOf(s, p2).peer
  /\ \A p \in PdrsOf4(s) : Cardinality(QfiQers(s, p)) <= 1
\* different sessions have different UE addresses
WorldEnvelope(sess) ==
  /\ \A u \in DOMAIN sess : SessEnvelope(sess[u])
  /\ \A u, v \in DOMAIN sess : u # v => SessUe(sess[u]) # SessUe(sess[v])

----------------------------------------------------------------------------
(* C15: identifiers as the switch and the plug-in's pools show them.                                 *)
(* pools: [ctrOut, appCellOut, sessCellOut, peerOut, peerDup, appIdOut, appIdDup]: identifiers that   *)
(* are not free in their pool / occur twice in a pool queue.                                          *)
TermEntries(t) == t.termUL \cup t.termDL
\* a counter cell is held by one terminations entry (one PDR) at a time
CountersExclusive(t) == \A e1, e2 \in TermEntries(t) : e1 # e2 => e1.ctr # e2.ctr
\* an application-meter cell is used by entries of one UE address (one session) only; likewise session-meter cells
AppCellsExclusive(t) == \A e1, e2 \in TermEntries(t) : (e1.act = "fwd" /\ e2.act = "fwd" /\ e1.ameter = e2.ameter /\ e1.ameter > 0) => e1.ue = e2.ue
SessEntries(t) == t.sessUL \cup t.sessDL
\* uplink sessions entries are keyed by TEID, downlink ones by UE address: ownership is compared through the terminations
SessCellsOfUe(t, ue) == {e.smeter : e \in {x \in t.sessDL : x.ue = ue}}
SessCellsExclusive(t) == \A e1, e2 \in t.sessDL : (e1 # e2 /\ e1.smeter > 0) => e1.smeter # e2.smeter
\* an identifier that an entry of the switch uses is not free in its pool
UsedCtr(t) == {e.ctr : e \in TermEntries(t)}
UsedAppCells(t) == {e.ameter : e \in {x \in TermEntries(t) : x.act = "fwd" /\ x.ameter > 0}}
UsedSessCells(t) == {e.smeter : e \in {x \in SessEntries(t) : x.smeter > 0}}
UsedPeerIds(t) == {e.id : e \in t.peers}
UsedAppIds(t) == {e.app : e \in t.apps}
NotFreeWhileUsed(t, pools) ==
  /\ UsedCtr(t) \subseteq pools.ctrOut
  /\ UsedAppCells(t) \subseteq pools.appCellOut
  /\ UsedSessCells(t) \subseteq pools.sessCellOut
  /\ UsedPeerIds(t) \subseteq pools.peerOut
  /\ UsedAppIds(t) \subseteq pools.appIdOut
NoDuplicatesInPools(pools) == pools.peerDup = {} /\ pools.appIdDup = {}
\* identifiers do not migrate between the two meter pools (nor leave them for good): the cells out of a pool are exactly
\* the cells the plug-in records for the meters of that pool's kind (recs: [type (1 application, 2 session), ul, dl])
CellsOfKind(recs, k) == UNION {{m.ul, m.dl} : m \in {x \in recs : x.type = k}}
MeterCellsInOwnPool(pools, recs) ==
  /\ pools.appCellOut = CellsOfKind(recs, 1)
  /\ pools.sessCellOut = CellsOfKind(recs, 2)
NoPools == [ctrOut |-> {}, appCellOut |-> {}, sessCellOut |-> {}, peerOut |-> {}, peerDup |-> {}, appIdOut |-> {}, appIdDup |-> {}]
\* a tunnel peer ID that a sessions entry refers to is allocated and has its tunnel_peers entry (0 = none, 1 = dbuf)
ReferencedPeerIds(t) == {e.peer : e \in {x \in t.sessDL : x.act = "fwd" /\ x.peer > 1}}
PeerRefsOK(t, pools, havePools) ==
  /\ ReferencedPeerIds(t) \subseteq UsedPeerIds(t)
  /\ havePools => ReferencedPeerIds(t) \subseteq pools.peerOut
IdDiag(t, pools) ==
  [ctr |-> CountersExclusive(t), appCells |-> AppCellsExclusive(t), sessCells |-> SessCellsExclusive(t),
   ctrFree |-> UsedCtr(t) \ pools.ctrOut, appCellFree |-> UsedAppCells(t) \ pools.appCellOut, sessCellFree |-> UsedSessCells(t) \ pools.sessCellOut,
   peerFree |-> UsedPeerIds(t) \ pools.peerOut, appIdFree |-> UsedAppIds(t) \ pools.appIdOut, dups |-> <<pools.peerDup, pools.appIdDup>>]
=============================================================================

SPECIFICATION Spec
CONSTANTS
  W = 6
  ExactLimit = 20
INVARIANTS AcceptedImpliesExact TrivialExact TernaryTotal ExactRefusal
CHECK_DEADLOCK FALSE

SPECIFICATION Spec
CONSTANTS KnownDevs = {}
INVARIANTS
  InEnvelope
  C07_SeidFreshPerAssociation
  C07_TeidNonZeroAndUnique
  C07_ReportedEqualsProgrammed
  C02_EstablishmentResponseShape
POSTCONDITION TraceAccepted
ALIAS Alias
CHECK_DEADLOCK FALSE

SPECIFICATION Spec
CONSTANTS KnownDevs = {}
INVARIANTS
  C07_SeidFreshPerAssociation
  C07_TeidNonZeroAndUnique
  C07_ReportedEqualsProgrammed
  C02_EstablishmentResponseShape
  InEnvelope
POSTCONDITION TraceAccepted
ALIAS Alias
CHECK_DEADLOCK FALSE

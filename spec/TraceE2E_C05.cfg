SPECIFICATION Spec
CONSTANTS KnownDevs = {}
INVARIANTS
  InEnvelope
  C05_NoDatapathResidue
  C05_Up4PoolsRestored
  C05_DeletionOfLiveSessionNotRefused
  C05_NoUp4Residue
  C05_SessionRecordsForgotten
  C05_AddressesReturned
  C05_TeidsReturned
  C05_GaugeCountsLiveSessions
  C06_AddressInPoolAndExclusive
POSTCONDITION TraceAccepted
ALIAS Alias
CHECK_DEADLOCK FALSE

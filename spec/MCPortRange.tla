---------------------------- MODULE MCPortRange ----------------------------
(* Exhaustive check of the transcribed expansion algorithms (I-level of PortRange) against the  *)
(* R-level exactness predicates, for a small bit width W; and a check of the R-level predicates *)
(* themselves against the naive set-based definition (oracle validation).                      *)
EXTENDS PortRange

VARIABLES lo, hi, stage
vars == <<lo, hi, stage>>
\* three levels (root, low chosen, high chosen) so that TLC's workers share the enumeration
Init == lo = 0 /\ hi = 0 /\ stage = 0
Next == \/ stage = 0 /\ lo' \in 0..Limit /\ hi' = lo' /\ stage' = 1
        \/ stage = 1 /\ hi' \in lo..Limit /\ lo' = lo /\ stage' = 2
Spec == Init /\ [][Next]_vars

Strategies == {"exact", "ternary"}

\* C17 on the design: whatever is accepted is exact; a wildcard only for the full range
AcceptedImpliesExact == stage = 2 => \A s \in Strategies : ExpandOk(lo, hi, ExpandI(lo, hi, s))
TrivialExact == stage = 2 => ExpandOk(lo, hi, Trivial(lo, hi))
\* the ternary strategy never refuses and needs at most 2W rules
TernaryTotal == stage = 2 => LET r == ExpandI(lo, hi, "ternary") IN r.ok /\ Len(r.rules) <= 2 * W
\* the exact strategy refuses exactly the true ranges wider than ExactLimit
ExactRefusal == stage = 2 => ExpandI(lo, hi, "exact").ok <=> ~(IsRange(lo, hi) /\ Width(lo, hi) > ExactLimit)

\* --- oracle validation: ExactCover agrees with the naive definition, also on wrong covers ---
NaiveCover(rules) == {p \in 0..Limit : \E i \in 1..Len(rules) : RuleMatches(rules[i], p)}
NaiveDisjoint(rules) == \A i, j \in 1..Len(rules) : i < j =>
                           ~\E p \in 0..Limit : RuleMatches(rules[i], p) /\ RuleMatches(rules[j], p)
NaiveExact(rules, l, h) == NaiveCover(rules) = l..h /\ NaiveDisjoint(rules)
\* single-rule corruptions of a rule list
Corruptions(rules) ==
  {rules} \cup
  {SubSeq(rules, 1, i - 1) \o SubSeq(rules, i + 1, Len(rules)) : i \in 1..Len(rules)} \cup          \* drop one
  {[rules EXCEPT ![i].mask = @ & (Limit - 2^b)] : i \in 1..Len(rules), b \in 0..(W - 1)} \cup       \* widen one
  {[rules EXCEPT ![i].port = (@ + 1) % (Limit + 1)] : i \in 1..Len(rules)} \cup                      \* shift one
  {rules \o <<rules[i]>> : i \in 1..Len(rules)}                                                      \* duplicate one
OracleSound == stage = 2 =>
  \A s \in Strategies :
    LET r == ExpandI(lo, hi, s) IN
    r.ok => \A c \in Corruptions(r.rules) :
               ExactCover(c, EffLo(lo, hi), EffHi(lo, hi)) <=> NaiveExact(c, EffLo(lo, hi), EffHi(lo, hi))
=============================================================================

------------------------------ MODULE TraceC19 ------------------------------
(* Trace validation for C19: every HTTP request sent to the real agent's /v1/config/network-slices *)
(* endpoint with its status, the number of header writes and the slice-meter commands the BESS     *)
(* server received for it.                                                                         *)
(*  {"op":"http","method":m,"body":"valid"|"empty"|"notjson"|"wrongtypes"|"truncated"|"trailing", *)
(*   "unit":u,"ul":Big,"dl":Big,"ulBurst":Big,"dlBurst":Big,                                       *)
(*   "status":n,"extraHeaders":n,"cmds":n (slice-meter commands caused), "up":entry,"down":entry}   *)
EXTENDS SliceApi, TraceLib
VARIABLES l, ok
vars == <<l, ok>>

AllOK == [status |-> TRUE, once |-> TRUE, untouched |-> TRUE, programmed |-> TRUE]

Check(e) ==
  IF ~MethodWrites(e.method)
  THEN [AllOK EXCEPT !.status = (e.status = 405), !.once = (e.extraHeaders = 0), !.untouched = (e.cmds = 0)]
  ELSE IF e.body # "valid"
  THEN [AllOK EXCEPT !.status = (e.status \in 400..499), !.once = (e.extraHeaders = 0), !.untouched = (e.cmds = 0)]
  ELSE IF "dp" \in DOMAIN e /\ e.dp = "up4"
  THEN [AllOK EXCEPT !.status = (e.status = 201), !.once = (e.extraHeaders = 0), !.programmed = (e.cmds = 1 /\ Up4OK(e))]
  ELSE [AllOK EXCEPT !.status = (e.status = 201), !.once = (e.extraHeaders = 0),
                     !.programmed = (e.cmds = 2 /\ DirOK(e.up, e.ul, e.unit, e.ulBurst) /\ DirOK(e.down, e.dl, e.unit, e.dlBurst))]

Init == l = 1 /\ ok = AllOK /\ InitHw
Next == /\ l <= Len(Trace) /\ Trace[l].op = "http"
        /\ ok' = Check(Trace[l])
        /\ l' = l + 1 /\ BumpHw(l + 1)
Spec == Init /\ [][Next]_vars

C19_StatusAsSpecified == ok.status
C19_SingleResponse == ok.once
C19_RejectedLeavesDatapathUntouched == ok.untouched
C19_ProgramsWhatWasPosted == ok.programmed
Alias == [l |-> l, ok |-> ok]
=============================================================================

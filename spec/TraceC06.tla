------------------------------ MODULE TraceC06 ------------------------------
(***************************************************************************)
(* Trace validation for C06 (library level): every call of the real        *)
(* IPPool (NewIPPool, LookupOrAllocIP, DeallocIP) with its result, from    *)
(* sequential drivers and from concurrent goroutines.                      *)
(*                                                                         *)
(* A sequential call is one step.  A concurrent call is logged as an       *)
(* invocation line (annotated by the worker with the result the call       *)
(* eventually returned) and a response line; its effect takes place at a   *)
(* silent linearisation step Lin(g) somewhere between the two.  The trace  *)
(* is accepted iff SOME placement of the linearisation points makes every  *)
(* result legal for the set-based allocator - sound for any locking scheme.*)
(*                                                                         *)
(*  {"op":"new","net":V32,"len":n,"ok":b}           new pool (resets the state)   *)
(*  {"op":"call","fn":"alloc"|"free","s":tok,"ok":b,"ip":V32}     sequential call *)
(*  {"op":"inv","g":k,"fn":..,"s":tok,"ok":b,"ip":V32}  /  {"op":"res","g":k}      *)
(***************************************************************************)
EXTENDS Pfcp, TraceLib

VARIABLES l, pool, held, pend, legal, inrange
vars == <<l, pool, held, pend, legal, inrange>>

NoPool == [net |-> Zero32, len |-> 32]
Held == {held[s] : s \in DOMAIN held}

\* legality of an outcome in the current state (R-level, Pfcp!IpAllocLegal etc.)
CallLegal(c) ==
  IF c.fn = "alloc"
  THEN IF c.ok THEN IpAllocLegal(held, c.s, c.ip, pool) ELSE IpRefusalLegal(held, c.s, pool)
  ELSE c.ok <=> c.s \in DOMAIN held
Effect(c) ==
  IF c.fn = "alloc" /\ c.ok THEN Override(held, [x \in {c.s} |-> c.ip])
  ELSE IF c.fn = "free" /\ c.ok THEN Without(held, {c.s})
  ELSE held

\* every address handed out lies in the pool and is neither its network nor its broadcast address
HandedOutOK(c) == (c.fn = "alloc" /\ c.ok) => Usable(c.ip, pool)

Init == l = 1 /\ pool = NoPool /\ held = EmptyFn /\ pend = EmptyFn /\ legal = TRUE /\ inrange = TRUE /\ InitHw

NewEv ==
  LET e == Trace[l] IN
  /\ e.op = "new"
  /\ pool' = IF e.ok THEN [net |-> e.net, len |-> e.len] ELSE NoPool
  /\ held' = EmptyFn /\ pend' = EmptyFn
  \* a pool from /30 upward must be created
  /\ legal' = (e.len <= 30 => e.ok) /\ inrange' = TRUE
  /\ l' = l + 1 /\ BumpHw(l + 1)

CallEv ==
  LET e == Trace[l] IN
  /\ e.op = "call"
  /\ legal' = CallLegal(e) /\ inrange' = HandedOutOK(e)
  /\ held' = Effect(e)
  /\ UNCHANGED <<pool, pend>>
  /\ l' = l + 1 /\ BumpHw(l + 1)

InvEv ==
  LET e == Trace[l] IN
  /\ e.op = "inv" /\ e.g \notin DOMAIN pend
  /\ pend' = Override(pend, [x \in {e.g} |-> [fn |-> e.fn, s |-> e.s, ok |-> e.ok, ip |-> e.ip, done |-> FALSE]])
  /\ UNCHANGED <<pool, held, legal, inrange>>
  /\ l' = l + 1 /\ BumpHw(l + 1)

\* silent: the pending call of goroutine g takes effect now (enabled only if its logged result is legal now)
Lin(g) ==
  /\ g \in DOMAIN pend /\ ~pend[g].done
  /\ CallLegal(pend[g])
  /\ held' = Effect(pend[g])
  /\ pend' = [pend EXCEPT ![g].done = TRUE]
  /\ inrange' = HandedOutOK(pend[g])
  /\ UNCHANGED <<l, pool, legal>>

ResEv ==
  LET e == Trace[l] IN
  /\ e.op = "res" /\ e.g \in DOMAIN pend /\ pend[e.g].done
  /\ pend' = Without(pend, {e.g})
  /\ UNCHANGED <<pool, held, legal, inrange>>
  /\ l' = l + 1 /\ BumpHw(l + 1)

Next == \/ l <= Len(Trace) /\ (NewEv \/ CallEv \/ InvEv \/ ResEv)
        \/ \E g \in DOMAIN pend : Lin(g)
Spec == Init /\ [][Next]_vars

\* C06 invariants
C06_ResultLegalForSetAllocator == legal       \* in range, not network/broadcast, sticky, refusal only when full, release frees exactly one
C06_Exclusive == Cardinality(Held) = Cardinality(DOMAIN held)     \* no address held by two sessions
C06_InRangeNotNetNotBroadcast == inrange

Alias == [l |-> l, legal |-> legal, inrange |-> inrange, held |-> held, pend |-> pend]
=============================================================================

----------------------------- MODULE RefCounted -----------------------------
(***************************************************************************)
(* As-coded model (I-model) of the reference-counted, ID-carrying shared   *)
(* objects of the UP4 plug-in - GTP tunnel peers and applications - after  *)
(* the repairs recorded in known_findings.json (C04 / C15): one switch     *)
(* entry and one ID from a FIFO pool per distinct key, a set of users per  *)
(* object, every switch write may fail.  Requests are serialised (the      *)
(* plug-in's request lock), so one request is one atomic step whose        *)
(* outcome depends on which of its writes fail.                            *)
(*                                                                         *)
(*   Acquire(u, k): up4.go addOrUpdateGTPTunnelPeer /                      *)
(*                  addInternalApplicationIDAndGetP4rtEntry + the write    *)
(*   Release(u, k): removeGTPTunnelPeer /                                  *)
(*                  removeInternalApplicationIDAndGetP4rtEntry + the       *)
(*                  write + releaseInternalApplicationIfUnused             *)
(*                                                                         *)
(* Checked: the identifier invariants of C15 (an ID the switch uses is not *)
(* free, no ID twice in the pool, no ID for two keys) and that without     *)
(* faults the switch holds an entry iff the object has users (C04).        *)
(* The order "release the ID, then delete the entry" of the original code  *)
(* is kept as ReleaseEarly (off in MCRefCounted.cfg, on in                 *)
(* MCRefCountedOld.cfg, where TLC must find the violation).                *)
(***************************************************************************)
EXTENDS Integers, Sequences, FiniteSets, TLC

CONSTANTS
  \* @type: Set(KEY);
  Key,
  \* @type: Set(USER);
  User,
  \* @type: Int;
  MaxId,
  \* @type: Int;
  MaxFaults,
  \* @type: Bool;
  ReleaseEarly     \* TRUE: the order of the original code (ID back to the pool before the entry is deleted)

VARIABLES
  \* @type: Seq(Int);
  pool,      \* FIFO queue of free IDs
  \* @type: KEY -> { has: Bool, id: Int, users: Set(USER) };
  reg,       \* [Key -> [has: BOOLEAN, id, users: SUBSET User]]   the plug-in's record
  \* @type: KEY -> Int;
  sw,        \* [Key -> 0 (no entry) or the ID of the entry in the switch]
  \* @type: Set(<<USER, KEY>>);
  holds,     \* set of <<user, key>>: what the users (FARs / PDRs of live sessions) believe they hold
  \* @type: Int;
  faults,    \* number of failed writes so far
  \* @type: Bool;
  clean      \* no write has failed so far
vars == <<pool, reg, sw, holds, faults, clean>>

Ids == 1..MaxId
\* @type: (Seq(Int)) => Set(Int);
SeqSet(q) == {q[i] : i \in DOMAIN q}
NoReg == [has |-> FALSE, id |-> 0, users |-> {}]

Init ==
  /\ pool = SubSeq(<<1, 2, 3, 4, 5, 6, 7, 8>>, 1, MaxId)      \* (a sequence also for Apalache's type checker; MaxId <= 8)
  /\ reg = [k \in Key |-> NoReg] /\ sw = [k \in Key |-> 0]
  /\ holds = {} /\ faults = 0 /\ clean = TRUE

\* a write either succeeds or (while the fault budget lasts) fails
Outcome == IF faults < MaxFaults THEN {TRUE, FALSE} ELSE {TRUE}
Fail == faults' = faults + 1 /\ clean' = FALSE

\* user u starts using key k (a request that is accepted iff the write succeeds)
Acquire(u, k) ==
  /\ <<u, k>> \notin holds
  /\ \E ok \in Outcome :
       IF reg[k].has
       THEN \* the object exists: register the user, rewrite the entry (MODIFY)
            IF ok THEN /\ reg' = [reg EXCEPT ![k].users = @ \cup {u}]
                       /\ sw' = [sw EXCEPT ![k] = reg[k].id]
                       /\ holds' = holds \cup {<<u, k>>} /\ UNCHANGED <<pool, faults, clean>>
            ELSE \* the registration added by the failed request is withdrawn (it was new: u did not hold k)
                 /\ UNCHANGED <<reg, sw, holds, pool>> /\ Fail
       ELSE IF pool = <<>> THEN UNCHANGED vars          \* no free ID: refused without a write
       ELSE LET id == Head(pool) IN
            IF ok THEN /\ pool' = Tail(pool)
                       /\ reg' = [reg EXCEPT ![k] = [has |-> TRUE, id |-> id, users |-> {u}]]
                       /\ sw' = [sw EXCEPT ![k] = id]
                       /\ holds' = holds \cup {<<u, k>>} /\ UNCHANGED <<faults, clean>>
            ELSE \* the ID was not registered yet: it goes straight back to the pool (at the end of the queue)
                 /\ pool' = Append(Tail(pool), id)
                 /\ UNCHANGED <<reg, sw, holds>> /\ Fail

\* user u stops using key k (the request is accepted iff the delete, if one is needed, succeeds)
Release(u, k) ==
  /\ <<u, k>> \in holds
  /\ reg[k].has
  /\ LET left == reg[k].users \ {u} IN
     IF left # {}
     THEN /\ reg' = [reg EXCEPT ![k].users = left] /\ holds' = holds \ {<<u, k>>}
          /\ UNCHANGED <<pool, sw, faults, clean>>
     ELSE \E ok \in Outcome :
            IF ReleaseEarly
            THEN \* original order: unregister and free the ID, then try to delete the entry
                 /\ reg' = [reg EXCEPT ![k] = NoReg] /\ pool' = Append(pool, reg[k].id)
                 /\ holds' = holds \ {<<u, k>>}
                 /\ IF ok THEN sw' = [sw EXCEPT ![k] = 0] /\ UNCHANGED <<faults, clean>>
                    ELSE UNCHANGED sw /\ Fail
            ELSE IF ok
            THEN \* the entry is gone: now the ID is free
                 /\ sw' = [sw EXCEPT ![k] = 0]
                 /\ reg' = [reg EXCEPT ![k] = NoReg] /\ pool' = Append(pool, reg[k].id)
                 /\ holds' = holds \ {<<u, k>>} /\ UNCHANGED <<faults, clean>>
            ELSE \* the request is rejected: the user stays registered (restoreInternalApplicationUser) and keeps the object
                 /\ UNCHANGED <<reg, sw, pool, holds>> /\ Fail

Next == \E u \in User, k \in Key : Acquire(u, k) \/ Release(u, k)
Spec == Init /\ [][Next]_vars

----------------------------------------------------------------------------
TypeOK ==
  /\ SeqSet(pool) \subseteq Ids
  /\ \A k \in Key : reg[k].has => reg[k].id \in Ids
  /\ \A k \in Key : sw[k] \in Ids \cup {0}

\* C15: an ID that an entry of the switch uses is not free
NotFreeWhileInUse == \A k \in Key : sw[k] # 0 => sw[k] \notin SeqSet(pool)
\* C15: no ID twice in the pool, no ID registered for a key and free at the same time
NoIdTwice ==
  /\ \A i, j \in DOMAIN pool : i # j => pool[i] # pool[j]
  /\ \A k \in Key : reg[k].has => reg[k].id \notin SeqSet(pool)
\* C15: an ID denotes one key, in the record and in the switch
OneKeyPerId ==
  /\ \A k1, k2 \in Key : (k1 # k2 /\ reg[k1].has /\ reg[k2].has) => reg[k1].id # reg[k2].id
  /\ \A k1, k2 \in Key : (k1 # k2 /\ sw[k1] # 0 /\ sw[k2] # 0) => sw[k1] # sw[k2]
\* the users' view and the record agree; a user's object has its entry under the recorded ID
HoldersAreUsers == \A k \in Key : reg[k].users = {u \in User : <<u, k>> \in holds}
HeldMeansProgrammed == \A k \in Key : reg[k].users # {} => sw[k] = reg[k].id
\* C04 (no faults): an entry is present iff the object has users, and no ID is lost
CleanImage == clean => /\ \A k \in Key : (sw[k] # 0) = (reg[k].users # {})
                       /\ Cardinality(SeqSet(pool)) + Cardinality({k \in Key : reg[k].has}) = MaxId
=============================================================================

SPECIFICATION Spec
CONSTANTS KnownDevs = {}
INVARIANTS
  InEnvelope
  C10_StopCompletesWithoutPanic
  C10_StopInBoundedTime
  C10_EachSessionRemovedExactlyOnce
  C02_ExactlyOneResponse
  C02_ResponseTypeMatches
  C02_FseidAddressesSession
  C03_TablesAreImage
  C05_NoDatapathResidue
POSTCONDITION TraceAccepted
ALIAS Alias
CHECK_DEADLOCK FALSE

------------------------------ MODULE Lifecycle ------------------------------
(***************************************************************************)
(* Life-cycle of the PFCP node and its associations, AS CODED (I-model)    *)
(* after the repairs of this round (idempotent Shutdown through sync.Once, *)
(* the node waits for one completion per registered connection before it   *)
(* closes the datapath, the connection is registered before its first      *)
(* message is handled).  One step per point where a goroutine can be       *)
(* interleaved with another one:                                           *)
(*   conn Serve      select {connTimeout, ctx.Done, shutdown}              *)
(*   conn reader     Read / HandlePFCPMsg (Association Release -> Shutdown)*)
(*   heartbeat       tick, wait for response, budget exhausted -> Shutdown *)
(*   Shutdown        close(shutdown); cancel heartbeat; snapshot of the    *)
(*                   store; one step per session delete; send on pConnDone;*)
(*                   close socket          (six kinds of sub-steps)        *)
(*   node Serve      loop; on ctx: wait loop over pConnDone; upf.Exit      *)
(* Go semantics: close of a closed channel and send on a closed channel    *)
(* panic; a goroutine blocked in select commits to the event that woke it. *)
(* Properties (C10): NoPanic, each session deleted at most once and never  *)
(* against a closed datapath, no hang of the node, Stop terminates.        *)
(* The check C10 forces counterexample-shaped schedules of the earlier     *)
(* design (second Shutdown after the first completed, node giving up       *)
(* early) on the real agent through the scheduling gates.                  *)
(***************************************************************************)
EXTENDS Naturals, Sequences, FiniteSets, TLC
CONSTANTS Conns, Sess, K, OwnerOf   \* OwnerOf: Sess -> Conns; K: capacity of pConnDone

VARIABLES ctx, shut, done, pconns, sock, hbDone, store, dpOpen, dels, failed, panicked,
          pcS, pcR, pcH, pcN, sd, tmo, inbox, wake, once
vars == <<ctx, shut, done, pconns, sock, hbDone, store, dpOpen, dels, failed, panicked,
          pcS, pcR, pcH, pcN, sd, tmo, inbox, wake, once>>

G == {<<"S", c>> : c \in Conns} \cup {<<"R", c>> : c \in Conns} \cup {<<"H", c>> : c \in Conns}
NoSD == [c |-> "-", step |-> "none", todo |-> {}]

Init == /\ ctx = FALSE /\ shut = [c \in Conns |-> "open"] /\ done = <<>>
        /\ pconns = Conns /\ sock = [c \in Conns |-> "open"] /\ hbDone = [c \in Conns |-> FALSE]
        /\ store = [c \in Conns |-> {s \in Sess : OwnerOf[s] = c}]
        /\ dpOpen = TRUE /\ dels = [s \in Sess |-> 0] /\ failed = [s \in Sess |-> 0]
        /\ panicked = FALSE
        /\ pcS = [c \in Conns |-> "wait"] /\ pcR = [c \in Conns |-> "read"] /\ pcH = [c \in Conns |-> "idle"]
        /\ pcN = "loop" /\ sd = [g \in G |-> NoSD] /\ tmo = [c \in Conns |-> FALSE]
        /\ inbox = [c \in Conns |-> "none"] /\ wake = [c \in Conns |-> "none"]
        /\ once = [c \in Conns |-> "no"]

Wake(c, ev) == wake' = [wake EXCEPT ![c] = IF @ = "none" THEN ev ELSE @]
InSD(g) == sd[g].step # "none"
\* Shutdown() = once.Do(doShutdown): the first caller runs it, later callers wait until it has completed
BeginSD(g, c) ==
  IF once[c] = "no"
  THEN sd' = [sd EXCEPT ![g] = [c |-> c, step |-> "close", todo |-> {}]] /\ once' = [once EXCEPT ![c] = "running"]
  ELSE sd' = [sd EXCEPT ![g] = [c |-> c, step |-> "waitonce", todo |-> {}]] /\ UNCHANGED once

SDStep(g) ==
  LET c == sd[g].c IN
  /\ InSD(g) /\ ~panicked
  /\ \/ /\ sd[g].step = "waitonce" /\ once[c] = "done"
        /\ sd' = [sd EXCEPT ![g] = NoSD]
        /\ UNCHANGED <<shut, panicked, hbDone, store, dels, failed, done, sock, wake, once>>
     \/ /\ sd[g].step = "close"
        /\ IF shut[c] = "closed" THEN panicked' = TRUE /\ UNCHANGED <<shut, sd>>
           ELSE /\ shut' = [shut EXCEPT ![c] = "closed"] /\ UNCHANGED panicked
                /\ sd' = [sd EXCEPT ![g].step = "hb"]
        /\ (IF shut[c] = "open" THEN Wake(c, "shut") ELSE UNCHANGED wake)
        /\ UNCHANGED <<hbDone, store, dels, failed, done, sock, once>>
     \/ /\ sd[g].step = "hb" /\ UNCHANGED wake
        /\ hbDone' = [hbDone EXCEPT ![c] = TRUE]
        /\ sd' = [sd EXCEPT ![g].step = "sess", ![g].todo = store[c]]   \* GetAllSessions snapshot
        /\ UNCHANGED <<shut, panicked, store, dels, failed, done, sock, once>>
     \/ /\ sd[g].step = "sess" /\ sd[g].todo # {} /\ UNCHANGED wake
        /\ \E s \in sd[g].todo :
             /\ IF dpOpen THEN dels' = [dels EXCEPT ![s] = @ + 1] /\ UNCHANGED failed
                ELSE failed' = [failed EXCEPT ![s] = @ + 1] /\ UNCHANGED dels
             /\ store' = [store EXCEPT ![c] = @ \ {s}]
             /\ sd' = [sd EXCEPT ![g].todo = @ \ {s}]
        /\ UNCHANGED <<shut, panicked, hbDone, done, sock, once>>
     \/ /\ sd[g].step = "sess" /\ sd[g].todo = {} /\ UNCHANGED wake
        /\ sd' = [sd EXCEPT ![g].step = "send"]
        /\ UNCHANGED <<shut, panicked, hbDone, store, dels, failed, done, sock, once>>
     \/ /\ sd[g].step = "send" /\ UNCHANGED wake
        /\ Len(done) < K                      \* blocks while the channel is full (it is never closed)
        /\ done' = Append(done, c)
        /\ sd' = [sd EXCEPT ![g].step = "sockclose"]
        /\ UNCHANGED <<shut, panicked, hbDone, store, dels, failed, sock, once>>
     \/ /\ sd[g].step = "sockclose" /\ UNCHANGED wake
        /\ sock' = [sock EXCEPT ![c] = "closed"]
        /\ sd' = [sd EXCEPT ![g] = NoSD]
        /\ once' = [once EXCEPT ![c] = "done"]
        /\ UNCHANGED <<shut, panicked, hbDone, store, dels, failed, done>>

ServeStep(c) == LET g == <<"S", c>> IN
  /\ ~panicked /\ ~InSD(g)
  /\ \/ /\ pcS[c] = "wait" /\ wake[c] = "tmo" /\ tmo' = [tmo EXCEPT ![c] = FALSE]
        /\ BeginSD(g, c) /\ pcS' = [pcS EXCEPT ![c] = "afterSD"]
     \/ /\ pcS[c] = "wait" /\ wake[c] = "ctx" /\ BeginSD(g, c) /\ pcS' = [pcS EXCEPT ![c] = "afterSD"] /\ UNCHANGED tmo
     \/ /\ pcS[c] = "wait" /\ wake[c] = "shut" /\ pcS' = [pcS EXCEPT ![c] = "exit"] /\ UNCHANGED <<sd, tmo, once>>
     \/ /\ pcS[c] = "afterSD" /\ pcS' = [pcS EXCEPT ![c] = "exit"] /\ UNCHANGED <<sd, tmo, once>>
  /\ UNCHANGED <<ctx, shut, done, pconns, sock, hbDone, store, dpOpen, dels, failed, panicked, pcR, pcH, pcN, inbox, wake>>

ReaderStep(c) == LET g == <<"R", c>> IN
  /\ ~panicked /\ ~InSD(g)
  /\ \/ /\ pcR[c] = "read" /\ sock[c] = "closed" /\ pcR' = [pcR EXCEPT ![c] = "exit"] /\ UNCHANGED <<sd, tmo, inbox, wake, once>>
     \/ /\ pcR[c] = "read" /\ sock[c] = "open" /\ inbox[c] = "release"
        /\ inbox' = [inbox EXCEPT ![c] = "none"] /\ BeginSD(g, c) /\ pcR' = [pcR EXCEPT ![c] = "read"] /\ UNCHANGED <<tmo, wake>>
     \/ /\ pcR[c] = "read" /\ sock[c] = "open" /\ inbox[c] = "silence"     \* read deadline expired
        /\ inbox' = [inbox EXCEPT ![c] = "none"] /\ tmo' = [tmo EXCEPT ![c] = TRUE]
        /\ pcR' = [pcR EXCEPT ![c] = "exit"] /\ UNCHANGED <<sd, once>> /\ Wake(c, "tmo")
  /\ UNCHANGED <<ctx, shut, done, pconns, sock, hbDone, store, dpOpen, dels, failed, panicked, pcS, pcH, pcN>>

HbStep(c) == LET g == <<"H", c>> IN
  /\ ~panicked /\ ~InSD(g)
  /\ \/ /\ pcH[c] = "idle" /\ hbDone[c] /\ pcH' = [pcH EXCEPT ![c] = "exit"] /\ UNCHANGED <<sd, once>>
     \/ /\ pcH[c] = "idle" /\ ~hbDone[c] /\ pcH' = [pcH EXCEPT ![c] = "waitresp"] /\ UNCHANGED <<sd, once>>   \* tick: request sent
     \/ /\ pcH[c] = "waitresp" /\ shut[c] = "closed" /\ pcH' = [pcH EXCEPT ![c] = "idle"] /\ UNCHANGED <<sd, once>>
     \/ /\ pcH[c] = "waitresp" /\ pcH' = [pcH EXCEPT ![c] = "idle"] /\ UNCHANGED <<sd, once>>                   \* answered
     \/ /\ pcH[c] = "waitresp" /\ BeginSD(g, c) /\ pcH' = [pcH EXCEPT ![c] = "idle"]                            \* budget exhausted
  /\ UNCHANGED <<ctx, shut, done, pconns, sock, hbDone, store, dpOpen, dels, failed, panicked, pcS, pcR, pcN, tmo, inbox, wake>>

NodeStep ==
  /\ ~panicked
  /\ \/ /\ pcN = "loop" /\ Len(done) > 0 /\ pconns' = pconns \ {Head(done)} /\ done' = Tail(done)
        /\ UNCHANGED <<pcN, dpOpen>>
     \/ /\ pcN = "loop" /\ ctx /\ pcN' = "waitconns" /\ UNCHANGED <<pconns, done, dpOpen>>
     \* wait loop: as long as a connection is registered, block on pConnDone
     \/ /\ pcN = "waitconns" /\ pconns # {} /\ Len(done) > 0 /\ pconns' = pconns \ {Head(done)} /\ done' = Tail(done)
        /\ UNCHANGED <<pcN, dpOpen>>
     \/ /\ pcN = "waitconns" /\ pconns = {} /\ pcN' = "exit" /\ UNCHANGED <<pconns, done, dpOpen>>
     \/ /\ pcN = "exit" /\ dpOpen' = FALSE /\ pcN' = "stopped" /\ UNCHANGED <<pconns, done>>
  /\ UNCHANGED <<ctx, shut, sock, hbDone, store, dels, failed, panicked, pcS, pcR, pcH, sd, tmo, inbox, wake, once>>

Env ==
  /\ ~panicked
  /\ \/ /\ ~ctx /\ ctx' = TRUE /\ UNCHANGED inbox
        /\ wake' = [c \in Conns |-> IF wake[c] = "none" THEN "ctx" ELSE wake[c]]
     \/ /\ \E c \in Conns, m \in {"release", "silence"} :
             inbox[c] = "none" /\ sock[c] = "open" /\ pcR[c] = "read" /\ inbox' = [inbox EXCEPT ![c] = m]
        /\ UNCHANGED <<ctx, wake>>
  /\ UNCHANGED <<shut, done, pconns, sock, hbDone, store, dpOpen, dels, failed, panicked, pcS, pcR, pcH, pcN, sd, tmo, once>>

SDAny == \E g \in G : SDStep(g) /\ UNCHANGED <<ctx, pconns, dpOpen, pcS, pcR, pcH, pcN, tmo, inbox>>
Next == SDAny \/ (\E c \in Conns : ServeStep(c) \/ ReaderStep(c) \/ HbStep(c)) \/ NodeStep \/ Env
Fairness == /\ WF_vars(SDAny) /\ WF_vars(NodeStep) /\ \A c \in Conns : WF_vars(ServeStep(c)) /\ WF_vars(ReaderStep(c))
Spec == Init /\ [][Next]_vars
FairSpec == Spec /\ Fairness

NoPanic == ~panicked
DeletedAtMostOnce == \A s \in Sess : dels[s] + failed[s] <= 1
NoDeleteAgainstClosedDatapath == \A s \in Sess : failed[s] = 0
\* when the node has stopped, every session was deleted exactly once and every association is forgotten
StoppedClean == pcN = "stopped" => (\A s \in Sess : dels[s] = 1) /\ pconns = {}
\* Stop terminates (under fairness of the agent's goroutines)
StopTerminates == ctx ~> (pcN = "stopped" \/ panicked)
OwnerOfDef == [s \in Sess |-> CHOOSE c \in Conns : TRUE]
\* two connections with one session each (model values are assigned in order)
OwnerOf2 == CHOOSE f \in [Sess -> Conns] : \A c \in Conns : \E s \in Sess : f[s] = c
=============================================================================

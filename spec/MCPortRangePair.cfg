SPECIFICATION Spec
CONSTANTS
  W = 5
  ExactLimit = 6
INVARIANTS AcceptedPairImpliesExact BothTrueRangesRefused PairOracleSound
CHECK_DEADLOCK FALSE

---------------------------- MODULE RouteControl ----------------------------
(***************************************************************************)
(* BESS route modules mirror the kernel's routes and neighbours (C20).     *)
(* Reference specification: the kernel state (routes on managed            *)
(* interfaces, resolved next hops) and what the module graph must be as a  *)
(* function of it.  The graph is observed (recording pybess stand-in):     *)
(*   routes: set of [mod, prefix, len, gate]   entries of the IPLookup modules *)
(*   mods:   set of [name, mac]                MAC-rewrite (Update) modules    *)
(*   links:  set of [from, ogate, to]                                          *)
(***************************************************************************)
EXTENDS Naturals, Sequences, FiniteSets, TLC

RouteMod(i) == i \o "Routes"
MergeMod(i) == i \o "Merge"

\* kroutes: set of [iface, prefix, len, nh]; macs: [nh -> mac]
Resolved(kroutes, macs) == {r \in kroutes : r.nh \in DOMAIN macs}
ExpectedInstalled(kroutes, macs) == {[mod |-> RouteMod(r.iface), prefix |-> r.prefix, len |-> r.len] : r \in Resolved(kroutes, macs)}
ObservedInstalled(g) == {[mod |-> e.mod, prefix |-> e.prefix, len |-> e.len] : e \in g.routes}

\* a route is installed iff the kernel has it and its next hop's MAC is known
InstalledIffResolved(kroutes, macs, g) == ObservedInstalled(g) = ExpectedInstalled(kroutes, macs)

GateOf(g, r) == (CHOOSE e \in g.routes : e.mod = RouteMod(r.iface) /\ e.prefix = r.prefix /\ e.len = r.len).gate
\* live next hops per interface
LiveHops(kroutes, macs) == {<<r.iface, r.nh>> : r \in Resolved(kroutes, macs)}

\* all routes through one next hop share one gate; that gate leads to one MAC-rewrite module carrying the next hop's
\* MAC, which leads to the interface's merge module
OneGateOneModulePerHop(kroutes, macs, g) ==
  InstalledIffResolved(kroutes, macs, g) =>
    \A h \in LiveHops(kroutes, macs) :
       LET rs == {r \in Resolved(kroutes, macs) : r.iface = h[1] /\ r.nh = h[2]}
           gates == {GateOf(g, r) : r \in rs}
       IN /\ Cardinality(gates) = 1
          /\ \E l \in g.links : /\ l.from = RouteMod(h[1]) /\ l.ogate \in gates
                                /\ \E m \in g.mods : m.name = l.to /\ m.mac = macs[h[2]]
                                /\ \E l2 \in g.links : l2.from = l.to /\ l2.to = MergeMod(h[1])

\* a MAC-rewrite module exists iff at least one installed route uses it
ModuleIffUsed(kroutes, macs, g) ==
  InstalledIffResolved(kroutes, macs, g) =>
    \A m \in g.mods : \E l \in g.links : l.to = m.name /\ \E e \in g.routes : e.mod = l.from /\ e.gate = l.ogate

\* two live next hops never share a gate
GatesInjective(kroutes, macs, g) ==
  InstalledIffResolved(kroutes, macs, g) =>
    \A r1, r2 \in Resolved(kroutes, macs) :
       (r1.iface = r2.iface /\ r1.nh # r2.nh) => GateOf(g, r1) # GateOf(g, r2)
=============================================================================

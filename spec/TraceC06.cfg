SPECIFICATION Spec
INVARIANTS C06_ResultLegalForSetAllocator C06_Exclusive C06_InRangeNotNetNotBroadcast
POSTCONDITION TraceAccepted
ALIAS Alias
CHECK_DEADLOCK FALSE

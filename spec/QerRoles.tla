------------------------------ MODULE QerRoles ------------------------------
(***************************************************************************)
(* As-coded model (I-model) of how a session's QERs get their role on the  *)
(* UP4 datapath (C09 on UP4, C04):                                         *)
(*                                                                         *)
(*   session_qer.go MarkSessionQer   re-run on every establishment and     *)
(*       modification: among the QERs every PDR refers to, without         *)
(*       guaranteed rate, the one with the largest MBR (the later one on a *)
(*       tie) is marked session QER and moved to the end of every PDR's    *)
(*       list; a mark once set is only lost when the QER is updated        *)
(*       (Update QER stores a freshly parsed copy);                        *)
(*   up4.go configureMeters         allocates an application-meter or a    *)
(*       session-meter cell per QER according to its mark at that time;    *)
(*       reconfigureMeters (Update QER) keeps the kind;                    *)
(*   up4.go modifyUP4ForwardingConfiguration  rewrites the entries of all  *)
(*       PDRs on every modification: the first QER of the list is the      *)
(*       application QER (its meter, gate, QFI), the second the session    *)
(*       QER - after fix b116398 with the two swapped back when their      *)
(*       meters say so (qerIDsByRole); gates and QFI were those of the     *)
(*       first QER only, after fix 9209b4c of every QER of the list.       *)
(*                                                                         *)
(* One PDR pair per flow (both directions carry the same list).  Checked:  *)
(* every QER a PDR refers to is enforced by a cell its entries name, and   *)
(* gate / QFI of every QER are honoured.  RoleByPosition = TRUE and          *)
(* GateFromFirstOnly = TRUE are the code before the fixes (negative        *)
(* controls: TLC must find the violations).                                *)
(* The operations are those of spec/Up4QosScript.tla, whose behaviours are *)
(* replayed into the real agent.                                           *)
(***************************************************************************)
EXTENDS Naturals, Sequences, FiniteSets, TLC

CONSTANTS Rates,             \* the MBR values (only their order matters)
          RoleByPosition,    \* TRUE: roles by list position only (the code before fix b116398)
          GateFromFirstOnly  \* TRUE: gate and QFI of the first QER of the list only (the code before fix 9209b4c)

Flows == {"f1", "f2"}
OwnQer == [f1 |-> "q1", f2 |-> "q2"]          \* the QER of a flow
QerIds == {"q1", "q2", "s"}                   \* s: the QER every PDR of the session refers to
None == "none"

VARIABLES
  live,     \* the session exists
  pdrs,     \* the flows in stored order
  qlist,    \* [Flows -> Seq(QerIds)]: the QER list of the flow's PDRs in its current order
  qers,     \* the stored QERs in stored order: [id, mbr, gbr, sess]
  meter,    \* [QerIds -> {"none", "app", "sess"}]: kind of the meter cell(s) allocated for the QER
  ent       \* [Flows -> [app, sess, gate]]: the QER whose cell the flow's entries name as application / session meter, the QERs whose gates and QFI they honour
vars == <<live, pdrs, qlist, qers, meter, ent>>

SeqSet(s) == {s[i] : i \in DOMAIN s}
NoEnt == [app |-> None, sess |-> None, gate |-> {}]
Empty == [f \in Flows |-> <<>>]

Init ==
  /\ live = FALSE /\ pdrs = <<>> /\ qlist = Empty /\ qers = <<>>
  /\ meter = [q \in QerIds |-> "none"] /\ ent = [f \in Flows |-> NoEnt]

----------------------------------------------------------------------------
(* MarkSessionQer as coded: returns <<qers', qlist'>> *)
MoveLast(l, q) == IF q \in SeqSet(l) THEN SelectSeq(l, LAMBDA x : x # q) \o <<q>> ELSE l
Common(ps, ql) == {q \in SeqSet(ql[ps[Len(ps)]]) : \A i \in DOMAIN ps : q \in SeqSet(ql[ps[i]])}
Mark(ps, ql, qs) ==
  IF Len(ps) = 0 \/ Len(ql[ps[Len(ps)]]) < 1 \/ Len(qs) < 2 \/ Common(ps, ql) = {} THEN <<qs, ql>>
  ELSE LET cand == {i \in DOMAIN qs : qs[i].id \in Common(ps, ql) /\ ~qs[i].gbr} IN
       IF cand = {} THEN <<qs, ql>>
       ELSE LET best == {i \in cand : \A j \in cand : qs[j].mbr <= qs[i].mbr}
                w == CHOOSE i \in best : \A j \in best : j <= i           \* ">=": the later one wins a tie
            IN <<[qs EXCEPT ![w].sess = TRUE], [f \in Flows |-> MoveLast(ql[f], qs[w].id)]>>

(* the entries of a PDR as modifyUP4ForwardingConfiguration builds them from the list l and the meters m *)
ByRole(l, m) == IF ~RoleByPosition /\ Len(l) = 2 /\ m[l[1]] = "sess" /\ m[l[2]] = "app" THEN <<l[2], l[1]>> ELSE l
EntOf(l, m) ==
  LET r == ByRole(l, m) IN
  [app  |-> IF Len(r) >= 1 /\ m[r[1]] = "app" THEN r[1] ELSE None,
   sess |-> IF Len(r) = 2 /\ m[r[2]] = "sess" THEN r[2] ELSE IF Len(r) = 1 /\ m[r[1]] = "sess" THEN r[1] ELSE None,
   gate |-> IF GateFromFirstOnly THEN (IF Len(r) >= 1 THEN {r[1]} ELSE {}) ELSE SeqSet(r)]
Written(ps, ql, m) == [f \in Flows |-> IF f \in SeqSet(ps) THEN EntOf(ql[f], m) ELSE NoEnt]

----------------------------------------------------------------------------
(* the establishment: 1 or 2 flows, each with its own QER or without, with or without the common QER s;  *)
(* the control plane is free in the order of a PDR's list and of the Create QER IEs                      *)
Perms(S) == {p \in [1..Cardinality(S) -> S] : \A i, j \in 1..Cardinality(S) : i # j => p[i] # p[j]}
Establish ==
  /\ ~live
  /\ \E n \in 1..2, own \in SUBSET Flows, hasS \in BOOLEAN :
       LET ps == IF n = 1 THEN <<"f1">> ELSE <<"f1", "f2">>
           ids == {OwnQer[f] : f \in own \cap SeqSet(ps)} \cup (IF hasS THEN {"s"} ELSE {}) IN
       /\ ids # {}
       /\ \E order \in Perms(ids), sFirst \in BOOLEAN,
             mbr \in [ids -> Rates], gbr \in [ids -> BOOLEAN] :
            /\ hasS => ~gbr["s"]
            /\ LET ql == [f \in Flows |->
                           IF f \notin SeqSet(ps) THEN <<>>
                           ELSE LET o == IF f \in own THEN <<OwnQer[f]>> ELSE <<>>
                                    c == IF hasS THEN <<"s">> ELSE <<>> IN
                                IF sFirst THEN c \o o ELSE o \o c]
                   qs == [i \in DOMAIN order |-> [id |-> order[i], mbr |-> mbr[order[i]], gbr |-> gbr[order[i]], sess |-> FALSE]]
                   mk == Mark(ps, ql, qs)
                   m  == [q \in QerIds |-> IF \E i \in DOMAIN mk[1] : mk[1][i].id = q /\ mk[1][i].sess THEN "sess"
                                            ELSE IF q \in ids THEN "app" ELSE "none"] IN
               /\ live' = TRUE /\ pdrs' = ps /\ qers' = mk[1] /\ qlist' = mk[2] /\ meter' = m
               /\ ent' = Written(ps, mk[2], m)

(* Update QER: the stored QER is replaced by a freshly parsed one (its mark is gone), the session QER is marked *)
(* anew, the meter keeps its kind, the entries of all PDRs are rewritten                                        *)
UpdateQer ==
  /\ live
  /\ \E i \in DOMAIN qers, r \in Rates, g \in BOOLEAN :
       /\ qers[i].id = "s" => ~g
       /\ LET qs == [qers EXCEPT ![i] = [id |-> qers[i].id, mbr |-> r, gbr |-> g, sess |-> FALSE]]
              mk == Mark(pdrs, qlist, qs) IN
          /\ qers' = mk[1] /\ qlist' = mk[2] /\ ent' = Written(pdrs, mk[2], meter)
          /\ UNCHANGED <<live, pdrs, meter>>

(* a flow (never the first) is removed together with its QER: marking and rewriting happen first, on all rules *)
RemoveFlow ==
  /\ live /\ Len(pdrs) = 2
  /\ LET mk == Mark(pdrs, qlist, qers)
         f == pdrs[2]
         w == Written(pdrs, mk[2], meter) IN
     /\ pdrs' = <<pdrs[1]>>
     /\ qers' = SelectSeq(mk[1], LAMBDA x : x.id # OwnQer[f])
     /\ qlist' = [mk[2] EXCEPT ![f] = <<>>]
     /\ meter' = [meter EXCEPT ![OwnQer[f]] = "none"]
     /\ ent' = [w EXCEPT ![f] = NoEnt]
     /\ UNCHANGED live

Delete ==
  /\ live
  /\ live' = FALSE /\ pdrs' = <<>> /\ qlist' = Empty /\ qers' = <<>>
  /\ meter' = [q \in QerIds |-> "none"] /\ ent' = [f \in Flows |-> NoEnt]

Next == Establish \/ UpdateQer \/ RemoveFlow \/ Delete
Spec == Init /\ [][Next]_vars

----------------------------------------------------------------------------
TypeOK ==
  /\ SeqSet(pdrs) \subseteq Flows
  /\ \A f \in Flows : SeqSet(qlist[f]) \subseteq QerIds
  /\ \A q \in QerIds : (meter[q] # "none") = (\E i \in DOMAIN qers : qers[i].id = q)
\* every QER a PDR refers to is enforced by a cell the PDR's entries name (Up4Image!PeakRatesOK)
C09_EveryQerEnforced ==
  \A f \in SeqSet(pdrs) : \A q \in SeqSet(qlist[f]) : ent[f].app = q \/ ent[f].sess = q
\* QFI and traffic class of a flow that has its own QER come from that QER (Up4Image!TermOK)
C09_QfiFromOwnQer ==
  \A f \in SeqSet(pdrs) : OwnQer[f] \in SeqSet(qlist[f]) => OwnQer[f] \in ent[f].gate
\* a gate closed by any QER of the PDR is closed (Up4Image!GateClosed)
C09_EveryGateHonoured ==
  \A f \in SeqSet(pdrs) : SeqSet(qlist[f]) \subseteq ent[f].gate
\* a cell is named in the role of its kind only
C04_CellsInTheirRole ==
  \A f \in SeqSet(pdrs) : (ent[f].app # None => meter[ent[f].app] = "app") /\ (ent[f].sess # None => meter[ent[f].sess] = "sess")
=============================================================================

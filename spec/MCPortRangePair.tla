-------------------------- MODULE MCPortRangePair --------------------------
(* Cartesian product of two port ranges (I-level) against ExactCoverPair, over boundary classes. *)
EXTENDS PortRange
VARIABLES slo, shi, dlo, dhi, stage
vars == <<slo, shi, dlo, dhi, stage>>
B == {0, 1, 2, 3, Limit \div 2, (Limit \div 2) + 1, Limit - 2, Limit - 1, Limit, ExactLimit - 1, ExactLimit, ExactLimit + 1} \cap (0..Limit)
Init == slo = 0 /\ shi = 0 /\ dlo = 0 /\ dhi = 0 /\ stage = 0
Next == \/ stage = 0 /\ slo' \in B /\ shi' \in B /\ slo' <= shi' /\ stage' = 1 /\ UNCHANGED <<dlo, dhi>>
        \/ stage = 1 /\ dlo' \in B /\ dhi' \in B /\ dlo' <= dhi' /\ stage' = 2 /\ UNCHANGED <<slo, shi>>
Spec == Init /\ [][Next]_vars
AcceptedPairImpliesExact == stage = 2 => ProductOk(slo, shi, dlo, dhi, ProductI(slo, shi, dlo, dhi))
BothTrueRangesRefused == (stage = 2 /\ IsRange(slo, shi) /\ IsRange(dlo, dhi)) => ~ProductI(slo, shi, dlo, dhi).ok
\* oracle validation on the pair predicate (naive enumeration of the rectangle)
NaivePairCover(rules) == {<<p, q>> \in (0..Limit) \X (0..Limit) :
                            \E i \in 1..Len(rules) : RuleMatches(SrcPart(rules[i]), p) /\ RuleMatches(DstPart(rules[i]), q)}
NaivePairExact(rules, a, b, c, d) ==
  /\ NaivePairCover(rules) = (a..b) \X (c..d)
  /\ \A i, j \in 1..Len(rules) : i < j => ~PairOverlap(rules[i], rules[j])
PairOracleSound == stage = 2 =>
  LET r == ProductI(slo, shi, dlo, dhi) IN
  r.ok => /\ NaivePairExact(r.rules, EffLo(slo, shi), EffHi(slo, shi), EffLo(dlo, dhi), EffHi(dlo, dhi))
          /\ \A i \in 1..Len(r.rules) :   \* dropping any rule must be detected
               ~ExactCoverPair(SubSeq(r.rules, 1, i - 1) \o SubSeq(r.rules, i + 1, Len(r.rules)),
                               EffLo(slo, shi), EffHi(slo, shi), EffLo(dlo, dhi), EffHi(dlo, dhi))
=============================================================================

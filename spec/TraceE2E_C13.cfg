SPECIFICATION Spec
CONSTANTS KnownDevs = {}
INVARIANTS
  C13_ReportForwardedWhenDue
  C13_NoneForUnknownOrSilentSessions
  C13_AtMostOncePerInterval
  C13_ReportRequestShape
  InEnvelope
POSTCONDITION TraceAccepted
ALIAS Alias
CHECK_DEADLOCK FALSE

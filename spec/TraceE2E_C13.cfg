SPECIFICATION Spec
CONSTANTS KnownDevs = {}
INVARIANTS
  InEnvelope
  C13_ReportForwardedWhenDue
  C13_NoneForUnknownOrSilentSessions
  C13_AtMostOncePerInterval
  C13_ReportRequestShape
POSTCONDITION TraceAccepted
ALIAS Alias
CHECK_DEADLOCK FALSE

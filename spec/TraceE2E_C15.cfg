SPECIFICATION Spec
CONSTANTS KnownDevs = {}
INVARIANTS
  InEnvelope
  Up4Envelope
  C15_CounterCellsExclusive
  C15_MeterCellsExclusive
  C15_NotFreeWhileInUse
  C15_NoIdTwiceInPool
  C15_MeterCellsStayInOwnPool
  C15_PeerIdsInUseStayAllocated
  C15_CellsOfStoredRulesStayAllocated
  C15_FailedWriteMeansRejection
POSTCONDITION TraceAccepted
ALIAS AliasC15
CHECK_DEADLOCK FALSE

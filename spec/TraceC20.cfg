SPECIFICATION Spec
INVARIANTS C20_InstalledIffKernelHasItAndResolved C20_OneGateOneModulePerNextHop C20_RewriteModuleExistsIffUsed C20_LiveNextHopsNeverShareAGate
POSTCONDITION TraceAccepted
ALIAS Alias
CHECK_DEADLOCK FALSE

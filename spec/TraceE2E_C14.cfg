SPECIFICATION Spec
CONSTANTS KnownDevs = {}
INVARIANTS
  C14_EndMarkersToOldTunnelOnce
  InEnvelope
POSTCONDITION TraceAccepted
ALIAS Alias
CHECK_DEADLOCK FALSE

SPECIFICATION Spec
CONSTANTS KnownDevs = {}
INVARIANTS
  InEnvelope
  C14_EndMarkersToOldTunnelOnce
POSTCONDITION TraceAccepted
ALIAS Alias
CHECK_DEADLOCK FALSE

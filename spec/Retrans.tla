------------------------------- MODULE Retrans -------------------------------
(***************************************************************************)
(* Retransmission contract of agent-originated requests (C12).             *)
(* R-level: a request is transmitted at most 1 + N times with one sequence *)
(* number, a new transmission only after the response time-out expired     *)
(* unanswered; the first response with that sequence number stops it; the  *)
(* peer is declared dead only after every transmission went unanswered;    *)
(* responses that are late, duplicated or carry another sequence number    *)
(* are inert.  The model below is the loop as coded in messages.go         *)
(* (sendPFCPRequestMessage) with an adversarial peer; MCRetrans checks the *)
(* contract on it for small N.                                             *)
(***************************************************************************)
EXTENDS Naturals, Sequences, FiniteSets, TLC
CONSTANTS N          \* max_req_retries

VARIABLES tx,        \* number of transmissions so far
          state,     \* "waiting" | "answered" | "dead"
          inflight,  \* responses on the wire: set of [seqOk: BOOLEAN, id]
          answers,   \* how many answers the peer has produced (bounds the model)
          stray      \* responses delivered after the request completed (late / duplicate)
rvars == <<tx, state, inflight, answers, stray>>

RInit == tx = 1 /\ state = "waiting" /\ inflight = {} /\ answers = 0 /\ stray = 0

\* the peer may answer any transmission it has seen, correctly or with a wrong sequence number, also twice
PeerAnswers == /\ answers < N + 3
               /\ \E ok \in BOOLEAN : inflight' = inflight \cup {[seqOk |-> ok, id |-> answers]}
               /\ answers' = answers + 1 /\ UNCHANGED <<tx, state, stray>>
\* a response arrives
Deliver == \E r \in inflight :
             /\ inflight' = inflight \ {r}
             /\ IF state = "waiting" /\ r.seqOk
                THEN state' = "answered" /\ UNCHANGED <<tx, stray>>
                ELSE IF state # "waiting" THEN stray' = stray + 1 /\ UNCHANGED <<tx, state>>
                ELSE UNCHANGED <<tx, state, stray>>          \* wrong sequence number: inert
             /\ UNCHANGED answers
\* the response time-out expires
Timeout == /\ state = "waiting"
           /\ IF tx <= N THEN tx' = tx + 1 /\ UNCHANGED state ELSE state' = "dead" /\ UNCHANGED tx
           /\ UNCHANGED <<inflight, answers, stray>>
RNext == PeerAnswers \/ Deliver \/ Timeout
RSpec == RInit /\ [][RNext]_rvars

AtMostOnePlusN == tx <= N + 1
DeadOnlyAfterAllTransmissions == state = "dead" => tx = N + 1
AnsweredStops == [][state = "answered" => tx' = tx /\ state' = "answered"]_rvars
DeadIsFinal == [][state = "dead" => tx' = tx /\ state' = "dead"]_rvars
=============================================================================

------------------------------ MODULE SeidScript ------------------------------
(***************************************************************************)
(* GEN + design check for the UP F-SEID part of C07.                       *)
(*                                                                         *)
(* The association's random source is an input of the agent (C07: "even    *)
(* when the random source repeats itself").  Its output is abstracted to   *)
(* the alphabet                                                            *)
(*    "0"   the value zero                                                 *)
(*    "L1", "L2"  the F-SEIDs of two live sessions of the association      *)
(*    "D"   the F-SEID of a session of the association that was deleted    *)
(*    "F"   a value never seen before                                      *)
(* (The F-SEID of a live session of ANOTHER association is a legal draw by *)
(* the statement - uniqueness is per association - but the agent keys its  *)
(* datapath entries by the bare F-SEID, so two such sessions share entries;*)
(* the reference state is keyed the same way and cannot hold both.  That   *)
(* draw is therefore outside the envelope of the scripts; DESIGN 11.7.)    *)
(* and TLC enumerates every source prefix of at most N draws (the source   *)
(* continues with fresh values after the prefix).  Each prefix is printed  *)
(* as <<"SEQ", prefix>>; the harness (worker e2e-ids, mode seidgen) sets   *)
(* the real source of the association to the concrete values and sends one *)
(* Session Establishment Request; the recorded step is judged by the       *)
(* reference specification (C07_SeidFreshPerAssociation: non-zero and not  *)
(* the F-SEID of a live session of the association - "D" is legal).        *)
(*                                                                         *)
(* Pick is the draw loop as coded (NewPFCPSession: a draw that is zero or  *)
(* live is skipped, at most MaxRetries draws); the invariant says that the *)
(* loop as designed satisfies the reference rule for every prefix - the    *)
(* design-level half; the trace validation is the implementation half.     *)
(***************************************************************************)
EXTENDS Naturals, Sequences, TLC

CONSTANTS N, MaxRetries

Alphabet == {"0", "L1", "L2", "D", "F"}
Live == {"L1", "L2"}

VARIABLE src
Init == src = <<>>
Next == Len(src) < N /\ \E x \in Alphabet : src' = Append(src, x)
Spec == Init /\ [][Next]_src

\* the draw loop as coded: result "refused" when the budget is used up
RECURSIVE Pick(_, _)
Pick(s, i) ==
  IF i > MaxRetries THEN "refused"
  ELSE IF i > Len(s) THEN "F"
  ELSE IF s[i] = "0" \/ s[i] \in Live THEN Pick(s, i + 1)
  ELSE s[i]

\* reference rule (Pfcp!SeidLegal on the abstract alphabet)
Legal(x) == x # "0" /\ x \notin Live
\* refusal is legal only after MaxRetries unusable draws
DesignOK ==
  LET r == Pick(src, 1) IN
  IF r = "refused" THEN Len(src) >= MaxRetries /\ \A i \in 1..MaxRetries : ~Legal(src[i])
  ELSE Legal(r)

Emit == (Len(src) >= 1) => PrintT(<<"SEQ", src>>)
=============================================================================

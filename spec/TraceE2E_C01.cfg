SPECIFICATION Spec
CONSTANTS KnownDevs = {}
INVARIANTS
  InEnvelope
  C01_AtMostOneResponsePerDatagram
  C02_ExactlyOneResponse
  C02_ResponseTypeMatches
  C02_SequenceNumberEchoed
  C02_HeaderSeidAddressing
  C02_EstablishmentResponseShape
  C02_FseidAddressesSession
  C03_TablesAreImage
POSTCONDITION TraceAccepted
ALIAS Alias
CHECK_DEADLOCK FALSE

SPECIFICATION Spec
CONSTANTS KnownDevs = {}
INVARIANTS
  C04_TablesAreImage
  C04_InterfacesThroughout
  InEnvelope
  Up4Envelope
POSTCONDITION TraceAccepted
ALIAS Alias4
CHECK_DEADLOCK FALSE

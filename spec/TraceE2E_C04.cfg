SPECIFICATION Spec
CONSTANTS KnownDevs = {}
INVARIANTS
  InEnvelope
  Up4Envelope
  C04_TablesAreImage
  C04_InterfacesThroughout
POSTCONDITION TraceAccepted
ALIAS Alias4
CHECK_DEADLOCK FALSE

------------------------------ MODULE TraceC18 ------------------------------
(* Trace validation for C18: every call of the real LoadConfigFile with the outcome.                    *)
(*  {"op":"load","doc":{field:class},"ok":b,"facts":{..},"plainOk":b,"sameAsPlain":b}  generated document, *)
(*        loaded with comments inserted (ok, facts) and without (plainOk); sameAsPlain: both results equal  *)
(*  {"op":"bytes","ok":b,"facts":{..}}      arbitrary bytes / adversarial comment forms                    *)
(*  {"op":"sample","file":s,"ok":b}         a configuration file shipped in the repository                 *)
EXTENDS Config, TraceLib
VARIABLES l, ok
vars == <<l, ok>>
AllOK == [validated |-> TRUE, defaults |-> TRUE, comments |-> TRUE, sample |-> TRUE, loads |-> TRUE]

Check(e) ==
  CASE e.op = "load" ->
         [AllOK EXCEPT !.validated = (e.ok => Validated(e.facts)),
                       !.defaults = (e.ok => DefaultsFilled(e.doc, e.facts)),
                       !.comments = (e.ok = e.plainOk /\ (e.ok => e.sameAsPlain))]
    [] e.op = "bytes" -> [AllOK EXCEPT !.validated = (e.ok => Validated(e.facts))]
    [] e.op = "sample" -> [AllOK EXCEPT !.sample = e.ok]

Init == l = 1 /\ ok = AllOK /\ InitHw
Next == /\ l <= Len(Trace) /\ Trace[l].op \in {"load", "bytes", "sample"}
        /\ ok' = Check(Trace[l])
        /\ l' = l + 1 /\ BumpHw(l + 1)
Spec == Init /\ [][Next]_vars

C18_ReturnedConfigurationIsValidated == ok.validated
C18_DefaultsFilledIn == ok.defaults
C18_CommentsNeverAlterValues == ok.comments
C18_ShippedSamplesLoad == ok.sample
Alias == [l |-> l, ok |-> ok]
=============================================================================

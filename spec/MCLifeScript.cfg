SPECIFICATION SSpec
CONSTANTS
  Conns = {c1}
  Sess = {s1, s2}
  K = 2
  OwnerOf <- OwnerOfDef
INVARIANTS NoPanic DeletedAtMostOnce NoDeleteAgainstClosedDatapath StoppedClean
CHECK_DEADLOCK FALSE

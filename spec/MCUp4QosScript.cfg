SPECIFICATION Spec
CONSTANTS N = 3
INVARIANTS Emit
CHECK_DEADLOCK FALSE

SPECIFICATION Spec
CONSTANTS KnownDevs = {}
INVARIANTS
  C16_WritesConformToP4Info
  InEnvelope
POSTCONDITION TraceAccepted
ALIAS AliasC16
CHECK_DEADLOCK FALSE

SPECIFICATION Spec
CONSTANTS KnownDevs = {}
INVARIANTS
  InEnvelope
  C16_WritesConformToP4Info
POSTCONDITION TraceAccepted
ALIAS AliasC16
CHECK_DEADLOCK FALSE

------------------------------ MODULE TraceC17 ------------------------------
(* Trace validation for C17: every call of the real expansion functions (recorded with its      *)
(* arguments and its result by the worker) is judged by the R-level predicates of PortRange on  *)
(* the RETURNED rules.  A different but equally exact expansion passes; an inexact one, a        *)
(* wildcard for a non-full range, or a crash (event "died", consumed by no action) does not.    *)
(*                                                                                               *)
(* line formats                                                                                  *)
(*  {"op":"expand","strategy":"exact"|"ternary","lo":n,"hi":n,"ok":b,"rules":[[port,mask],..]}   *)
(*  {"op":"trivial","lo":n,"hi":n,"ok":b,"rules":[[port,mask]]}                                  *)
(*  {"op":"product","slo":n,"shi":n,"dlo":n,"dhi":n,"ok":b,"rules":[[sp,sm,dp,dm],..]}           *)
(*  {"op":"parse","lo":n,"hi":n,"side":"src"|"dst","ok":b,"rlo":n,"rhi":n,"rules":[]}           *)
(*     the port text "lo-hi" of a flow description as the real parser read it: what reaches the  *)
(*     expansion functions.  An inverted text (lo > hi) denotes no port and must be refused;      *)
(*     an accepted one is read back as written (otherwise the entries built from it are not the  *)
(*     range that was signalled, however exact the expansion).                                   *)
EXTENDS PortRange, TraceLib

VARIABLES l,      \* next line
          exact,  \* result of the exactness check for line l-1
          wild,   \* result of the wildcard check for line l-1
          wf      \* well-formedness of line l-1 (all numbers are W-bit values, lo <= hi)
vars == <<l, exact, wild, wf>>

Rules2(rs) == [i \in 1..Len(rs) |-> [port |-> rs[i][1], mask |-> rs[i][2]]]
Rules4(rs) == [i \in 1..Len(rs) |-> [sp |-> rs[i][1], sm |-> rs[i][2], dp |-> rs[i][3], dm |-> rs[i][4]]]
InW(n) == n \in 0..Limit

ParsedAsWritten(e) == IF e.lo > e.hi THEN ~e.ok ELSE (e.ok => e.rlo = e.lo /\ e.rhi = e.hi)

WellFormed(e) ==
  IF e.op = "parse" THEN InW(e.lo) /\ InW(e.hi) /\ InW(e.rlo) /\ InW(e.rhi)
  ELSE IF e.op = "product"
  THEN /\ InW(e.slo) /\ InW(e.shi) /\ InW(e.dlo) /\ InW(e.dhi) /\ e.slo <= e.shi /\ e.dlo <= e.dhi
       /\ \A i \in 1..Len(e.rules) : \A k \in 1..4 : InW(e.rules[i][k])
  ELSE /\ InW(e.lo) /\ InW(e.hi) /\ e.lo <= e.hi
       /\ \A i \in 1..Len(e.rules) : \A k \in 1..2 : InW(e.rules[i][k])

Exact(e) ==
  IF e.op = "parse" THEN ParsedAsWritten(e) ELSE
  ~e.ok \/
  IF e.op = "product"
  THEN ExactCoverPair(Rules4(e.rules), EffLo(e.slo, e.shi), EffHi(e.slo, e.shi), EffLo(e.dlo, e.dhi), EffHi(e.dlo, e.dhi))
  ELSE ExactCover(Rules2(e.rules), EffLo(e.lo, e.hi), EffHi(e.lo, e.hi))

Wild(e) ==
  ~e.ok \/ e.op = "parse" \/
  IF e.op = "product"
  THEN \A i \in 1..Len(e.rules) : /\ (e.rules[i][2] = 0 => IsFull(e.slo, e.shi))
                                  /\ (e.rules[i][4] = 0 => IsFull(e.dlo, e.dhi))
  ELSE WildcardOnlyForFull(Rules2(e.rules), e.lo, e.hi)

Init == l = 1 /\ exact = TRUE /\ wild = TRUE /\ wf = TRUE /\ InitHw

Call == /\ l <= Len(Trace)
        /\ Trace[l].op \in {"expand", "trivial", "product", "parse"}
        /\ wf' = WellFormed(Trace[l])
        /\ exact' = (wf' => Exact(Trace[l]))
        /\ wild' = (wf' => Wild(Trace[l]))
        /\ l' = l + 1
        /\ BumpHw(l')

Next == Call
Spec == Init /\ [][Next]_vars

\* C17 invariants (evaluated after every consumed call)
C17_AcceptedImpliesExact == exact
C17_WildcardOnlyForFullRange == wild
TraceWellFormed == wf

Alias == [l |-> l, exact |-> exact, wild |-> wild, wf |-> wf]
=============================================================================

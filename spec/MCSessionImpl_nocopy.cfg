SPECIFICATION Spec
CONSTANTS
  Ids = {1, 2}
  Vers = {0, 1}
  Mode = "nocopy"
  MaxItems = 3
INVARIANTS RejectedChangesNothing DatapathIsImage
VIEW View
CHECK_DEADLOCK FALSE
